"""Builder of REAL version-1 (Ledger) attestation certificates from an abstract description.

Nothing here imports repository code: keys, signatures, tweaks, message layouts and the expected
values are produced by independent means (textbook ECDSA with RFC 6979 nonces on top of python-`ecdsa`'s
curve arithmetic for keys and signatures - libsecp256k1, which the code under test uses, only on
request via backend="libsecp" -, `hmac`/`hashlib` for tweaks, plain integer arithmetic for the
curve-membership test).  The only
thing shared with the code under test is the *file format* of a version-1 certificate.

Format facts this module encodes (the oracle side of C06/C08/C15/C16):

  * certificate  = {"version": 1, "targets": [names], "elements": [element, ...]}
  * element      = {"name", "message": hex, "signature": hex (DER), "signed_by": name | "root",
                    optional "tweak": hex}
  * the signature is ECDSA/secp256k1 (low-S, DER) over SHA-256(message) made by the certifier's
    key; with a tweak the certifier key is first tweaked:  priv' = priv + HMAC-SHA256(key=tweak
    bytes, msg=uncompressed 65-byte certifier public key)  (mod n)   <=>   pub' = pub + t*G
  * where the public key of an element lives inside its message (its `value`):
        device       the last 65 bytes of the message (uncompressed point)
        attestation  everything after the first byte (33- or 65-byte point)
        ui, signer   the whole message (33- or 65-byte point when the element certifies another
                     one; any bytes when it is a leaf)

API (used by drivers c06/c16 and meant for reuse by the verify / attestation-flow checks):

    chain = build(spec, rng, backend="ecdsa", keypool=None)        -> Chain
        (keypool: optional `KeyPool(seed).picker()` to draw keys from a fixed population instead of
         generating fresh ones - faster when very many certificates are built)
        spec = {"targets": [names],
                "elements": [{"name": n, "signed_by": p,            # declared certifier
                              "signer": p2,         # optional: who REALLY signs (default p);
                                                    #   a name, "root", or a key id in chain.keys
                              "tweak": None | bytes | "random",
                              "prefix": bytes,      # optional: device: bytes before the key,
                                                    #   attestation: the single header byte
                              "message": bytes,     # optional: explicit message (leaf ui/signer,
                                                    #   or any element if you know what you do)
                              "compressed": bool,   # optional: embed a 33-byte key
                              "shape": s},          # optional: a non-canonical message shape, see
                                                    #   SHAPES / shaped_message (children are still
                                                    #   signed by the element's real key)
                             ...]}
        Elements may be listed in any order; an element whose declared/real signer does not exist
        is signed by a throw-away key.  Names may repeat (later items are independent elements with
        their own keys; the certificate keeps them in list order).
    chain.cert          the certificate as a dict (json.dump-able)
    chain.root_hex      the root public key (uncompressed hex) under which the chain verifies
    chain.keys          {key id: Key}: "root", one per element ("device", ... or "name#i" for
                        repeated names), "x" (a stranger), and every key created later
    chain.sym           symbolic description per element index (see `Sym`), kept consistent with
                        every corruption: what TLC judges (spec/CertChainProps.tla)
    chain.corrupt(kind, where, rng, **opt) -> info     apply one REAL corruption, see CORRUPTIONS
    chain.expected_value(i) / chain.message(i)          oracle values from the structured input
    chain.put_element(item) -> index   add / replace one element the way HSMCertificate.add_element does
    chain.dump(path)    write the JSON file

    build_chain(spec, rng)                -> (cert_dict, root_pubkey_hex, keys)     thin wrapper
    corrupt(cert_dict, kind, where, rng, keys=None) -> info    same corruptions on a bare dict
    flip_bit(hexstr, byte_pos, bit)       -> hexstr

CORRUPTIONS (kind, where):
    "sig_flip"        i            one bit of the signature          opt: pos=(byte, bit) |
                                                                          at="first"|"last"
    "msg_flip"        i            one bit anywhere in the message   opt: pos
    "msg_flip_key"    i            one bit inside the embedded key   opt: pos (relative to key)
    "msg_flip_other"  i            one bit outside the embedded key (device / attestation only)
    "tweak_flip"      i            one bit of the tweak              opt: pos
    "tweak_remove"    i            the tweak field is dropped (signature stays)
    "tweak_add"       i            a tweak field is added (signature stays)
    "sig_other_key"   i            re-signed by the stranger key "x" (same tweak); opt key_id=: by
                                   chain.keys[key_id] instead (register it first: chain.add_key(id, key))
    "sig_swap"        (i, j)       the two elements exchange their signatures
    "reparent"        (i, name)    `signed_by` is rewritten (signature stays)
    "key_subst"       i            the embedded key is replaced by the stranger's and the element
                                   is properly RE-SIGNED by its real signer (the element verifies,
                                   whatever it certified no longer does)
    "wrong_root"      None         chain.root_hex becomes the stranger's key
    "respell"         i            opt: field=, member=: the hex field is WRITTEN in another spelling
                                   (chain.cert keeps the canonical one; chain.rendered() / dump() apply
                                   it; see SPELL_ACCEPTED / SPELL_REFUSED and chain.spell)
`where` is an element index into chain.cert["elements"] (or a name, meaning its last occurrence).
"""
import copy
import hashlib
import hmac
import json
import random

import ecdsa

NAMES = ("device", "attestation", "ui", "signer")
ROOT = "root"
P = 0xFFFFFFFFFFFFFFFFFFFFFFFFFFFFFFFFFFFFFFFFFFFFFFFFFFFFFFFEFFFFFC2F
N = 0xFFFFFFFFFFFFFFFFFFFFFFFFFFFFFFFEBAAEDCE6AF48A03BBFD25E8CD0364141
_CURVE = ecdsa.SECP256k1


_G = _CURVE.generator


def _pub_point(d):
    pt = _G * d
    return pt.x(), pt.y()


def ecdsa_sign(d, message):
    """DER, low-S, RFC 6979 ECDSA/secp256k1 signature over SHA-256(message) with secret scalar d
    (textbook ECDSA on top of python-ecdsa's point arithmetic; no public key needed)."""
    from ecdsa.rfc6979 import generate_k
    from ecdsa.util import sigencode_der
    digest = hashlib.sha256(message).digest()
    h = int.from_bytes(digest, "big")
    k = generate_k(N, d, hashlib.sha256, digest)
    r = (_G * k).x() % N
    s = pow(k, -1, N) * (h + d * r) % N
    if r == 0 or s == 0:
        raise ValueError("degenerate signature")
    if s > N // 2:
        s = N - s
    return sigencode_der(r, s, N)


class Key:
    """A secp256k1 key pair; `d` is the secret scalar.  The public key is computed on first use."""
    __slots__ = ("d", "_pub")

    def __init__(self, d):
        self.d = d
        self._pub = None

    def _xy(self):
        if self._pub is None:
            self._pub = _pub_point(self.d)
        return self._pub

    @property
    def pub65(self):
        x, y = self._xy()
        return b"\x04" + x.to_bytes(32, "big") + y.to_bytes(32, "big")

    @property
    def pub33(self):
        x, y = self._xy()
        return bytes([2 + (y & 1)]) + x.to_bytes(32, "big")

    @property
    def hex(self):
        return self.pub65.hex()

    def tweaked(self, tweak_bytes):
        """The key pair whose public key is  pub + HMAC-SHA256(tweak, pub65)*G."""
        if tweak_bytes is None:
            return self
        t = int.from_bytes(hmac.new(tweak_bytes, self.pub65, hashlib.sha256).digest(), "big")
        return Key((self.d + t) % N)

    def sign(self, message, backend="ecdsa"):
        """DER, low-S ECDSA signature over SHA-256(message)."""
        if backend == "libsecp":
            import secp256k1
            pk = secp256k1.PrivateKey(self.d.to_bytes(32, "big"), raw=True)
            return pk.ecdsa_serialize(pk.ecdsa_sign(message))
        return ecdsa_sign(self.d, message)


def new_key(rng):
    return Key(rng.randrange(1, N))


class KeyPool:
    """A fixed population of keys (derived from `seed`), handed out without repetition inside one
    certificate: saves the scalar multiplication per key when very many certificates are built.
        pool = KeyPool(seed);  build(spec, rng, keypool=pool.picker())"""

    def __init__(self, seed, size=64):
        r = random.Random("certv1-keypool:%s" % (seed,))
        self.keys = [Key(r.randrange(1, N)) for _ in range(size)]

    def picker(self):
        used = set()

        def mk(rng):
            while True:
                i = rng.randrange(len(self.keys))
                if i not in used:
                    used.add(i)
                    return self.keys[i]
        return mk


def point_class(b):
    """Classify bytes offered as an encoded secp256k1 point, by plain arithmetic:
    returns ("point", x, y) or ("bad",)."""
    if len(b) == 33 and b[0] in (2, 3):
        x = int.from_bytes(b[1:], "big")
        if x >= P:
            return ("bad",)
        y2 = (pow(x, 3, P) + 7) % P
        y = pow(y2, (P + 1) // 4, P)
        if y * y % P != y2:
            return ("bad",)
        if (y & 1) != (b[0] & 1):
            y = P - y
        return ("point", x, y)
    if len(b) == 65 and b[0] in (4, 6, 7):
        x = int.from_bytes(b[1:33], "big")
        y = int.from_bytes(b[33:], "big")
        if x >= P or y >= P or (y * y - (pow(x, 3, P) + 7)) % P != 0:
            return ("bad",)
        if b[0] in (6, 7) and (y & 1) != (b[0] & 1):
            return ("bad",)
        return ("point", x, y)
    return ("bad",)


def key_span(name, message_len):
    """(start, end) of the bytes of a message that hold the element's value / public key."""
    if name == "device":
        return (max(0, message_len - 65), message_len)
    if name == "attestation":
        return (min(1, message_len), message_len)
    return (0, message_len)


# ---- spelling of a hex-valued field --------------------------------------------------------------------
# What the loaders do with each spelling of the same bytes was established by running the unchanged code
# on every member, for every hex field (v1: message, signature, tweak; v2: message, custom_data, key,
# auth_data, signature); it is stated as SpellAccepted / SpellRefused in spec/CertChainProps.tla and
# spec/CertLoadProps.tla:
SPELL_ACCEPTED = ("lower", "upper", "mixed", "lead_blank", "trail_blank", "inner_blanks", "tabs",
                  "trail_newline")          # read as the very same bytes
SPELL_REFUSED = ("ws_only", "empty", "prefix_0x", "odd", "non_ascii", "split_pair", "nbsp")   # load error
SPELLINGS = SPELL_ACCEPTED + SPELL_REFUSED
_FULLWIDTH = {c: chr(0xFF10 + i) for i, c in enumerate("0123456789")}


def respell(h, member, rng=None):
    """Another spelling of the canonical (lower-case, no blanks) hex string `h`."""
    rng = rng or random.Random(len(h))
    pairs = [h[i:i + 2] for i in range(0, len(h), 2)]
    if member == "lower":
        return h
    if member == "upper":
        return h.upper()
    if member == "mixed":
        return "".join(c.upper() if i % 2 else c for i, c in enumerate(h))
    if member == "lead_blank":
        return rng.choice([" ", "  ", "\t", "\n"]) + h
    if member == "trail_blank":
        return h + rng.choice([" ", "  ", "\t"])
    if member == "inner_blanks":
        return " ".join(pairs)
    if member == "tabs":
        return rng.choice(["\t", "\r\n", "\n"]).join(pairs)
    if member == "trail_newline":
        return h + rng.choice(["\n", "\r\n"])
    if member == "ws_only":
        return rng.choice([" ", "\t", "\n", "   "])
    if member == "empty":
        return ""
    if member == "prefix_0x":
        return rng.choice(["0x", "0X"]) + h
    if member == "odd":
        return h[:-1] if rng.random() < 0.5 else h + "a"
    if member == "non_ascii":
        for i, c in enumerate(h):
            if c in _FULLWIDTH:
                return h[:i] + _FULLWIDTH[c] + h[i + 1:]
        return h + _FULLWIDTH["1"] * 2
    if member == "split_pair":
        return h[:1] + " " + h[1:]
    if member == "nbsp":
        return h[:2] + "\u00a0" + h[2:]
    raise ValueError("unknown spelling %r" % (member,))


def flip_bit(hexstr, byte_pos, bit):
    b = bytearray(bytes.fromhex(hexstr))
    b[byte_pos] ^= (1 << bit)
    return bytes(b).hex()


class Sym:
    """Symbolic view of one element (DESIGN 3.3): ids, not bytes.
       by     declared certifier name
       key    id of the key embedded in the message ("k_bad" = not a curve point)
       msg    id of the message;  val: the value (hex) the message carries
       sigk, sigt, sigover   the signature: made by key id `sigk` tweaked by tweak id `sigt`
                             ("none" = untweaked) over message id `sigover`
       tweak  declared tweak id ("none" when absent)
    Ids are content-addressed: two elements / two moments carry the same id iff the bytes are equal
    (a bit flipped twice gives the original id back); a signature that this module did not produce
    itself is by "k_none" over "m_none"."""
    __slots__ = ("name", "by", "key", "msg", "val", "sigk", "sigt", "sigover", "tweak", "tweak_hex")

    def to_dict(self):
        return {k: getattr(self, k) for k in self.__slots__}


class Chain:
    def __init__(self, rng, backend="ecdsa"):
        self.rng = rng
        self.backend = backend
        self.cert = {"version": 1, "targets": [], "elements": []}
        self.keys = {}
        self.sym = []
        self.root_hex = None
        self.root_sym = "k_root"
        self._own = []          # key id of element i
        self._signer = []       # key id that really signed element i
        self._fresh = 0
        # content-addressed symbolic ids: equal bytes <=> equal id
        self._pub2id = {}       # uncompressed point -> key id
        self._msg2id = {}       # message bytes -> message id
        self._tw2id = {}        # tweak bytes -> tweak id
        self._sig2sym = {}      # signature bytes -> (key id, tweak id, message id) it was made with
        # spelling overlay: (element index, field) -> member of SPELLINGS.  self.cert always holds the
        # canonical spelling; rendered() / dump() write the chosen spellings
        self.spelling = {}
        self._mk = None

    # ---- helpers ----
    def _reg(self, kid, key):
        self.keys[kid] = key
        self._pub2id[key.pub65] = "k_" + kid
        return key

    def _fresh_id(self, prefix):
        self._fresh += 1
        return "%s%d" % (prefix, self._fresh)

    def index(self, where):
        if isinstance(where, int):
            return where
        idx = [i for i, e in enumerate(self.cert["elements"]) if e["name"] == where]
        if not idx:
            raise KeyError(where)
        return idx[-1]

    def message(self, i):
        return bytes.fromhex(self.cert["elements"][self.index(i)]["message"])

    def expected_value(self, i):
        """The value a valid verdict must report for element i: the part of ITS signed message that
        the format defines as the element's value (whole message for ui / signer)."""
        i = self.index(i)
        e = self.cert["elements"][i]
        m = bytes.fromhex(e["message"])
        a, b = key_span(e["name"], len(m))
        return m[a:b]

    def _key_id_of_bytes(self, b):
        pc = point_class(b)
        if pc[0] == "bad":
            return "k_bad"
        pub65 = b"\x04" + pc[1].to_bytes(32, "big") + pc[2].to_bytes(32, "big")
        kid = self._pub2id.get(pub65)
        if kid is None:
            kid = self._pub2id[pub65] = self._fresh_id("k_y")
        return kid

    def _msg_id(self, m, hint):
        mid = self._msg2id.get(m)
        if mid is None:
            mid = self._msg2id[m] = ("m_" + hint) if ("m_" + hint) not in self._msg2id.values() \
                else self._fresh_id("m_%s_" % hint)
        return mid

    def _tweak_id(self, tw, hint):
        if tw is None:
            return "none"
        tid = self._tw2id.get(tw)
        if tid is None:
            tid = self._tw2id[tw] = ("t_" + hint) if ("t_" + hint) not in self._tw2id.values() \
                else self._fresh_id("t_%s_" % hint)
        return tid

    def _sign(self, i, signer_id, tw, msg):
        """Real signature of msg by keys[signer_id] tweaked by tw; remembered symbolically."""
        sig = self.keys[signer_id].tweaked(tw).sign(msg, self.backend)
        self._sig2sym[sig] = ("k_" + signer_id, self._tweak_id(tw, self._own[i]),
                              self._msg_id(msg, self._own[i]))
        return sig

    def resym(self):
        """Re-derive the symbolic description of every element from the bytes it now holds."""
        while len(self.sym) < len(self.cert["elements"]):
            self.sym.append(Sym())
        for i, e in enumerate(self.cert["elements"]):
            s = self.sym[i]
            own = self._own[i] if i < len(self._own) else e["name"]
            m = bytes.fromhex(e["message"])
            tw = bytes.fromhex(e["tweak"]) if "tweak" in e else None
            s.name, s.by = e["name"], e["signed_by"]
            s.msg = self._msg_id(m, own)
            v = self.expected_value(i)
            s.val = v.hex()
            s.key = self._key_id_of_bytes(v)
            s.tweak = self._tweak_id(tw, own)
            s.tweak_hex = e.get("tweak", "")
            s.sigk, s.sigt, s.sigover = self._sig2sym.get(bytes.fromhex(e["signature"]),
                                                          ("k_none", "none", "m_none"))

    def _make(self, i, it, last):
        """(Re)create element i from the item description `it`: message per shape, real signature by the
        (tweaked) key of its signer; `last` maps an element name to the key id it stands for."""
        rng = self.rng
        n = it["name"]
        key = self.keys[self._own[i]]
        if it.get("message") is not None:
            msg = bytes(it["message"])
        elif it.get("shape", "canon") != "canon":
            msg = shaped_message(n, key, it["shape"], rng, it.get("variant"))
        else:
            kb = key.pub33 if (it.get("compressed") and n != "device") else key.pub65
            if n == "device":
                pre = it.get("prefix")
                if pre is None:
                    pre = bytes(rng.randrange(256) for _ in range(rng.randrange(1, 40)))
                msg = bytes(pre) + kb
            elif n == "attestation":
                pre = it.get("prefix")
                if pre is None:
                    pre = bytes([rng.randrange(256)])
                msg = bytes(pre) + kb
            else:
                msg = kb
        tw = it.get("tweak")
        if tw == "random":
            tw = bytes(rng.randrange(256) for _ in range(32))
        signer = it.get("signer", it["signed_by"])
        if not isinstance(signer, str):
            sid = "ghost:%r" % (signer,)
        elif signer == ROOT:
            sid = "root"
        elif signer in last:
            sid = last[signer]
        elif signer in self.keys:
            sid = signer
        else:
            sid = "ghost:%s" % (signer,)
        if sid not in self.keys:
            self._reg(sid, (self._mk or new_key)(rng))
        self._signer[i] = sid
        sig = self._sign(i, sid, tw, msg)
        e = {"name": n, "message": msg.hex(), "signature": sig.hex(), "signed_by": it["signed_by"]}
        if tw is not None:
            e["tweak"] = tw.hex()
        self.cert["elements"][i] = e

    def put_element(self, it):
        """What HSMCertificate.add_element does to the content: a NEW element is appended (with a fresh
        key); an element whose name already exists is REPLACED by a re-issued one for the same key (new
        message where the format leaves room, new certifier / signature / tweak as `it` says).
        Returns the element's index."""
        n = it["name"]
        idx = [i for i, e in enumerate(self.cert["elements"]) if e["name"] == n]
        last = {e["name"]: self._own[j] for j, e in enumerate(self.cert["elements"])}
        if idx:
            i = idx[-1]
            for k in [k for k in self.spelling if k[0] == i]:
                del self.spelling[k]
        else:
            i = len(self.cert["elements"])
            kid = n if n not in self.keys else self._fresh_id(n + "#")
            self._reg(kid, (self._mk or new_key)(self.rng))
            self._own.append(kid)
            self._signer.append(None)
            self.cert["elements"].append(None)
            last[n] = kid
        self._make(i, it, last)
        self.resym()
        return i

    def add_key(self, kid, key):
        """Make a foreign key known to this chain (e.g. another device's, to forge with)."""
        return self._reg(kid, key)

    def respell(self, where, field, member):
        """Write `field` ("message" | "signature" | "tweak") of element `where` in another spelling of the
        same bytes (SPELL_ACCEPTED) or in a malformed one (SPELL_REFUSED) when the file is rendered."""
        i = self.index(where)
        if field not in self.cert["elements"][i]:
            raise ValueError("element %d has no %s" % (i, field))
        if member not in SPELLINGS:
            raise ValueError("unknown spelling %r" % (member,))
        self.spelling[(i, field)] = member

    @property
    def spell(self):
        """"" | an accepted member | a refused member (a refused one wins): what the file deviates by."""
        ms = list(self.spelling.values())
        bad = [m for m in ms if m in SPELL_REFUSED]
        ok = [m for m in ms if m != "lower"]
        return bad[0] if bad else ok[0] if ok else ""

    def rendered(self):
        """The certificate as it is written to the file (spellings applied)."""
        if not self.spelling:
            return self.cert
        out = copy.deepcopy(self.cert)
        r = random.Random(repr(sorted(self.spelling.items())))
        for (i, field), member in sorted(self.spelling.items()):
            e = out["elements"][i]
            if field in e:
                sp = respell(e[field], member, r)
                if member in SPELL_ACCEPTED and bytes.fromhex(sp) != bytes.fromhex(e[field]):
                    raise AssertionError("spelling %s does not denote the same bytes" % member)
                e[field] = sp
        return out

    def dump(self, path):
        with open(path, "w") as f:
            json.dump(self.rendered(), f)

    # ---- corruptions ----
    def corrupt(self, kind, where, rng=None, **opt):
        rng = rng or self.rng
        els = self.cert["elements"]
        info = {"kind": kind, "where": where}
        try:
            return self._corrupt(kind, where, rng, els, info, opt)
        finally:
            self.resym()

    def _corrupt(self, kind, where, rng, els, info, opt):
        if kind == "wrong_root":
            self.root_hex = self.keys["x"].hex
            self.root_sym = "k_x"
            return info
        if kind == "respell":
            self.respell(where, opt["field"], opt["member"])
            return info
        if kind == "sig_swap":
            i, j = self.index(where[0]), self.index(where[1])
            els[i]["signature"], els[j]["signature"] = els[j]["signature"], els[i]["signature"]
            return info
        if kind == "reparent":
            i = self.index(where[0])
            els[i]["signed_by"] = where[1]
            return info
        i = self.index(where)
        e = els[i]

        def pick(lo, hi):
            """seeded position in [lo, hi): opt pos=(byte offset from lo, bit) | at="first"|"last"."""
            if opt.get("pos") is not None:
                return (lo + opt["pos"][0], opt["pos"][1])
            if opt.get("at") == "first":
                return (lo, rng.randrange(8))
            if opt.get("at") == "last":
                return (hi - 1, rng.randrange(8))
            return (rng.randrange(lo, hi), rng.randrange(8))

        if kind == "sig_flip":
            n = len(e["signature"]) // 2
            pos = pick(0, n)
            e["signature"] = flip_bit(e["signature"], pos[0], pos[1])
            info["pos"] = list(pos)
        elif kind in ("msg_flip", "msg_flip_key", "msg_flip_other"):
            n = len(e["message"]) // 2
            a, b = key_span(e["name"], n)
            if kind == "msg_flip":
                lo, hi = 0, n
            elif kind == "msg_flip_key":
                lo, hi = a, b
            else:
                if a == 0:
                    raise ValueError("no bytes outside the key in a %s message" % e["name"])
                lo, hi = 0, a
            pos = pick(lo, hi)
            e["message"] = flip_bit(e["message"], pos[0], pos[1])
            info["pos"] = list(pos)
            info["in_key"] = a <= pos[0] < b
        elif kind == "tweak_flip":
            n = len(e["tweak"]) // 2
            pos = pick(0, n)
            e["tweak"] = flip_bit(e["tweak"], pos[0], pos[1])
            info["pos"] = list(pos)
        elif kind == "tweak_remove":
            del e["tweak"]
        elif kind == "tweak_add":
            if "tweak" in e:
                raise ValueError("element already has a tweak")
            e["tweak"] = bytes(rng.randrange(256) for _ in range(32)).hex()
        elif kind == "sig_other_key":
            tw = bytes.fromhex(e["tweak"]) if "tweak" in e else None
            e["signature"] = self._sign(i, opt.get("key_id", "x"), tw, bytes.fromhex(e["message"])).hex()
        elif kind == "key_subst":
            m = bytes.fromhex(e["message"])
            a, b = key_span(e["name"], len(m))
            if b - a not in (33, 65):
                raise ValueError("element %d embeds no key" % i)
            newkey = self.keys["x"].pub33 if (b - a) == 33 else self.keys["x"].pub65
            m = m[:a] + newkey + m[b:]
            e["message"] = m.hex()
            tw = bytes.fromhex(e["tweak"]) if "tweak" in e else None
            e["signature"] = self._sign(i, self._signer[i], tw, m).hex()
        else:
            raise ValueError("unknown corruption %r" % kind)
        return info


SHAPES = ("canon", "comp", "longTail", "longHead", "short", "sliced")


def shaped_message(name, key, shape, rng, variant=None):
    """The message of an element whose own key is `key`, in a non-canonical SHAPE.  The element's
    value (key_span) is then, by this module's reading of the format:
        comp      exactly the 33-byte compressed key (device: the message is nothing but that key)
        longTail  extra bytes followed by the 65-byte key (for a device the value, its last 65 bytes,
                  is still exactly the key; for the others the value is LONGER than a key)
        longHead  the 65-byte key followed by extra bytes
        short     a truncated key: variant 0 = last byte dropped, 1 = x||y without the format byte,
                  2 = the x coordinate only
        sliced    padding, the key, padding (a key only after slicing it out)
    An element certifies with the key that its WHOLE value is; in every shape but comp (and a device's
    longTail) the value is not a key at all."""
    def rnd(n):
        return bytes(rng.randrange(256) for _ in range(n))
    head = b"" if name in ("ui", "signer") else bytes([rng.randrange(256)]) if name == "attestation" \
        else rnd(rng.randrange(1, 40))
    if shape == "comp":
        return (b"" if name == "device" else head) + key.pub33
    if shape == "longTail":
        return head + rnd(rng.choice([1, 2, 16, 65, 100])) + key.pub65
    if shape == "longHead":
        return head + key.pub65 + rnd(rng.choice([1, 2, 16, 65]))
    if shape == "short":
        v = rng.randrange(3) if variant is None else variant % 3
        if v == 1 and name == "device" and head[-1] in (4, 6, 7):
            head = head[:-1] + b"\x00"      # (else the last 65 bytes would spell the key again)
        return head + (key.pub65[:-1] if v == 0 else key.pub65[1:] if v == 1 else key.pub65[1:33])
    if shape == "sliced":
        return head + rnd(rng.choice([1, 4, 32])) + key.pub65 + rnd(rng.choice([1, 4, 32]))
    raise ValueError("unknown shape %r" % (shape,))


def build(spec, rng, backend="ecdsa", keypool=None):
    """Build a well-formed chain: every element is signed over its message by the (tweaked) key of
    its `signer` (default: the declared `signed_by`).  `keypool`: optional callable rng -> Key."""
    mk = keypool or new_key
    ch = Chain(rng, backend)
    items = spec["elements"]
    ch._reg("root", mk(rng))
    ch._reg("x", mk(rng))
    ch.root_hex = ch.keys["root"].hex
    counts = {}
    for it in items:
        counts[it["name"]] = counts.get(it["name"], 0) + 1
    seen = {}
    own = []
    for it in items:
        n = it["name"]
        seen[n] = seen.get(n, 0) + 1
        kid = n if counts[n] == 1 else "%s#%d" % (n, seen[n])
        ch._reg(kid, mk(rng))
        own.append(kid)
    last = {}
    for i, it in enumerate(items):
        last[it["name"]] = own[i]          # a name denotes its last occurrence
    ch._mk = mk
    for i, it in enumerate(items):
        ch._own.append(own[i])
        ch._signer.append(None)
        ch.cert["elements"].append(None)
        ch._make(i, it, last)
    ch._mk = None           # (later additions draw fresh keys; keeps the chain picklable)
    ch.resym()
    ch.cert["targets"] = list(spec.get("targets", []))
    return ch


def build_chain(spec, rng, backend="ecdsa"):
    ch = build(spec, rng, backend)
    return ch.cert, ch.root_hex, ch.keys


def corrupt(cert_dict, kind, where, rng, keys=None):
    """Apply a corruption to a bare certificate dict in place (no symbolic bookkeeping).  `keys` (as
    returned by build_chain) is needed for the kinds that sign ("sig_other_key" uses keys["x"],
    "key_subst" re-signs with keys[<signed_by of the element>])."""
    ch = Chain(rng)
    ch.cert = cert_dict
    ch.keys = dict(keys or {})
    if "x" not in ch.keys:
        ch.keys["x"] = new_key(rng)
    ch._own = [e["name"] for e in cert_dict["elements"]]
    ch._signer = [("root" if e["signed_by"] == ROOT else e["signed_by"])
                  for e in cert_dict["elements"]]
    info = ch.corrupt(kind, where, rng)
    if kind == "wrong_root":
        info["root_hex"] = ch.root_hex
    return info


def deep(cert):
    return copy.deepcopy(cert)
