"""Drive the real manager bring-up (`initialize_device`, through `TCPServer.run` when asked) against a
simulated device built from an abstract environment record, and project what crossed the link into
the event alphabet of spec/BringupProps.tla."""
import os
import socket
import threading

from . import env
from .simdev import SimDevice, MODE_BOOT, MODE_SIGNER, MODE_UIHB
from .transport import World, install

MODE_BYTES = {"boot": MODE_BOOT, "signer": MODE_SIGNER, "uihb": MODE_UIHB, "unknown": 0xFF}
MODE_NAMES = {MODE_BOOT: "boot", MODE_SIGNER: "signer", MODE_UIHB: "uihb", 0xFF: "unknown"}
OTHER_MODE_BYTES = (0x00, 0x01, 0x05, 0x07, 0x42, 0xFE)

GOOD_PIN = b"abcd1234"
BAD_PIN = b"zzzz9999"


def mode_name(b):
    return MODE_NAMES.get(b, "other")


class Scenario:
    """Concrete environment for one bring-up: device + platform + PIN file state."""

    def __init__(self, plat, needchg, dev, onb_err=None, retries_err=None, desc=None):
        self.plat = plat
        self.needchg = needchg          # "t": no pin file (default PIN in use) / forced change
        self.dev = dev
        self.onb_err = onb_err          # None | fault spec for the first IS_ONBOARD
        self.retries_err = retries_err  # None | fault spec for the RETRIES query
        self.desc = desc or {}


_ECHO_TURN = [0]


def scenario_from_env(plat, needchg, e, rng):
    """Concretise an abstract Env record from GenBringup. Dimensions the behaviour never looked at
    ("?" / sentinels) are filled with seeded random members of their domain."""
    def pick(v, dom):
        return v if v not in ("?", None) else rng.choice(dom)

    def ver(v, dom_major=(4, 5, 6)):
        if list(v) != [999, 999, 999]:
            return tuple(v)
        return (rng.choice(dom_major), rng.choice((3, 4, 5)), rng.choice((0, 1, 2)))

    d = SimDevice(platform="sgx" if plat == "sgx" else "ledger", seed=rng.random())
    onb = pick(e["onb"], ["yes", "no"])
    d.onboarded = onb != "no"
    mode1 = pick(e["mode1"], ["boot", "signer", "uihb", "unknown", "other"])
    d.mode = MODE_BYTES[mode1] if mode1 != "other" else rng.choice(OTHER_MODE_BYTES)
    d.ui_version = ver(e["uiver"])
    d.app_version = ver(e["appver"])
    d.echo_ok = pick(e["echo"], ["t", "f"]) == "t"
    if not d.echo_ok:
        # every shape of a wrong echo in turn (not one random member): header-only, payload-only, length ...
        from .simdev import ECHO_SHAPES
        _ECHO_TURN[0] += 1
        d.echo_shape = ECHO_SHAPES[_ECHO_TURN[0] % len(ECHO_SHAPES)]
    r = e["retries"]
    retries_err = None
    if r == 998:
        d.retries = rng.choice((0, 1, 2, 3, 255))
    elif r == 999:
        d.retries = rng.choice((2, 3))
        retries_err = ("sw", rng.choice((0x6A99, 0x6D00, 0x6E00, 0x6F00)))
    else:
        d.retries = r
    unlock = pick(e["unlock"], ["t", "f"])
    d.pin = GOOD_PIN if unlock == "t" else BAD_PIN
    d.newpin_answer = pick(e["newpin"], ["ack", "refuse", "err"])
    mode2 = pick(e["mode2"], ["boot", "signer", "uihb", "unknown", "other"])
    d.exit_modes = [MODE_BYTES[mode2] if mode2 != "other" else rng.choice(OTHER_MODE_BYTES)]
    onb_err = None
    if e["onb"] == "err":
        onb_err = rng.choice([("sw", 0x6A99), ("sw", 0x6E00), ("timeout",), ("sw", 0x6D00)])
    desc = {"plat": plat, "needchg": needchg, "onb": e["onb"] if e["onb"] == "err" else onb,
            "mode1": mode1, "uiver": list(d.ui_version), "appver": list(d.app_version),
            "echo": "t" if d.echo_ok else "f", "retries": d.retries if r != 999 else "err",
            "unlock": unlock, "newpin": d.newpin_answer, "mode2": mode2}
    return Scenario(plat, needchg, d, onb_err, retries_err, desc)


def make_pin(sc, scratch, tag):
    """Real FileBasedPin over a real file: present (no change needed) or absent + default."""
    env.setup()
    from ledger.pin import FileBasedPin
    if sc.plat == "tcp":
        return None, None
    path = os.path.join(scratch, "pin_%s.txt" % tag)
    if os.path.exists(path):
        os.unlink(path)
    if sc.needchg == "t":
        return FileBasedPin(path, default_pin=GOOD_PIN, force_change=False), path
    with open(path, "wb") as f:
        f.write(GOOD_PIN)
    return FileBasedPin(path, default_pin=None, force_change=False), path


def build(sc, scratch, tag, version=2):
    from comm.platform import Platform
    Platform.set({"ledger": Platform.LEDGER, "sgx": Platform.SGX, "tcp": Platform.X86}[sc.plat])
    world = World(sc.dev, "hid" if sc.plat == "ledger" else "tcp").late_every_second()
    install(world)
    from ledger.hsm2dongle import HSM2Dongle
    from ledger.hsm2dongle_tcp import HSM2DongleTCP
    from sgx.hsm2dongle import HSM2DongleSGX
    from ledger.protocol import HSM2ProtocolLedger
    from ledger.protocol_v1 import HSM1ProtocolLedger
    pin, pin_path = make_pin(sc, scratch, tag)
    if sc.plat == "ledger":
        dongle = HSM2Dongle(False)
    elif sc.plat == "sgx":
        dongle = HSM2DongleSGX("127.0.0.1", 1, False)
    else:
        dongle = HSM2DongleTCP("127.0.0.1", 1, False)
    proto = (HSM2ProtocolLedger if version == 2 else HSM1ProtocolLedger)(pin, dongle)

    seen = {"onb": 0}

    def hook(w, apdu, idx):
        if len(apdu) >= 2 and apdu[1] == 0x06:
            seen["onb"] += 1
            if seen["onb"] == 1 and sc.onb_err is not None:
                return sc.onb_err
        if len(apdu) >= 2 and apdu[1] in (0x45, 0xA2) and sc.retries_err is not None:
            return sc.retries_err
        return None
    world.fault_hook = hook
    world.pin_path = pin_path
    return world, proto


def run_direct(proto):
    """outcome of initialize_device(): 'serve' if it returns (TCPServer.run would go on to listen),
    'stop' otherwise; plus the exception class name."""
    try:
        proto.initialize_device()
        return "serve", None
    except BaseException as e:   # noqa
        return "stop", type(e).__name__


def run_via_server(proto, probe=True):
    """Same through comm.server.TCPServer.run on a real ephemeral loopback socket: 'serve' iff a
    client gets an answer to a `version` request."""
    import json
    import socketserver
    from comm.server import TCPServer
    srv = TCPServer("127.0.0.1", 0, proto)
    result = {"exc": None}
    started = threading.Event()
    orig_init = socketserver.TCPServer.__init__

    def run():
        try:
            srv.run()
        except BaseException as e:   # noqa
            result["exc"] = type(e).__name__
        finally:
            started.set()

    # learn when the socket is bound: poll srv.server
    t = threading.Thread(target=run, daemon=True)
    t.start()
    served = False
    for _ in range(2000):
        if srv.server is not None or not t.is_alive():
            break
        started.wait(0.001)
    if srv.server is not None and t.is_alive():
        host, port = srv.server.server_address
        try:
            with socket.create_connection((host, port), timeout=5) as s:
                s.sendall(b'{"command":"version"}\n')
                data = s.makefile("rb").readline()
            served = b"errorcode" in data and json.loads(data.decode()).get("errorcode") == 0
        except Exception:
            served = False
        srv.server.shutdown()
    t.join(10)
    return ("serve" if served else "stop"), result["exc"]


def classify(apdu):
    if len(apdu) < 2:
        return "other"
    c = apdu[1]
    return {0x06: "is_onboard", 0x43: "get_mode", 0xA4: "echo", 0x45: "retries", 0xA2: "retries",
            0x41: "pin_byte", 0xFE: "unlock", 0xA3: "unlock", 0x08: "change_pin", 0xA5: "change_pin",
            0xFF: "exit", 0xFA: "exit", 0x11: "params"}.get(c, "cmd%02x" % c)


def project(world, sc, log=None):
    """world.log -> events of BringupProps (with the device's ground truth at each exchange)."""
    evs = []
    for e in (world.log if log is None else log):
        if e["ev"] in ("open", "close"):
            continue
        t = e["truth"]
        cls = classify(e["apdu"])
        mode = mode_name(t["mode"])
        if cls == "cmd02":
            cls = "echo" if mode == "boot" else "sign"
        ok = "na"
        resp = e.get("resp")
        if cls == "echo":
            ok = "t" if (e.get("sw") == 0x9000 and resp == e["apdu"]) else "f"
        elif cls == "unlock":
            ok = "t" if (e.get("sw") == 0x9000 and resp is not None and len(resp) > 2
                         and resp[2] != 0) else "f"
        elif cls == "change_pin":
            if e["apdu"][1] == 0xA5:
                ok = "t" if (e.get("sw") == 0x9000 and resp is not None and len(resp) > 2
                             and resp[2] == 1) else "f"
            else:
                ok = "t" if e.get("sw") == 0x9000 else "f"
        onb = "yes" if t["onb"] else "no"
        if sc.onb_err is not None:
            onb = "err"
        evs.append({"cls": cls, "d_mode": mode, "d_onb": onb, "d_ver": list(t["ver"]),
                    "d_retries": t["retries"], "ok": ok})
    return evs


def final_truth(world, sc):
    d = world.device
    onb = "err" if sc.onb_err is not None else ("yes" if d.onboarded else "no")
    ver = d.ui_version if d.mode in (MODE_BOOT, MODE_UIHB) else d.app_version
    return {"onb": onb, "mode": mode_name(d.mode), "ver": list(ver)}
