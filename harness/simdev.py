"""State-based simulators of the powHSM device as seen from the host (Ledger UI/bootloader, signer app,
UI-heartbeat app, SGX). Written from the firmware sources and DESIGN.md Appendix E. A simulator
*reassembles* what it is sent (so projections are taken from the device's point of view) and asks for
data according to a policy object, which a driver may script step by step from a TLC behaviour.

handle(apdu) -> (status_word, answer_bytes)   or raises transport.DeviceDropsLink
"""
import hashlib
import os
import struct

from .transport import DeviceDropsLink

CLA = 0x80

MODE_BOOT, MODE_SIGNER, MODE_UIHB = 0x02, 0x03, 0x04

# the six documented key ids (docs/protocol.md); first two require authorization
PATHS = {
    "btc": "m/44'/0'/0'/0/0", "tbtc": "m/44'/1'/0'/0/0",
    "rsk": "m/44'/137'/0'/0/0", "mst": "m/44'/137'/1'/0/0",
    "trsk": "m/44'/1'/1'/0/0", "tmst": "m/44'/1'/2'/0/0",
}
AUTH_PATHS = ("btc", "tbtc")


def path_bytes(spec):
    """Independent BIP32 path encoder: count byte + 5 little-endian uint32."""
    parts = spec[2:].split("/")
    out = bytes([len(parts)])
    for p in parts:
        h = p.endswith("'")
        v = int(p[:-1] if h else p)
        out += struct.pack("<I", v + (0x80000000 if h else 0))
    return out


PATH_BYTES = {k: path_bytes(v) for k, v in PATHS.items()}
BYTES_PATH = {v: k for k, v in PATH_BYTES.items()}


def der_sig(r, s, first=0x30, trailing=b""):
    body = b"\x02" + bytes([len(r)]) + r + b"\x02" + bytes([len(s)]) + s
    return bytes([first, len(body)]) + body + trailing


class FaithfulSignPolicy:
    """Terminates each part exactly where the firmware would (declared lengths), asking for chunks
    whose sizes come from `size(part, remaining)` (default: as much as possible, <= cap)."""

    def __init__(self, size=None, cap=255):
        self.size = size or (lambda part, remaining: min(remaining, cap))
        self.cap = cap

    @staticmethod
    def needed(part, got):
        """Total bytes of `part` the device will consume, or None if not yet known."""
        if part == "btc":
            if len(got) < 7:
                return None
            return struct.unpack("<I", got[:4])[0] + struct.unpack("<H", got[5:7])[0]
        if part == "rcpt":
            return rlp_total_length(got)
        if part == "mp":
            if len(got) < 1:
                return None
            n, off = got[0], 1
            for _ in range(n):
                if len(got) <= off:
                    return None
                off += 1 + got[off]
            return off
        raise ValueError(part)

    def decide(self, dev, part, got):
        need = self.needed(part, got)
        if need is None or len(got) < need:
            remaining = (need - len(got)) if need is not None else 1
            if need is None:
                # header bytes not complete yet: ask for what is missing of the header
                remaining = {"btc": 7 - len(got), "rcpt": max(1, rlp_header_missing(got)),
                             "mp": 1}[part]
            return ("more", max(1, min(255, self.size(part, remaining))))
        nxt = {"btc": "rcpt", "rcpt": "mp", "mp": "success"}[part]
        if nxt == "success":
            return ("success", dev.make_signature())
        return ("next", nxt, max(1, min(255, self.size(nxt, 255))))

    def first(self, dev):
        return ("next", "btc", max(1, min(255, self.size("btc", 4))))


class ScriptedPolicy:
    """Pops one decision per device answer; falls back to `fallback` when the script runs out."""

    def __init__(self, script, fallback=None):
        self.script = list(script)
        self.fallback = fallback or FaithfulSignPolicy()

    def decide(self, dev, part, got):
        if self.script:
            return self.script.pop(0)
        return self.fallback.decide(dev, part, got)

    def first(self, dev):
        if self.script:
            return self.script.pop(0)
        return self.fallback.first(dev)


def rlp_total_length(b):
    """Total encoded length of the RLP item starting at b[0], or None if the header is incomplete."""
    if len(b) < 1:
        return None
    x = b[0]
    if x < 0x80:
        return 1
    if x <= 0xb7:
        return 1 + (x - 0x80)
    if x <= 0xbf:
        n = x - 0xb7
        if len(b) < 1 + n:
            return None
        return 1 + n + int.from_bytes(b[1:1 + n], "big")
    if x <= 0xf7:
        return 1 + (x - 0xc0)
    n = x - 0xf7
    if len(b) < 1 + n:
        return None
    return 1 + n + int.from_bytes(b[1:1 + n], "big")


def rlp_header_missing(b):
    if len(b) < 1:
        return 1
    x = b[0]
    if 0xb8 <= x <= 0xbf:
        return max(0, 1 + (x - 0xb7) - len(b))
    if x >= 0xf8:
        return max(0, 1 + (x - 0xf7) - len(b))
    return 0


class FaithfulBlockPolicy:
    """advance / update-ancestor: consumes each header completely (length from its RLP prefix), asks
    for brothers when `ask_brothers(i)`; reports success after the announced number of blocks, or
    `stop_after` = (k, "partial"|"success")."""

    def __init__(self, size=None, ask_brothers=lambda i: True, stop_after=None, consume=None):
        self.size = size or (lambda kind, remaining: min(remaining, 255))
        self.ask_brothers = ask_brothers
        self.stop_after = stop_after
        self.consume = consume      # callable(kind, i, j, total) -> bytes to consume (<= total)

    def header_need(self, kind, i, j, got):
        total = rlp_total_length(got)
        if total is None:
            return None
        if self.consume is not None:
            return max(1, min(total, self.consume(kind, i, j, total)))
        return total

    def decide(self, dev, kind, i, j, got):
        """kind: 'block'|'brother'; returns ('more', n) or ('done',)"""
        need = self.header_need(kind, i, j, got)
        if need is None:
            return ("more", max(1, min(255, self.size(kind, max(1, rlp_header_missing(got))))))
        if len(got) < need:
            return ("more", max(1, min(255, self.size(kind, need - len(got)))))
        return ("done",)


_TURN = {"sgx_refuse": 0, "sgx_err": 0, "ledger_err": 0}
ECHO_SHAPES = ["last", "first_payload", "cla", "cmd", "cla_cmd", "short", "long", "empty", "header_only",
               "payload_only", "reversed", "upper_bit"]


def bad_echo(apdu, shape):
    """An answer to ECHO that is not the APDU that was sent."""
    a = bytes(apdu)
    return {
        "last": a[:-1] + bytes([a[-1] ^ 1]),
        "first_payload": a[:2] + bytes([a[2] ^ 0x20]) + a[3:] if len(a) > 2 else a + b"\x00",
        "cla": bytes([a[0] ^ 0x60]) + a[1:],
        "cmd": a[:1] + bytes([a[1] ^ 0xA6]) + a[2:],
        "cla_cmd": b"\x00\x00" + a[2:],
        "short": a[:-1],
        "long": a + b"\x00",
        "empty": b"",
        "header_only": a[:2],
        "payload_only": a[2:],
        "reversed": a[:2] + a[2:][::-1],
        "upper_bit": a[:2] + bytes(b | 0x80 for b in a[2:]),
    }[shape]


class SimDevice:
    def __init__(self, platform="ledger", mode=MODE_SIGNER, seed=1):
        self.platform = platform
        self.mode = mode
        self.seed = seed
        self.rnd = _Rnd(seed)
        self.onboarded = True
        self.ui_version = (5, 4, 1)
        self.app_version = (5, 4, 1)
        self.retries = 3
        self.pin = b"1234567a"
        self.pinbuf = bytearray(16)
        self.echo_ok = True
        self.echo_shape = "last"      # how a wrong echo differs from what was sent (see bad_echo)
        self.unlocked = False
        self.autoexec_mode = MODE_SIGNER     # mode after EXIT_MENU(autoexec) from bootloader
        self.exit_modes = []                 # scripted modes after successive exits
        self.exit_drop = "read"              # how the link drops at exit (None: it does not drop)
        self.exit_drops = []                 # scripted per-exit override of exit_drop
        self.newpin_answer = "ack"           # ack | refuse | err
        self.unlock_answer = None            # None: compare pins; True/False forced
        self.journal = None                  # file path: durable device PIN (crash tests)
        self.overrides = []                  # callables (dev, apdu) -> None | (sw, data)
        self.keys = {}
        for k, pb in PATH_BYTES.items():
            self.keys[pb] = b"\x04" + self.rnd.bytes(64)
        self.unknown_path_sw = 0x6A8F
        # blockchain state
        self.state_hashes = {i: self.rnd.bytes(32) for i in (0x01, 0x02, 0x03, 0x05, 0x81, 0x82, 0x84)}
        self.state_diff = self.rnd.bytes(5)
        self.state_flags = bytes([0, 1, 0])
        self.params = self.rnd.bytes(32) + (b"\x00" * 30 + self.rnd.bytes(6)) + b"\x02"
        self.hb = {"sig": der_sig(self.rnd.bytes(32), self.rnd.bytes(32)), "msg": self.rnd.bytes(70),
                   "hash": self.rnd.bytes(32), "pub": b"\x04" + self.rnd.bytes(64)}
        self.uihb = {"sig": der_sig(self.rnd.bytes(32), self.rnd.bytes(31)), "msg": self.rnd.bytes(60),
                     "hash": self.rnd.bytes(32), "pub": b"\x04" + self.rnd.bytes(64)}
        self.hb_ud = None
        # sign
        self.sign_policy = FaithfulSignPolicy()
        self.sign = None
        self.sign_log = []        # completed / aborted sign sessions as the device saw them
        self.next_signature = None
        self.sig_from_hash = None     # callable(hash32) -> DER (replies traceable to requests, C12)
        self.hb_msg_from_ud = None    # callable(ud) -> heartbeat message
        self.exchange_delay = None    # callable() called at every APDU (C12: widen race windows)
        # advance / ancestor
        self.block_policy = FaithfulBlockPolicy()
        self.blk = None
        self.blk_log = []
        self.connects = 0

    # ------------------------------------------------------------------ helpers
    def snapshot(self):
        """Ground truth of the device (taken by the transport before each APDU is handled)."""
        ver = self.ui_version if self.mode in (MODE_BOOT, MODE_UIHB) else self.app_version
        return {"mode": self.mode, "onb": self.onboarded, "ver": tuple(ver), "retries": self.retries,
                "pin": bytes(self.pin), "unlocked": self.unlocked}

    def on_connect(self):
        self.connects += 1

    def make_signature(self):
        if self.next_signature is not None:
            s = self.next_signature
            self.next_signature = None
            return s
        return der_sig(self.rnd.bytes(32), self.rnd.bytes(32))

    def _journal_pin(self):
        if self.journal:
            fd = os.open(self.journal, os.O_WRONLY | os.O_CREAT | os.O_TRUNC)
            os.write(fd, self.pin)
            os.fsync(fd)
            os.close(fd)

    def _exit(self, natural):
        if self.exit_modes:
            self.mode = self.exit_modes.pop(0)
        else:
            self.mode = natural
        self.sign = None
        self.blk = None
        drop = self.exit_drops.pop(0) if self.exit_drops else self.exit_drop
        if drop is None:
            return               # the app exits but the link stays up: the caller answers 0x9000
        raise DeviceDropsLink(drop)

    # ------------------------------------------------------------------ dispatcher
    def handle(self, apdu):
        if self.exchange_delay is not None:
            self.exchange_delay()
        for o in list(self.overrides):
            r = o(self, apdu)
            if r is not None:
                return r
        if len(apdu) < 2:
            return 0x6E11, b""
        if apdu[0] != CLA:
            return 0x6E11, b""
        cmd, data = apdu[1], apdu[2:]
        if self.mode == MODE_BOOT:
            return self._ui(cmd, data, apdu)
        if self.mode == MODE_SIGNER:
            return self._signer(cmd, data, apdu)
        if self.mode == MODE_UIHB:
            return self._uihb(cmd, data, apdu)
        # some other app / mode byte the middleware does not know: answers the common queries only
        r = self._common(cmd, data, self.ui_version)
        if r:
            return r
        return 0x6E00, b""

    def _hdr(self, cmd, *rest):
        return bytes([CLA, cmd]) + bytes(rest)

    def _common(self, cmd, data, version):
        if cmd == 0x43:   # GET_MODE
            return 0x9000, self._hdr(cmd)[:1] + bytes([self.mode])
        if cmd == 0x06:   # IS_ONBOARD
            return 0x9000, bytes([CLA, 1 if self.onboarded else 0]) + bytes(version)
        return None

    # ------------------------------------------------------------------ UI / bootloader
    def _ui(self, cmd, data, apdu):
        r = self._common(cmd, data, self.ui_version)
        if r:
            return r
        if self.platform == "sgx":
            return self._sgx_boot(cmd, data, apdu)
        if cmd == 0x02:   # ECHO
            return 0x9000, (apdu if self.echo_ok else bad_echo(apdu, self.echo_shape))
        if cmd == 0x45:   # RETRIES
            return 0x9000, self._hdr(cmd, self.retries)
        if cmd == 0x41:   # SEND_PIN
            # firmware/src/ledger/ui/src/pin.c update_pin_buffer: one byte per call; indices 0..MAX_PIN_LENGTH (8)
            # are stored (NUL-terminated), any other index is silently ignored
            if len(data) != 2:
                return 0x6A01, b""
            if data[0] <= 8:
                self.pinbuf[data[0]] = data[1]
                self.pinbuf[data[0] + 1] = 0
            return 0x9000, self._hdr(cmd)
        if cmd == 0xFE:   # UNLOCK
            sent = bytes(self.pinbuf).split(b"\x00")[0]
            ok = (sent == self.pin) if self.unlock_answer is None else self.unlock_answer
            if ok:
                self.unlocked = True
            else:
                self.retries = max(0, self.retries - 1)
            return 0x9000, self._hdr(cmd, 1 if ok else 0)
        if cmd == 0x08:   # CHANGE_PIN (pin sent with length prefix: buffer[1:])
            newpin = bytes(self.pinbuf)[1:].split(b"\x00")[0]
            if self.newpin_answer == "refuse":
                return 0x69A0, b""
            if self.newpin_answer == "err":
                _TURN["ledger_err"] += 1
                return [0x6A99, 0x6A01, 0x6BF2, 0x6D00, 0x69A1][_TURN["ledger_err"] % 5], b""
            self.pin = newpin
            self._journal_pin()
            return 0x9000, self._hdr(cmd)
        if cmd in (0xFF, 0xFA):
            self._exit(self.autoexec_mode if cmd == 0xFF else MODE_BOOT)
            return 0x9000, self._hdr(cmd)
        return 0x6D00, b""

    def _sgx_boot(self, cmd, data, apdu):
        if cmd == 0xA4:   # SGX_ECHO
            return 0x9000, (apdu if self.echo_ok else bad_echo(apdu, self.echo_shape))
        if cmd == 0xA2:
            return 0x9000, self._hdr(cmd, self.retries)
        if cmd == 0xA3:   # SGX_UNLOCK [0, pin]
            sent = bytes(data[1:])
            ok = (sent == self.pin) if self.unlock_answer is None else self.unlock_answer
            if ok:
                self.unlocked = True
            else:
                self.retries = max(0, self.retries - 1)
            return 0x9000, self._hdr(cmd, 1 if ok else 0)
        if cmd == 0xA5:   # SGX_CHANGE_PASSWORD [0, pin]
            if self.newpin_answer == "refuse":
                # "not changed" is any answer byte other than 1: the shapes are taken in turn
                _TURN["sgx_refuse"] += 1
                return 0x9000, self._hdr(cmd, [0, 2, 0x55, 0xFF, 0x80, 0x10][_TURN["sgx_refuse"] % 6])
            if self.newpin_answer == "err":
                _TURN["sgx_err"] += 1
                return [0x6BF2, 0x6A99, 0x6D00, 0x6A01][_TURN["sgx_err"] % 4], b""
            self.pin = bytes(data[1:])
            self._journal_pin()
            return 0x9000, self._hdr(cmd, 1)
        if cmd in (0xFF, 0xFA):
            # SGX: exit_menu switches to the signer without dropping the TCP link
            self.mode = self.exit_modes.pop(0) if self.exit_modes else self.autoexec_mode
            return 0x9000, self._hdr(cmd)
        return 0x6D00, b""

    # ------------------------------------------------------------------ UI heartbeat app
    def _uihb(self, cmd, data, apdu):
        r = self._common(cmd, data, self.ui_version)
        if r:
            return r
        if cmd == 0x60:
            return self._heartbeat(data, self.uihb, 32)
        if cmd == 0xFF:
            self._exit(MODE_SIGNER)
            return 0x9000, self._hdr(cmd)
        return 0x6D00, b""

    def _heartbeat(self, data, hb, udlen):
        if len(data) < 1:
            return 0x6B10, b""
        op = data[0]
        h = bytes([CLA, 0x60, op])
        if op == 0x01:
            if len(data) - 1 != udlen:
                return 0x6B10, b""
            self.hb_ud = bytes(data[1:])
            return 0x9000, h
        if op == 0x02:
            return 0x9000, h + hb["sig"]
        if op == 0x03:
            if self.hb_msg_from_ud is not None and self.hb_ud is not None:
                return 0x9000, h + self.hb_msg_from_ud(self.hb_ud)
            return 0x9000, h + hb["msg"]
        if op == 0x04:
            return 0x9000, h + hb["hash"]
        if op == 0x05:
            return 0x9000, h + hb["pub"]
        return 0x6B10, b""

    # ------------------------------------------------------------------ signer
    def _signer(self, cmd, data, apdu):
        r = self._common(cmd, data, self.app_version)
        if r:
            return r
        if cmd == 0x04:   # GET_PUBLIC_KEY
            if len(data) != 21:
                return 0x6A87, b""
            k = self.keys.get(bytes(data))
            if k is None:
                return self.unknown_path_sw, b""
            return 0x9000, k
        if cmd == 0x02:
            return self._sign(data)
        if cmd == 0x20:   # GET_STATE
            if len(data) >= 2 and data[0] == 0x01:
                hv = self.state_hashes.get(data[1])
                if hv is None:
                    return 0x6B87, b""
                return 0x9000, bytes([CLA, cmd, 0x01, data[1]]) + hv
            if len(data) >= 1 and data[0] == 0x02:
                return 0x9000, bytes([CLA, cmd, 0x02]) + self.state_diff
            if len(data) >= 1 and data[0] == 0x03:
                return 0x9000, bytes([CLA, cmd, 0x03]) + self.state_flags
            return 0x6B87, b""
        if cmd == 0x21:   # RESET_AB
            if len(data) >= 1 and data[0] == 0x01:
                self.blk = None
                return 0x9000, bytes([CLA, cmd, 0x02])
            return 0x6B87, b""
        if cmd == 0x11:   # GET_PARAMETERS
            return 0x9000, bytes([CLA, cmd, 0x00]) + self.params
        if cmd == 0x60:
            if self.platform == "sgx":
                return 0x6D00, b""
            return self._heartbeat(data, self.hb, 16)
        if cmd == 0x10:
            return self._block_op(cmd, data, advance=True)
        if cmd == 0x30:
            return self._block_op(cmd, data, advance=False)
        if cmd == 0xFF:
            self._exit(MODE_UIHB)
            return 0x9000, self._hdr(cmd)
        return 0x6D00, b""

    # ---- SIGN
    def _sign(self, data):
        if len(data) < 1:
            return 0x6A87, b""
        op = data[0] & 0x0F
        payload = bytes(data[1:])
        H = bytes([CLA, 0x02])
        if op == 0x01:   # PATH
            sess = {"path": None, "tail": None, "got": {"btc": b"", "rcpt": b"", "mp": b""},
                    "part": None, "result": None, "auth": None, "first": payload, "n": 1}
            if self.sign is not None:
                self.sign["result"] = self.sign["result"] or "restarted"
                self.sign_log.append(self.sign)
            self.sign = sess
            if len(payload) < 21:
                return self._sign_end("sw", 0x6A87)
            pb = payload[:21]
            sess["path"] = pb
            sess["tail"] = payload[21:]
            name = BYTES_PATH.get(pb)
            if name is None:
                return self._sign_end("sw", self.unknown_path_sw)
            if name in AUTH_PATHS:
                sess["auth"] = True
                if len(payload) != 21 + 4:
                    return self._sign_end("sw", 0x6A90)
                return self._apply(self.sign_policy.first(self))
            sess["auth"] = False
            if len(payload) != 21 + 32:
                return self._sign_end("sw", 0x6A91)
            sig = self.sig_from_hash(payload[21:]) if self.sig_from_hash else self.make_signature()
            sess["result"] = "success"
            sess["sig"] = sig
            self.sign_log.append(sess)
            self.sign = None
            return 0x9000, H + bytes([0x81]) + sig
        part = {0x02: "btc", 0x04: "rcpt", 0x08: "mp"}.get(op)
        sess = self.sign
        if part is None or sess is None or sess["part"] != part:
            if sess is not None:
                return self._sign_end("sw", 0x6A89)
            return 0x6A89, b""
        sess["got"][part] += payload
        sess["n"] += 1
        # a host that has nothing left to send must not loop for ever: like the firmware's size check,
        # the device gives up (ERR_AUTH_INVALID_DATA_SIZE) after a few empty messages
        if len(payload) == 0:
            sess["empties"] = sess.get("empties", 0) + 1
            if sess["empties"] > 3:
                return self._sign_end("sw", 0x6A87)
        sess.setdefault("chunks", []).append((part, len(payload), sess.get("want")))
        return self._apply(self.sign_policy.decide(self, part, sess["got"][part]))

    def _apply(self, d):
        H = bytes([CLA, 0x02])
        sess = self.sign
        opb = {"btc": 0x02, "rcpt": 0x04, "mp": 0x08}
        if d[0] == "more":
            sess["want"] = d[1]
            sess.setdefault("asks", []).append((sess["part"], d[1]))
            return 0x9000, H + bytes([opb[sess["part"]], d[1]])
        if d[0] == "next":
            sess["part"] = d[1]
            sess["want"] = d[2]
            sess.setdefault("asks", []).append((d[1], d[2]))
            return 0x9000, H + bytes([opb[d[1]], d[2]])
        if d[0] == "success":
            sess["sig"] = d[1]
            sess["result"] = "success"
            self.sign_log.append(sess)
            self.sign = None
            return 0x9000, H + bytes([0x81]) + d[1]
        if d[0] == "sw":
            return self._sign_end("sw", d[1])
        if d[0] == "op":      # unexpected opcode in the answer
            sess["result"] = "wrongop"
            self.sign_log.append(sess)
            self.sign = None
            return 0x9000, H + bytes([d[1]]) + (d[2] if len(d) > 2 else b"\x01")
        raise ValueError(d)

    def _sign_end(self, kind, sw):
        sess = self.sign
        if sess is not None:
            sess["result"] = "sw:%04x" % sw
            self.sign_log.append(sess)
        self.sign = None
        return sw, b""

    # ---- ADVANCE / UPD_ANCESTOR
    OPS_ADV = {"init": 0x02, "meta": 0x03, "chunk": 0x04, "partial": 0x05, "success": 0x06,
               "bro_list": 0x07, "bro_meta": 0x08, "bro_chunk": 0x09}
    OPS_UPD = {"init": 0x02, "meta": 0x03, "chunk": 0x04, "success": 0x05}

    def _block_op(self, cmd, data, advance):
        ops = self.OPS_ADV if advance else self.OPS_UPD
        H = bytes([CLA, cmd])
        if len(data) < 1:
            return 0x6B87, b""
        op, payload = data[0], bytes(data[1:])
        pol = self.block_policy
        hook = getattr(pol, "on_step", None)
        if getattr(pol, "scripted", False):
            return self._block_op_scripted(cmd, op, payload, advance, ops, H)
        if op == ops["init"]:
            if self.blk is not None:
                self.blk["result"] = self.blk["result"] or "restarted"
                self.blk_log.append(self.blk)
            self.blk = {"advance": advance, "init": payload, "count": int.from_bytes(payload, "big"),
                        "blocks": [], "expect": "meta", "result": None, "cur": None}
            r = hook(self, "init", None) if hook else None
            if r:
                return self._blk_answer(r, H, ops)
            return 0x9000, H + bytes([ops["meta"]])
        b = self.blk
        if b is None:
            return 0x6B87, b""
        if op == ops["meta"] and b["expect"] == "meta":
            blk = {"meta": payload, "data": b"", "bro_count": None, "bros": [], "asked_bros": False}
            b["blocks"].append(blk)
            b["cur"] = ("block", blk)
            b["expect"] = "chunk"
            r = hook(self, "meta", blk) if hook else None
            if r:
                return self._blk_answer(r, H, ops)
            d = pol.decide(self, "block", len(b["blocks"]) - 1, None, b"")
            blk["want"] = d[1]
            return 0x9000, H + bytes([ops["chunk"], d[1]])
        if op == ops["chunk"] and b["expect"] == "chunk":
            kind, blk = b["cur"]
            blk["data"] += payload
            # a host that keeps answering with nothing is cut off (the firmware checks chunk lengths: PROT_INVALID)
            blk["empties"] = blk.get("empties", 0) + 1 if len(payload) == 0 else 0
            if blk["empties"] > 3:
                b["result"] = "sw:6b87"
                self.blk_log.append(b)
                self.blk = None
                return 0x6B87, b""
            r = hook(self, "chunk", blk) if hook else None
            if r:
                return self._blk_answer(r, H, ops)
            i = len(b["blocks"]) - 1
            d = pol.decide(self, "block", i, None, blk["data"])
            if d[0] == "more":
                blk["want"] = d[1]
                return 0x9000, H + bytes([ops["chunk"], d[1]])
            # header i done
            if advance and pol.ask_brothers(i):
                blk["asked_bros"] = True
                b["expect"] = "bro_list"
                return 0x9000, H + bytes([ops["bro_list"]])
            return self._blk_after_block(H, ops)
        if advance and op == ops["bro_list"] and b["expect"] == "bro_list":
            blk = b["blocks"][-1]
            blk["bro_list_raw"] = payload
            blk["bro_count"] = payload[0] if len(payload) == 1 else -1
            r = hook(self, "bro_list", blk) if hook else None
            if r:
                return self._blk_answer(r, H, ops)
            if blk["bro_count"] <= 0:
                return self._blk_after_block(H, ops)
            b["expect"] = "bro_meta"
            return 0x9000, H + bytes([ops["bro_meta"]])
        if advance and op == ops["bro_meta"] and b["expect"] == "bro_meta":
            blk = b["blocks"][-1]
            bro = {"meta": payload, "data": b""}
            blk["bros"].append(bro)
            b["cur"] = ("brother", bro)
            b["expect"] = "bro_chunk"
            r = hook(self, "bro_meta", bro) if hook else None
            if r:
                return self._blk_answer(r, H, ops)
            d = pol.decide(self, "brother", len(b["blocks"]) - 1, len(blk["bros"]) - 1, b"")
            return 0x9000, H + bytes([ops["bro_chunk"], d[1]])
        if advance and op == ops["bro_chunk"] and b["expect"] == "bro_chunk":
            blk = b["blocks"][-1]
            kind, bro = b["cur"]
            bro["data"] += payload
            bro["empties"] = bro.get("empties", 0) + 1 if len(payload) == 0 else 0
            if bro["empties"] > 3:
                b["result"] = "sw:6b87"
                self.blk_log.append(b)
                self.blk = None
                return 0x6B87, b""
            r = hook(self, "bro_chunk", bro) if hook else None
            if r:
                return self._blk_answer(r, H, ops)
            d = pol.decide(self, "brother", len(b["blocks"]) - 1, len(blk["bros"]) - 1, bro["data"])
            if d[0] == "more":
                return 0x9000, H + bytes([ops["bro_chunk"], d[1]])
            if len(blk["bros"]) < blk["bro_count"]:
                b["expect"] = "bro_meta"
                return 0x9000, H + bytes([ops["bro_meta"]])
            return self._blk_after_block(H, ops)
        # protocol violation by the host
        b["result"] = "sw:6b87"
        self.blk_log.append(b)
        self.blk = None
        return 0x6B87, b""

    def _block_op_scripted(self, cmd, op, payload, advance, ops, H):
        """Fully scripted device: records what arrives, answers with the next scripted action."""
        pol = self.block_policy
        if op == ops["init"]:
            if self.blk is not None:
                self.blk["result"] = self.blk["result"] or "restarted"
                self.blk_log.append(self.blk)
            self.blk = {"advance": advance, "init": payload, "count": int.from_bytes(payload, "big"),
                        "blocks": [], "expect": "meta", "result": None, "cur": None}
            return self._blk_scripted_answer(pol.next_action(self), cmd, ops, H)
        b = self.blk
        if b is None:
            return 0x6B87, b""
        stage = {v: k for k, v in ops.items()}.get(op)
        if stage == "meta" and b["expect"] == "meta":
            blk = {"meta": payload, "data": b"", "bro_count": None, "bros": [], "asked_bros": False}
            b["blocks"].append(blk)
            b["cur"] = ("block", blk)
        elif stage == "chunk" and b["expect"] == "chunk":
            b["cur"][1]["data"] += payload
        elif stage == "bro_list" and b["expect"] == "bro_list":
            blk = b["blocks"][-1]
            blk["bro_list_raw"] = payload
            blk["bro_count"] = payload[0] if len(payload) == 1 else -1
        elif stage == "bro_meta" and b["expect"] == "bro_meta":
            bro = {"meta": payload, "data": b""}
            b["blocks"][-1]["bros"].append(bro)
            b["cur"] = ("brother", bro)
        elif stage == "bro_chunk" and b["expect"] == "bro_chunk":
            b["cur"][1]["data"] += payload
        else:
            b["result"] = "sw:6b87"
            self.blk_log.append(b)
            self.blk = None
            return 0x6B87, b""
        return self._blk_scripted_answer(pol.next_action(self), cmd, ops, H)

    def _blk_scripted_answer(self, a, cmd, ops, H):
        b = self.blk
        if a[0] == "hmeta":
            b["expect"] = "meta"
            return 0x9000, H + bytes([ops["meta"]])
        if a[0] == "chunk":
            kind = b["cur"][0] if b["cur"] else "block"
            b["expect"] = "chunk" if kind == "block" else "bro_chunk"
            return 0x9000, H + bytes([ops[b["expect"]], a[1]])
        if a[0] == "bros":
            b["blocks"][-1]["asked_bros"] = True
            b["expect"] = "bro_list"
            return 0x9000, H + bytes([ops["bro_list"]])
        if a[0] == "bmeta":
            b["expect"] = "bro_meta"
            return 0x9000, H + bytes([ops["bro_meta"]])
        if a[0] in ("partial", "total"):
            return self._blk_finish("partial" if a[0] == "partial" else "success", H, ops)
        return self._blk_answer(a, H, ops)

    def _blk_after_block(self, H, ops):
        b = self.blk
        pol = self.block_policy
        done = len(b["blocks"])
        stop = pol.stop_after
        if stop is not None and done >= stop[0] and b["advance"]:
            return self._blk_finish(stop[1], H, ops)
        if done >= b["count"]:
            return self._blk_finish("success", H, ops)
        b["expect"] = "meta"
        return 0x9000, H + bytes([ops["meta"]])

    def _blk_finish(self, how, H, ops):
        b = self.blk
        b["result"] = how
        self.blk_log.append(b)
        self.blk = None
        return 0x9000, H + bytes([ops[how]])

    def _blk_answer(self, r, H, ops):
        """r from a policy hook: ('sw', code) | ('op', byte[, data]) | ('finish', how)"""
        b = self.blk
        if r[0] == "sw":
            b["result"] = "sw:%04x" % r[1]
            self.blk_log.append(b)
            self.blk = None
            return r[1], b""
        if r[0] == "op":
            b["result"] = "wrongop"
            self.blk_log.append(b)
            self.blk = None
            return 0x9000, H + bytes([r[1]]) + (r[2] if len(r) > 2 else b"")
        if r[0] == "finish":
            return self._blk_finish(r[1], H, ops)
        raise ValueError(r)


class _Rnd:
    """Deterministic byte source (SHA-256 counter mode) — simulators never use global randomness."""

    def __init__(self, seed):
        self.k = hashlib.sha256(("simdev:%r" % (seed,)).encode()).digest()
        self.n = 0

    def bytes(self, n):
        out = b""
        while len(out) < n:
            out += hashlib.sha256(self.k + struct.pack(">Q", self.n)).digest()
            self.n += 1
        return out[:n]

    def randint(self, a, b):
        span = b - a + 1
        return a + int.from_bytes(self.bytes(8), "big") % span

    def choice(self, seq):
        return seq[self.randint(0, len(seq) - 1)]
