"""Builder of REAL version-2 (SGX) attestation certificates for C07 (reused by C08 / C15).

Everything here is produced from the builder's own structured input with `cryptography` + `hashlib`
and a struct packer written from the OpenEnclave definitions (include/openenclave/bits/sgx/sgxtypes.h).
Nothing is imported from the repository under test, so whatever this module returns can be used as an
oracle (expected bytes / field values) against the repo's parsers and validators.

Quick tour
----------
    spec = default_spec(depth=2)                 # 2 X.509 elements under the root, all genuine
    spec["x509"][0]["time"] = "Expired"          # ... with the top certificate expired
    cert, root_pem, mat = build(spec, rng)       # cert: JSON-able dict (version 2), root_pem: str
    bad = corrupt(cert, "quote", "message", pos=17, mask=0x01)   # real byte flip, new dict
    paths = write_files(bad, root_pem, directory, "t1")          # (certificate.json, root.pem)
    env_bytes, msg = pack_envelope(mat)          # the SGX envelope a device would have returned

`spec` (all keys optional except the ones default_spec() fills in):
    root    {"curve": "P256"|"P384", "time": "Valid"|"Expired"|"NotYet"}
    x509    list, TOP-DOWN ([0] is certified by the root of trust, [-1] certifies the attestation
            key).  Each: {"name", "time": Valid|Expired|NotYet, "curve": P256|P384|RSA,
            "sig": "parent"|"other"|"swap"|"foreign",
            "naming": canon|selfissued|likeparent|nomatch|rootissuer|dupsubject|rootsubject,
            "content": {serial, bc, key_usage, ski, hash} (see random_content),
            "is_root": True  -> this element IS the genuine root certificate (root key, self-signed),
            "filler": True   -> may take its key from the pool (spec["key_pool"] = size) in long chains}
            naming = which distinguished NAMES are written inside the certificate (the signature is
            always made by the key of the element that certifies it, whatever the names say):
              canon        fresh subject, issuer = subject of the certifying certificate
              selfissued   fresh subject, issuer = that same subject
              likeparent   subject = issuer = subject of the certifying certificate (key rollover style)
              nomatch      issuer = a name no certificate has
              rootissuer   issuer = the root's subject (differs from canon below the top element)
              dupsubject   subject = subject of another X.509 element (not the certifying one)
              rootsubject  subject = the root's subject
    extreme_dates bool (default: vary_content): the ends of a validity window that its class leaves
            free are, boundary-first, the edge dates X.509 can carry (0001-01-01 00:00:00, 1949-12-31
            23:59:59, 1950-01-01, 2049-12-31 23:59:59, 2050-01-01, 9999-12-31 23:59:59; UTCTime inside
            1950..2049, GeneralizedTime outside; dates before 1950 are patched into the DER and
            re-signed since `cryptography` refuses to write them)
    timeline bool | "extreme": the certificate lives on a timeline of three instants material["clocks"] = {1: T1,
            2: T2 = now, 3: T3} (3 days apart) at which the code's clock is to be frozen, one per
            validation of the same objects; every X.509 item (also root, extra, embed) then takes
            "window": all|until1|from3|only2 (default from "time": Valid->all, Expired->until1,
            NotYet->from3) and material["windows"][name] = (not_before, not_after)
            ("rot:sgx_root" for the root of trust); with time_edge the boundaries sit exactly on
            an instant.  abstract_of(material, effects, at=k) gives the time classes at instant k.
            "extreme": T1 in {0001-01-01, 1949-12-31 23:59:59, 1950-01-01}, T3 in {2049-12-31 23:59:59,
            2050-01-01, 9999-12-31 23:59:59} instead of now -/+ 3 days.
    time_edge bool: validity windows touch the instant `material["clock"]` (= now truncated to the
            second) exactly: Valid -> not_before == clock and/or not_after == clock; Expired ->
            not_after == clock - 1 s; NotYet -> not_before == clock + 1 s.  Only meaningful when the
            code under test is run with its clock frozen at material["clock"].
    vary_content bool: serial number, extensions (basic constraints CA true/false/absent, key usage,
            subject key id), signature hash and name style of every certificate are seeded
            boundary-first choices instead of the fixed defaults
    attkey  {"name", "sig": parent|other|swap, "auth_len": 1..,
             "bind": ok|noauth|misplaced|reversed|otherkey|random,
             "key": ok|offcurve|swapped, "encoding": uncompressed|raw|compressed}
    quote   {"name", "sig": parent|other|swap, "bind": ok|misplaced|otherdata|random|truncated,
             "custom_data": bytes|None, "header": {field: value}, "body": {field: value}}
    extra   list of off-path X.509 elements {"name", "parent", "time", "curve", "sig",
            "samekey_as": name of an x509 element whose key this certificate also carries}
    embed   None | {"kind": "genuine"|"foreign", "time": Valid|Expired|NotYet, "sig": "self"|"other"}:
            a self-signed root certificate shipped INSIDE the certificate as an element NAMED like
            the root authority ("sgx_root"): the genuine root (same key; the very same certificate
            when time is Valid and sig is self) or a foreign root (another key).  It is on nobody's
            path; x509[0] may be issued by the foreign root with "sig": "foreign".
    reparent {element name: new signed_by}   (applied after signing: signatures are NOT redone)
    rot     which root of trust to hand to the validator:
            "right" | "fresh" (another self-signed certificate, other key) |
            "samekey" (another self-signed certificate over the SAME key) |
            "top" (the certificate of x509[0], i.e. a key of the chain but not the root's) |
            "foreign" (the foreign self-signed root, cf. embed) |
            "v1root" (a root of trust of another kind: a version-1 root = bare secp256k1 key; the
            "root_pem" returned is then the text "v1root:<hex>")
    graft   {"under": "attkey"|"quote", "sig": "self"|"certifier"|"other"}: a forged branch - X.509
            element evil_ca whose named certifier is a genuine NON-X.509 element (g_attestation /
            g_quote, certified by the genuine chain); the attestation key and the quote (target) hang
            from evil_ca
    shuffle bool: shuffle the order of the elements in the JSON document
    pem_newlines bool: base64 of X.509 elements split in 64-column lines

"sig": parent = signed by the private key of the element that certifies it (before re-parenting);
other = signed by a fresh unrelated key of the same family; swap = carries the signature of another
element of the certificate (well-formed, by the right kind of key, over another message).

`material` (third result of build) holds every secret and every intermediate value:
    now, keys{name: Key}, der{name: bytes}, pem{name: str}, names{role: name}, order[...],
    attkey{report_body, fields, key_xy, key_field, auth_data, signature}
    quote{message, header, body, custom_data, signature}, root_pem{right,fresh,samekey,top}
"""
import base64
import copy
import datetime
import hashlib
import json
import os

from cryptography import x509
from cryptography.hazmat.primitives import hashes, serialization
from cryptography.hazmat.primitives.asymmetric import ec, rsa, padding
from cryptography.x509.oid import NameOID

ROOT_NAME = "sgx_root"
UTC = datetime.timezone.utc
DAY = datetime.timedelta(days=1)


# ------------------------------------------------------------------------------------------------
# Struct layouts, written from OpenEnclave's sgxtypes.h (little endian, packed)
# ------------------------------------------------------------------------------------------------
class Layout:
    """Packed little-endian C struct: list of (name, size, kind) with kind 'bytes' or 'uint'."""

    def __init__(self, name, fields):
        self.name = name
        self.fields = fields
        self.offsets = {}
        off = 0
        for (n, size, _k) in fields:
            self.offsets[n] = off
            off += size
        self.size = off
        self.kinds = {n: k for (n, _s, k) in fields}
        self.sizes = {n: s for (n, s, _k) in fields}

    def pack(self, values):
        out = bytearray()
        for (n, size, kind) in self.fields:
            v = values[n]
            if kind == "uint":
                out += int(v).to_bytes(size, "little")
            else:
                v = bytes(v)
                if len(v) != size:
                    raise ValueError("%s.%s: %d bytes, expected %d" % (self.name, n, len(v), size))
                out += v
        assert len(out) == self.size
        return bytes(out)

    def unpack(self, data, offset=0):
        res = {}
        for (n, size, kind) in self.fields:
            chunk = bytes(data[offset + self.offsets[n]: offset + self.offsets[n] + size])
            if len(chunk) != size:
                raise ValueError("short data for %s.%s" % (self.name, n))
            res[n] = int.from_bytes(chunk, "little") if kind == "uint" else chunk
        return res

    def field_bytes(self, values, n):
        """Value of field n as the bytes that appear in the struct."""
        v = values[n]
        return int(v).to_bytes(self.sizes[n], "little") if self.kinds[n] == "uint" else bytes(v)

    def random(self, rng):
        """Field values, boundary-first for the integers (0, 1, max, sign boundary) so that every
        decoded number meets the edges of its width."""
        vals = {}
        for (n, size, kind) in self.fields:
            if kind == "uint":
                vals[n] = rng.choice(uint_boundaries(size)) if rng.random() < 0.5 \
                    else rng.getrandbits(8 * size)
            elif n.startswith("reserved"):
                vals[n] = bytes(size)
            else:
                vals[n] = rng.randbytes(size)
        return vals


def uint_boundaries(size):
    """Boundary values of an unsigned integer of `size` bytes: 0, 1, max, only the top bit set, and
    the two values around the sign boundary of the same width (0x7f..ff, 0x80..01)."""
    bits = 8 * size
    return (0, 1, (1 << bits) - 1, 1 << (bits - 1), (1 << (bits - 1)) - 1, (1 << (bits - 1)) + 1)


# sgx_report_body_t (384 bytes); sgx_attributes_t {uint64 flags; uint64 xfrm} is inlined
REPORT_BODY = Layout("sgx_report_body_t", [
    ("cpusvn", 16, "bytes"),
    ("miscselect", 4, "uint"),
    ("reserved1", 12, "bytes"),
    ("isvextprodid", 16, "bytes"),
    ("attributes.flags", 8, "uint"),
    ("attributes.xfrm", 8, "uint"),
    ("mrenclave", 32, "bytes"),
    ("reserved2", 32, "bytes"),
    ("mrsigner", 32, "bytes"),
    ("reserved3", 32, "bytes"),
    ("configid", 64, "bytes"),
    ("isvprodid", 2, "uint"),
    ("isvsvn", 2, "uint"),
    ("configsvn", 2, "uint"),
    ("reserved4", 42, "bytes"),
    ("isvfamilyid", 16, "bytes"),
    ("report_data", 64, "bytes"),
])
# sgx_quote_t up to (not including) report_body (48 bytes)
QUOTE_HEADER = Layout("sgx_quote_t", [
    ("version", 2, "uint"),
    ("sign_type", 2, "uint"),
    ("tee_type", 4, "uint"),
    ("qe_svn", 2, "uint"),
    ("pce_svn", 2, "uint"),
    ("uuid", 16, "bytes"),
    ("user_data", 20, "bytes"),
])
assert REPORT_BODY.size == 384 and REPORT_BODY.offsets["report_data"] == 320
assert REPORT_BODY.offsets["mrenclave"] == 64 and REPORT_BODY.offsets["mrsigner"] == 128
assert QUOTE_HEADER.size == 48
QUOTE_SIZE = QUOTE_HEADER.size + REPORT_BODY.size          # 432: what the attestation key signs
REPORT_DATA_OFF = REPORT_BODY.offsets["report_data"]
HASH_LEN = 32

# Known-answer vector: the QE report body of a recorded Intel quote (public test data, also found in
# the repository's unit-test resources) — cross-checks the report_data offset and the binding
# SHA-256(x || y || auth data) independently of this module's own packing.
KAT_QE_REPORT_BODY = bytes.fromhex(
    "0e0e100fffff0100000000000000000000000000000000000000000000000000000000000000000000000000"
    "000000001500000000000000e70000000000000096b347a64e5a045e27369c26e6dcda51fd7c850e9b3a3a79"
    "e718f43261dee1e400000000000000000000000000000000000000000000000000000000000000008c4f5775"
    "d796503e96137f77c68a829a0056ac8ded70140b081b094490c57bff00000000000000000000000000000000"
    "0000000000000000000000000000000000000000000000000000000000000000000000000000000000000000"
    "00000000000000000000000000000000000000000000000000000000000000000000000001000a0000000000"
    "0000000000000000000000000000000000000000000000000000000000000000000000000000000000000000"
    "0000000000000000000000001fe721d0322954821589237fd27efb8fef1acb3ecd6b0352c31271550fc70f94"
    "0000000000000000000000000000000000000000000000000000000000000000")
KAT_ATT_KEY_XY = bytes.fromhex(
    "a024cb34c90ea6a8f9f2181c9020cbcc7c073e69981733c8deed6f6c451822aa"
    "08376350ff7da01f842bb40c631cbb711f8b6f7a4fae398320a3884774d250ad")
KAT_AUTH_DATA = bytes(range(32))


def self_test():
    """Layout cross-checks (cheap; run once by every driver that relies on this module)."""
    f = REPORT_BODY.unpack(KAT_QE_REPORT_BODY)
    if REPORT_BODY.pack(f) != KAT_QE_REPORT_BODY:
        raise AssertionError("report body pack/unpack round trip")
    want = hashlib.sha256(KAT_ATT_KEY_XY + KAT_AUTH_DATA).digest()
    if f["report_data"][:HASH_LEN] != want or f["report_data"][HASH_LEN:] != bytes(32):
        raise AssertionError("report_data offset / binding does not match the recorded QE report")
    if f["isvprodid"] != 1 or f["isvsvn"] != 10 or f["miscselect"] != 0:
        raise AssertionError("scalar fields of the recorded QE report")
    return True


# ------------------------------------------------------------------------------------------------
# P-256 arithmetic needed by the oracle side (is a 64-byte string a point of the curve?)
# ------------------------------------------------------------------------------------------------
P256_P = 0xffffffff00000001000000000000000000000000ffffffffffffffffffffffff
P256_B = 0x5ac635d8aa3a93e7b3ebbd55769886bc651d06b0cc53b0f63bce3c3e27d2604b


def p256_on_curve(xy):
    if len(xy) != 64:
        return False
    x = int.from_bytes(xy[:32], "big")
    y = int.from_bytes(xy[32:], "big")
    if x >= P256_P or y >= P256_P:
        return False
    return (y * y - (x * x * x - 3 * x + P256_B)) % P256_P == 0


# ------------------------------------------------------------------------------------------------
# DER regions of an X.509 certificate (own minimal TLV walker)
# ------------------------------------------------------------------------------------------------
def _tlv(data, off):
    """(header_len, content_len) of the TLV starting at off."""
    first = data[off + 1]
    if first < 0x80:
        return 2, first
    n = first & 0x7F
    return 2 + n, int.from_bytes(data[off + 2: off + 2 + n], "big")


def der_regions(der):
    """Certificate ::= SEQUENCE { tbs, signatureAlgorithm, signatureValue BIT STRING }.
    Returns {region: (start, end)} with regions outer_hdr, tbs, sigalg, sig_hdr (tag+length),
    sig_unused (the BIT STRING's unused-bits octet), sig (the DER ECDSA / RSA signature)."""
    h, n = _tlv(der, 0)
    assert der[0] == 0x30 and h + n == len(der)
    off = h
    th, tn = _tlv(der, off)
    tbs = (off, off + th + tn)
    off = tbs[1]
    ah, an = _tlv(der, off)
    sigalg = (off, off + ah + an)
    off = sigalg[1]
    sh, sn = _tlv(der, off)
    assert der[off] == 0x03 and off + sh + sn == len(der)
    return {"outer_hdr": (0, h), "tbs": tbs, "sigalg": sigalg, "sig_hdr": (off, off + sh),
            "sig_unused": (off + sh, off + sh + 1), "sig": (off + sh + 1, len(der))}


def region_of(regions, pos):
    for name, (a, b) in regions.items():
        if a <= pos < b:
            return name
    raise ValueError(pos)


# ------------------------------------------------------------------------------------------------
# Keys
# ------------------------------------------------------------------------------------------------
_RSA_POOL = []


class Key:
    """A private key of family P256 / P384 / RSA."""

    def __init__(self, curve="P256"):
        self.curve = curve
        if curve == "P256":
            self.priv = ec.generate_private_key(ec.SECP256R1())
        elif curve == "P384":
            self.priv = ec.generate_private_key(ec.SECP384R1())
        elif curve == "RSA":
            # RSA generation is slow; a small per-process pool is plenty ("non P-256" is the class)
            if len(_RSA_POOL) < 2:
                _RSA_POOL.append(rsa.generate_private_key(public_exponent=65537, key_size=2048))
            self.priv = _RSA_POOL[-1]
        else:
            raise ValueError(curve)

    @property
    def pub(self):
        return self.priv.public_key()

    def xy(self):
        """Raw x || y (EC only)."""
        raw = self.pub.public_bytes(serialization.Encoding.X962,
                                    serialization.PublicFormat.UncompressedPoint)
        return raw[1:]

    def encoded(self, encoding="uncompressed"):
        if encoding == "uncompressed":
            return b"\x04" + self.xy()
        if encoding == "raw":
            return self.xy()
        if encoding == "compressed":
            return self.pub.public_bytes(serialization.Encoding.X962,
                                         serialization.PublicFormat.CompressedPoint)
        raise ValueError(encoding)

    def sign(self, message, hash_alg=None):
        """Signature over `message` (SHA-256 unless told otherwise); DER for EC keys."""
        h = hash_alg or hashes.SHA256()
        if self.curve == "RSA":
            return self.priv.sign(message, padding.PKCS1v15(), h)
        return self.priv.sign(message, ec.ECDSA(h))

    def cert_hash(self):
        return hashes.SHA384() if self.curve == "P384" else hashes.SHA256()


_KEY_POOL = []


def _key_pool(n):
    """A per-process pool of n P-256 keys for the filler elements of very long chains."""
    while len(_KEY_POOL) < n:
        _KEY_POOL.append(Key("P256"))
    return _KEY_POOL[:n]


# ------------------------------------------------------------------------------------------------
# X.509
# ------------------------------------------------------------------------------------------------
FAR_DAYS = (1, 2, 30, 365, 3650)      # every window edge is >= 1 day away from "now"


def validity(time_class, now, rng, edge=False, extreme=False):
    """(not_before, not_after) for a time class; all edges at least one day away from now — unless
    `edge`, where the window touches `now` (a whole second) exactly / misses it by one second.
    With `extreme` the far ends are, half of the time, edge dates of X.509 (BOUNDARY_DATES)."""
    nb, na = _validity(time_class, now, rng, edge)
    if extreme:
        sec = datetime.timedelta(seconds=1)
        if nb < now - DAY and (time_class != "Expired") and rng.random() < 0.5:
            nb = rng.choice([d for d in BOUNDARY_DATES if d < now - DAY])
        elif time_class == "Expired" and rng.random() < 0.5:
            nb = rng.choice([d for d in BOUNDARY_DATES if d < na - sec] or [nb])
        if na > now + DAY and (time_class != "NotYet") and rng.random() < 0.5:
            na = rng.choice([d for d in BOUNDARY_DATES if d > now + DAY])
        elif time_class == "NotYet" and rng.random() < 0.5:
            na = rng.choice([d for d in BOUNDARY_DATES if d > nb + sec] or [na])
    return nb, na


def _validity(time_class, now, rng, edge=False):
    a = rng.choice(FAR_DAYS) * DAY + datetime.timedelta(seconds=rng.randrange(0, 3600))
    b = rng.choice(FAR_DAYS) * DAY + datetime.timedelta(seconds=rng.randrange(0, 3600))
    sec = datetime.timedelta(seconds=1)
    if edge:
        if time_class == "Valid":
            return rng.choice(((now, now + b), (now - a, now), (now, now), (now - sec, now + sec)))
        if time_class == "Expired":
            return now - a, now - sec
        if time_class == "NotYet":
            return now + sec, now + b
    if time_class == "Valid":
        return now - a, now + b
    if time_class == "Expired":
        return now - a - b, now - a
    if time_class == "NotYet":
        return now + a, now + a + b
    raise ValueError(time_class)


SERIAL_BOUNDARIES = (1, 2, 127, 128, 255, 256, 2 ** 63, 2 ** 64 - 1, 2 ** 159 - 1)
DEFAULT_CONTENT = {"serial": None, "bc": "position", "key_usage": None, "ski": False, "hash": None}


def random_content(rng):
    """Free content of a certificate (nothing the property speaks about), boundary-first."""
    return {"serial": rng.choice(SERIAL_BOUNDARIES + (None, None, None)),     # None = random 150 bits
            "bc": rng.choice(("ca", "ca0", "leaf", "absent")),               # basic constraints
            "key_usage": rng.choice((None, None, "ca", "leaf")),
            "ski": rng.random() < 0.5,
            "hash": rng.choice((None, None, None, "sha384", "sha512"))}


def dn(cn, style="cn_o"):
    """Distinguished name for a common name; a function of (cn, style) only, so that 'issuer of the
    child == subject of the parent' holds whenever the common names are equal."""
    attrs = [x509.NameAttribute(NameOID.COMMON_NAME, cn)]
    if style in ("cn_o", "full"):
        attrs.append(x509.NameAttribute(NameOID.ORGANIZATION_NAME, "verif harness"))
    if style == "full":
        attrs += [x509.NameAttribute(NameOID.LOCALITY_NAME, "Santa Clara"),
                  x509.NameAttribute(NameOID.STATE_OR_PROVINCE_NAME, "CA"),
                  x509.NameAttribute(NameOID.COUNTRY_NAME, "US")]
    return x509.Name(attrs)


# ---- validity dates at the edges of what X.509 can carry (RFC 5280 4.1.2.5) -------------------------
DATE_MIN = datetime.datetime(1, 1, 1, 0, 0, 0, tzinfo=UTC)                 # 00010101000000Z
DATE_MAX = datetime.datetime(9999, 12, 31, 23, 59, 59, tzinfo=UTC)         # 99991231235959Z "no expiry"
BOUNDARY_DATES = (DATE_MIN,
                  datetime.datetime(1949, 12, 31, 23, 59, 59, tzinfo=UTC),  # last before UTCTime's range
                  datetime.datetime(1950, 1, 1, 0, 0, 0, tzinfo=UTC),       # first UTCTime
                  datetime.datetime(2049, 12, 31, 23, 59, 59, tzinfo=UTC),  # last UTCTime
                  datetime.datetime(2050, 1, 1, 0, 0, 0, tzinfo=UTC),       # first GeneralizedTime
                  DATE_MAX)


def _der_len(n):
    if n < 0x80:
        return bytes([n])
    nb = n.to_bytes((n.bit_length() + 7) // 8, "big")
    return bytes([0x80 | len(nb)]) + nb


def _der_time(t):
    """UTCTime inside 1950..2049, GeneralizedTime otherwise (RFC 5280)."""
    if 1950 <= t.year <= 2049:
        s = t.strftime("%y%m%d%H%M%SZ").encode()
        return b"\x17" + _der_len(len(s)) + s
    s = ("%04d%02d%02d%02d%02d%02dZ" % (t.year, t.month, t.day, t.hour, t.minute, t.second)).encode()
    return b"\x18" + _der_len(len(s)) + s


def set_validity(der, nb, na, issuer_key, hash_alg=None):
    """The certificate `der` with its Validity replaced by (nb, na) and signed again by issuer_key —
    own DER surgery, for dates the `cryptography` builder refuses to write (before 1950)."""
    r = der_regions(der)
    tbs = der[r["tbs"][0]:r["tbs"][1]]
    h, n = _tlv(tbs, 0)
    off, kids = h, []
    while off < h + n:
        kh, kn = _tlv(tbs, off)
        kids.append((off, off + kh + kn))
        off += kh + kn
    vi = 4 if tbs[kids[0][0]] == 0xA0 else 3          # [0] version, serial, sigalg, issuer, VALIDITY
    body = _der_time(nb) + _der_time(na)
    validity_der = b"\x30" + _der_len(len(body)) + body
    content = tbs[h:kids[vi][0]] + validity_der + tbs[kids[vi][1]:h + n]
    new_tbs = b"\x30" + _der_len(len(content)) + content
    sig = issuer_key.sign(new_tbs, hash_alg or issuer_key.cert_hash())
    sigalg = der[r["sigalg"][0]:r["sigalg"][1]]
    bits = b"\x03" + _der_len(len(sig) + 1) + b"\x00" + sig
    whole = new_tbs + sigalg + bits
    return b"\x30" + _der_len(len(whole)) + whole


TIMELINE_STEP = 3 * DAY                  # distance between the three clock instants of a timeline
WINDOW_OF_TIME = {"Valid": "all", "Expired": "until1", "NotYet": "from3"}


def timeline_clocks(now, scale="near", rng=None):
    """The three instants (whole seconds) at which the code's clock is frozen in a timeline run.
    near: now -/+ 3 days.  extreme: instant 1 / 3 at the edges of what X.509 dates can express
    (0001-01-01 / 1949-12-31 23:59:59 / 1950-01-01 and 9999-12-31 23:59:59 / 2049-12-31 23:59:59 /
    2050-01-01), instant 2 = now."""
    t2 = now.replace(microsecond=0)
    if scale == "extreme":
        return {1: rng.choice(BOUNDARY_DATES[:3]), 2: t2, 3: rng.choice(BOUNDARY_DATES[3:])}
    return {1: t2 - TIMELINE_STEP, 2: t2, 3: t2 + TIMELINE_STEP}


def validity_window(win, clocks, rng, edge=False, extreme=False):
    """(not_before, not_after) of a window class over the instants T1 < T2 < T3 (spec/CertV2.tla):
    all = valid at T1..T3; until1 = valid at T1, expired at T2, T3; from3 = valid at T3 only;
    only2 = valid at T2 only.  Without `edge` every boundary is at least a day away from every
    instant; with `edge` boundaries sit exactly on an instant (still inside) or one second beyond.
    With `extreme` the ends that the class leaves free are (boundary-first) the edge dates X.509 can
    carry: 0001-01-01, 1949/1950, 2049/2050, 9999-12-31 23:59:59."""
    t1, t2, t3 = clocks[1], clocks[2], clocks[3]
    sec = datetime.timedelta(seconds=1)
    far = rng.choice(FAR_DAYS) * DAY + datetime.timedelta(seconds=rng.randrange(0, 3600))
    margin = datetime.timedelta(0) if edge else DAY

    def low_end():                        # free lower end: <= t1 (- a day)
        cands = [d for d in BOUNDARY_DATES if d <= t1 - margin] if (extreme and t1 - DATE_MIN >= margin) else []
        if t1 - DATE_MIN > far:
            cands += [t1 - far] * (1 if cands else 1)
        if edge or not cands:
            cands.append(t1)
        return rng.choice(cands)

    def high_end():
        cands = [d for d in BOUNDARY_DATES if d >= t3 + margin] if (extreme and DATE_MAX - t3 >= margin) else []
        if DATE_MAX - t3 > far:
            cands.append(t3 + far)
        if edge or not cands:
            cands.append(t3)
        return rng.choice(cands)

    def between(a, b):                    # strictly between two instants, a day from both
        cands = [a + DAY + datetime.timedelta(seconds=rng.randrange(0, 86400))]
        if extreme:
            cands += [d for d in BOUNDARY_DATES if a + DAY <= d <= b - DAY]
        return rng.choice(cands)
    if win == "all":
        return low_end(), high_end()
    if win == "until1":
        return low_end(), (rng.choice((t1, t2 - sec)) if edge else between(t1, t2))
    if win == "from3":
        return (rng.choice((t3, t2 + sec)) if edge else between(t2, t3)), high_end()
    if win == "only2":
        if edge and rng.random() < 0.4:   # notBefore == notAfter, or a window of one second
            return rng.choice(((t2, t2), (t2, t2 + sec), (t2 - sec, t2)))
        return (rng.choice((t2, t1 + sec)) if edge else between(t1, t2)), \
               (rng.choice((t2, t3 - sec)) if edge else between(t2, t3))
    raise ValueError(win)


def time_class_at(window, instant):
    nb, na = window
    return "NotYet" if instant < nb else ("Expired" if instant > na else "Valid")


def make_x509(subject_cn, subject_key, issuer_cn, issuer_key, time_class, now, rng, ca=True,
              content=None, style="cn_o", edge=False, window=None, extreme=False):
    """DER of a certificate for subject_key signed by issuer_key (names are whatever is asked for:
    the signature does not depend on them).  `window` = explicit (not_before, not_after)."""
    nb, na = window if window is not None else validity(time_class, now, rng, edge, extreme)
    nb, na = nb.replace(microsecond=0), na.replace(microsecond=0)
    rewrite = None
    if nb.year < 1950 or na.year < 1950:     # `cryptography` refuses to WRITE such dates: patch them in
        rewrite = (nb, na)
        nb, na = BOUNDARY_DATES[2], BOUNDARY_DATES[3]
    ct = dict(DEFAULT_CONTENT)
    ct.update(content or {})
    serial = ct["serial"] if ct["serial"] is not None else (rng.getrandbits(150) | 1)
    b = (x509.CertificateBuilder()
         .subject_name(dn(subject_cn, style)).issuer_name(dn(issuer_cn, style))
         .public_key(subject_key.pub)
         .serial_number(serial)
         .not_valid_before(nb.replace(microsecond=0)).not_valid_after(na.replace(microsecond=0)))
    bc = ct["bc"]
    if bc == "position":
        bc = "ca" if ca else "leaf"
    if bc != "absent":
        b = b.add_extension(x509.BasicConstraints(ca=(bc != "leaf"),
                                                  path_length=(0 if bc == "ca0" else None)),
                            critical=True)
    if ct["key_usage"]:
        isca = ct["key_usage"] == "ca"
        b = b.add_extension(x509.KeyUsage(
            digital_signature=not isca, content_commitment=not isca, key_encipherment=False,
            data_encipherment=False, key_agreement=False, key_cert_sign=isca, crl_sign=isca,
            encipher_only=False, decipher_only=False), critical=True)
    if ct["ski"]:
        b = b.add_extension(x509.SubjectKeyIdentifier.from_public_key(subject_key.pub), critical=False)
    h = {"sha384": hashes.SHA384(), "sha512": hashes.SHA512()}.get(ct["hash"]) or issuer_key.cert_hash()
    cert = b.sign(issuer_key.priv, h)
    out = cert.public_bytes(serialization.Encoding.DER)
    if rewrite:
        out = set_validity(out, rewrite[0], rewrite[1], issuer_key, h)
    return out


def der_to_b64(der, newlines=False):
    s = base64.b64encode(der).decode("ascii")
    if newlines:
        s = "\n".join(s[i:i + 64] for i in range(0, len(s), 64))
    return s


def der_to_pem(der):
    return "-----BEGIN CERTIFICATE-----\n%s\n-----END CERTIFICATE-----\n" % der_to_b64(der, True)


# ------------------------------------------------------------------------------------------------
# build
# ------------------------------------------------------------------------------------------------
X509_NAMES = ("platform_ca", "quoting_enclave", "processor_ca", "pck_leaf")


def default_spec(depth=2):
    """A genuine certificate with `depth` X.509 elements under the root (the production shape is
    depth 2: platform_ca -> quoting_enclave)."""
    if depth == 1:
        names = ["quoting_enclave"]
    elif depth == 2:
        names = ["platform_ca", "quoting_enclave"]
    else:
        names = ["platform_ca"] + ["intermediate_%d" % i for i in range(1, depth - 1)] + \
                ["quoting_enclave"]
    return {
        "root": {"curve": "P256", "time": "Valid"},
        "x509": [{"name": n, "time": "Valid", "curve": "P256", "sig": "parent"} for n in names],
        "attkey": {"name": "attestation", "sig": "parent", "bind": "ok", "key": "ok",
                   "auth_len": 32, "encoding": "uncompressed"},
        "quote": {"name": "quote", "sig": "parent", "bind": "ok", "custom_data": None,
                  "header": {}, "body": {}},
        "extra": [],
        "embed": None,
        "reparent": {},
        "time_edge": False,
        "timeline": False,
        "vary_content": False,
        "rot": "right",
        "shuffle": False,
        "pem_newlines": False,
    }


def _report_data(bind, good_hash, rng, alt_hash=None):
    """64-byte report_data for a binding class."""
    if bind == "ok":
        return good_hash + bytes(32)
    if bind == "ok_tail":                   # still binds: only the first 32 bytes are specified
        return good_hash + rng.randbytes(32)
    if bind == "misplaced":                 # the hash sits in the second half
        return bytes(32) + good_hash
    if bind == "random":
        return rng.randbytes(32) + bytes(32)
    if bind == "truncated":                 # first 31 bytes right, 32nd wrong
        return good_hash[:31] + bytes([good_hash[31] ^ (1 << rng.randrange(8))]) + bytes(32)
    if alt_hash is not None:
        return alt_hash + bytes(32)
    raise ValueError(bind)


def build(spec, rng, now=None):
    """Build a real version-2 certificate from `spec` (see module docstring).
    Returns (cert_dict, root_pem, material)."""
    now = now or datetime.datetime.now(UTC)
    sp = default_spec(2)
    sp.update(spec)
    keys, der, pem = {}, {}, {}
    edge = bool(sp.get("time_edge"))
    timeline = bool(sp.get("timeline"))
    if edge or timeline:
        now = now.replace(microsecond=0)        # the instant the code's clock has to be frozen at
    scale = "extreme" if sp.get("timeline") == "extreme" else "near"
    clocks = timeline_clocks(now, scale, rng) if timeline else None
    extreme = bool(sp.get("extreme_dates", sp.get("vary_content"))) or scale == "extreme"
    windows = {}
    vary = bool(sp.get("vary_content"))
    style = rng.choice(("cn", "cn_o", "full")) if vary else "cn_o"
    _mk = globals()["make_x509"]

    def make_x509(scn, skey, icn, ikey, time_class, now_, rng_, ca=True, content=None, use_edge=False,
                  tag=None, win=None):
        if content is None and vary:
            content = random_content(rng_)
        window = None
        if timeline:        # tagged certificates follow their window class, helpers are always valid
            window = validity_window((win or WINDOW_OF_TIME[time_class]) if tag is not None else "all",
                                     clocks, rng_, edge and tag is not None, extreme)
            if tag is not None:          # (an element may be NAMED "" - names are free text)
                windows[tag] = window
        return _mk(scn, skey, icn, ikey, time_class, now_, rng_, ca=ca, content=content, style=style,
                   edge=use_edge, window=window, extreme=extreme)
    # --- root of trust -------------------------------------------------------------------------
    root_spec = {"curve": "P256", "time": "Valid"}
    root_spec.update(sp.get("root") or {})
    keys[ROOT_NAME] = Key(root_spec["curve"])
    root_cn = "verif root %d" % rng.getrandbits(32)
    der[ROOT_NAME] = make_x509(root_cn, keys[ROOT_NAME], root_cn, keys[ROOT_NAME],
                               root_spec["time"], now, rng, tag="rot:" + ROOT_NAME,
                               win=root_spec.get("window"))
    cns = {ROOT_NAME: root_cn}
    # a foreign root (somebody else's self-signed CA): may be embedded, may issue the top element,
    # may be handed over as root of trust
    keys["foreign_root"] = Key("P256")
    cns["foreign_root"] = "foreign root %d" % rng.getrandbits(32)
    foreign_der = make_x509(cns["foreign_root"], keys["foreign_root"], cns["foreign_root"],
                            keys["foreign_root"], "Valid", now, rng)

    def other_key(like):
        return Key(like.curve if like.curve != "RSA" else "P256")

    # --- X.509 elements, top-down ----------------------------------------------------------------
    elements = {}
    parent = ROOT_NAME
    xnames = []
    pending_swaps = []
    # (common names are numbered, not derived from the element names: those are free text in version 2 -
    # empty, very long, non-ASCII ... - while an X.509 common name is not)
    for k, xs in enumerate(list(sp["x509"]) + list(sp.get("extra") or [])):
        cns[xs["name"]] = "verif ca %d %d" % (k, rng.getrandbits(32))
    if sp.get("embed"):
        cns["embedded:" + ROOT_NAME] = root_cn if sp["embed"]["kind"] == "genuine" else cns["foreign_root"]
    pool = _key_pool(int(sp["key_pool"])) if sp.get("key_pool") else None
    for i, xs in enumerate(sp["x509"]):
        n = xs["name"]
        if xs.get("is_root"):
            # this chain element IS the genuine root certificate (root key, self-signed); whatever it
            # certifies is therefore signed by the root key
            keys[n], der[n], cns[n] = keys[ROOT_NAME], der[ROOT_NAME], root_cn
            if "rot:" + ROOT_NAME in windows:
                windows[n] = windows["rot:" + ROOT_NAME]
            elements[n] = {"name": n, "type": "x509_pem", "signed_by": parent}
            xnames.append(n)
            parent = n
            continue
        if pool and xs.get("filler") and xs.get("curve", "P256") == "P256":
            keys[n] = pool[i % len(pool)]       # (long chains: a pool of keys instead of one per element)
        else:
            keys[n] = Key(xs.get("curve", "P256"))
        sig = xs.get("sig", "parent")
        signer = keys[parent] if sig != "other" else other_key(keys[parent])
        issuer_cn = cns[parent]
        if sig == "other":
            keys["other:" + n] = signer
        if sig == "foreign":
            assert i == 0, "only the top element can hang from the foreign root"
            signer, issuer_cn = keys["foreign_root"], cns["foreign_root"]
        # the names written inside the certificate (the signer does not change)
        naming = xs.get("naming", "canon")
        if naming == "selfissued":
            issuer_cn = cns[n]
        elif naming == "likeparent":
            cns[n] = issuer_cn
        elif naming == "nomatch":
            issuer_cn = "nobody %d" % rng.getrandbits(32)
        elif naming == "rootissuer":
            issuer_cn = root_cn
        elif naming == "dupsubject":
            others = sorted(k for k in cns if k not in (n, parent, ROOT_NAME, "foreign_root")
                            and not (k.startswith("embedded:") and parent == ROOT_NAME
                                     and sp["embed"]["kind"] == "genuine"))
            # (a chain with no other X.509 element to share a subject with - e.g. a forged one-element branch -
            # shares its issuer's instead: names inside the certificate do not enter the reference verdict)
            cns[n] = cns[rng.choice(others)] if others else issuer_cn
        elif naming == "rootsubject":
            cns[n] = root_cn
        elif naming != "canon":
            raise ValueError(naming)
        der[n] = make_x509(cns[n], keys[n], issuer_cn, signer, xs.get("time", "Valid"), now, rng,
                           ca=(i < len(sp["x509"]) - 1), content=xs.get("content"), use_edge=edge,
                           tag=n, win=xs.get("window"))
        if sig == "swap":
            pending_swaps.append(n)
        elements[n] = {"name": n, "type": "x509_pem", "signed_by": parent}
        xnames.append(n)
        parent = n
    for xs in sp.get("extra") or []:
        n = xs["name"]
        p = xs.get("parent", ROOT_NAME)
        keys[n] = keys[xs["samekey_as"]] if xs.get("samekey_as") is not None else Key(xs.get("curve", "P256"))
        signer = keys[p] if xs.get("sig", "parent") != "other" else other_key(keys[p])
        der[n] = make_x509(cns[n], keys[n], cns[p], signer, xs.get("time", "Valid"), now, rng,
                           use_edge=edge, tag=n, win=xs.get("window"))
        elements[n] = {"name": n, "type": "x509_pem", "signed_by": p}
    # an X.509 element "carrying the signature of another element": splice the signature of a
    # sibling certificate issued by the same key for another subject into this certificate
    for n in pending_swaps:
        p = elements[n]["signed_by"]
        donor = make_x509(cns[n] + " donor", Key("P256"), cns[p], keys[p], "Valid", now, rng)
        der[n] = splice_signature(der[n], donor)
    # --- forged branch grafted under an element of another kind -------------------------------------
    # spec["graft"] = {"under": "attkey"|"quote", "sig": "self"|"certifier"|"other"}: the chain built so
    # far stays genuine and certifies a GENUINE attestation key g_attestation (and, for "quote", a genuine
    # quote g_quote signed by it); an X.509 element evil_ca names that non-X.509 element as its
    # certifier ("self": self-signed; "certifier": really signed by the genuine attestation key's
    # private key; "other": by a stranger) and the attestation key / quote built below hang from evil_ca.
    graft = sp.get("graft")
    graft_names = []
    if graft:
        gan, gqn, ecn_ = "g_attestation", "g_quote", "evil_ca"
        keys[gan] = Key("P256")
        g_auth = rng.randbytes(32)
        g_fields = REPORT_BODY.random(rng)
        g_fields["report_data"] = hashlib.sha256(keys[gan].xy() + g_auth).digest() + bytes(32)
        g_body = REPORT_BODY.pack(g_fields)
        elements[gan] = {"name": gan, "type": "sgx_attestation_key", "message": g_body.hex(),
                         "key": keys[gan].encoded("uncompressed").hex(), "auth_data": g_auth.hex(),
                         "signature": keys[parent].sign(g_body).hex(), "signed_by": parent}
        graft_names.append(gan)
        under = gan
        if graft.get("under") == "quote":
            g_custom = rng.randbytes(40)
            g_qbody = REPORT_BODY.random(rng)
            g_qbody["report_data"] = hashlib.sha256(g_custom).digest() + bytes(32)
            g_qmsg = QUOTE_HEADER.pack(QUOTE_HEADER.random(rng)) + REPORT_BODY.pack(g_qbody)
            elements[gqn] = {"name": gqn, "type": "sgx_quote", "message": g_qmsg.hex(),
                             "custom_data": g_custom.hex(), "signature": keys[gan].sign(g_qmsg).hex(),
                             "signed_by": gan}
            graft_names.append(gqn)
            under = gqn
        keys[ecn_] = Key("P256")
        cns[ecn_] = "evil ca %d" % rng.getrandbits(32)
        gsig = graft.get("sig", "self")
        esigner = keys[ecn_] if gsig == "self" else (keys[gan] if gsig == "certifier" else Key("P256"))
        der[ecn_] = make_x509(cns[ecn_], keys[ecn_], cns[ecn_], esigner, "Valid", now, rng, tag=ecn_)
        elements[ecn_] = {"name": ecn_, "type": "x509_pem", "signed_by": under}
        graft_names.append(ecn_)
        parent = ecn_
    # --- attestation key ---------------------------------------------------------------------------
    a = dict(default_spec()["attkey"])
    a.update(sp.get("attkey") or {})
    an = a["name"]
    pck = keys[parent]
    keys[an] = Key("P256")
    att_xy = keys[an].xy()
    auth_data = rng.randbytes(max(1, int(a.get("auth_len", 32))))
    good = hashlib.sha256(att_xy + auth_data).digest()
    alt = {"noauth": hashlib.sha256(att_xy).digest(),
           "reversed": hashlib.sha256(auth_data + att_xy).digest(),
           "otherkey": hashlib.sha256(Key("P256").xy() + auth_data).digest(),
           "uncompressed": hashlib.sha256(b"\x04" + att_xy + auth_data).digest()}
    qe_fields = REPORT_BODY.random(rng)
    qe_fields.update(a.get("body") or {})
    qe_fields["report_data"] = _report_data(a.get("bind", "ok"), good, rng, alt.get(a.get("bind")))
    qe_body = REPORT_BODY.pack(qe_fields)
    key_field = keys[an].encoded(a.get("encoding", "uncompressed"))
    if a.get("key") == "offcurve":
        kb = bytearray(key_field)
        while True:
            kb[len(kb) - 1 - rng.randrange(32)] ^= 1 << rng.randrange(8)
            if not p256_on_curve(bytes(kb[-64:])):
                break
        key_field = bytes(kb)
    elif a.get("key") == "swapped":        # a valid key, but not the one the report body binds
        keys["swapped:" + an] = Key("P256")
        key_field = keys["swapped:" + an].encoded(a.get("encoding", "uncompressed"))
    att_signer = pck if a.get("sig", "parent") != "other" else other_key(pck)
    att_sig = att_signer.sign(qe_body)
    elements[an] = {"name": an, "type": "sgx_attestation_key", "message": qe_body.hex(),
                    "key": key_field.hex(), "auth_data": auth_data.hex(),
                    "signature": att_sig.hex(), "signed_by": parent}
    # --- quote ---------------------------------------------------------------------------------
    q = dict(default_spec()["quote"])
    q.update(sp.get("quote") or {})
    qn = q["name"]
    custom = q.get("custom_data")
    if custom is None:
        custom = b"POWHSM:5.4::sgx" + rng.randbytes(rng.choice((1, 32, 112, 200)))
    custom = bytes(custom)
    header = QUOTE_HEADER.random(rng)
    if not vary:                   # (with vary_content these three meet their numeric boundaries too)
        header.update({"version": 3, "sign_type": 2, "tee_type": 0})
    header.update(q.get("header") or {})
    body = REPORT_BODY.random(rng)
    body.update(q.get("body") or {})
    goodq = hashlib.sha256(custom).digest()
    altq = {"otherdata": hashlib.sha256(custom + b"\x00").digest()}
    body["report_data"] = _report_data(q.get("bind", "ok"), goodq, rng, altq.get(q.get("bind")))
    qmsg = QUOTE_HEADER.pack(header) + REPORT_BODY.pack(body)
    assert len(qmsg) == QUOTE_SIZE
    q_signer = keys[an] if q.get("sig", "parent") != "other" else Key("P256")
    q_sig = q_signer.sign(qmsg)
    if a.get("sig") == "swap":
        elements[an]["signature"] = q_sig.hex()
    if q.get("sig") == "swap":
        q_sig_used = att_sig
    else:
        q_sig_used = q_sig
    elements[qn] = {"name": qn, "type": "sgx_quote", "message": qmsg.hex(),
                    "custom_data": custom.hex(), "signature": q_sig_used.hex(), "signed_by": an}
    # --- assemble ------------------------------------------------------------------------------
    for n in der:
        pem[n] = der_to_pem(der[n])
        if n in elements:
            elements[n]["message"] = der_to_b64(der[n], sp.get("pem_newlines", False))
    order = [qn, an] + list(reversed(graft_names)) + list(reversed(xnames)) + \
        [x["name"] for x in sp.get("extra") or []]
    emb = sp.get("embed")
    if emb:
        ekey = keys[ROOT_NAME] if emb["kind"] == "genuine" else keys["foreign_root"]
        ecn = root_cn if emb["kind"] == "genuine" else cns["foreign_root"]
        if emb.get("time", "Valid") == "Valid" and emb.get("sig", "self") == "self" \
                and emb.get("window", "all") == "all":
            eder = der[ROOT_NAME] if emb["kind"] == "genuine" else foreign_der
        else:
            esigner = ekey if emb.get("sig", "self") == "self" else other_key(ekey)
            eder = make_x509(ecn, ekey, ecn, esigner, emb.get("time", "Valid"), now, rng, use_edge=edge,
                             tag=ROOT_NAME, win=emb.get("window"))
        der["embedded:" + ROOT_NAME] = eder
        elements[ROOT_NAME] = {"name": ROOT_NAME, "type": "x509_pem", "signed_by": ROOT_NAME,
                               "message": der_to_b64(eder, sp.get("pem_newlines", False))}
        order.append(ROOT_NAME)
    for n, newp in (sp.get("reparent") or {}).items():
        elements[n]["signed_by"] = newp
    if sp.get("shuffle"):
        rng.shuffle(order)
    cert = {"version": 2, "targets": [qn], "elements": [elements[n] for n in order]}
    # --- roots of trust ------------------------------------------------------------------------
    roots = {"right": pem[ROOT_NAME]}
    fresh_key = Key(root_spec["curve"])
    keys["fresh_root"] = fresh_key
    rwin = root_spec.get("window")          # (timeline) every root that may be handed over has the
    rtime = root_spec["time"]               # root's window
    roots["fresh"] = der_to_pem(make_x509(root_cn, fresh_key, root_cn, fresh_key, rtime if timeline else "Valid",
                                          now, rng, tag="rot:fresh" if timeline else None, win=rwin))
    roots["samekey"] = der_to_pem(make_x509(root_cn + " reissued", keys[ROOT_NAME],
                                            root_cn + " reissued", keys[ROOT_NAME],
                                            rtime if timeline else "Valid", now, rng,
                                            tag="rot:samekey" if timeline else None, win=rwin))
    if timeline and xnames:                 # a root certificate over the top element's key
        roots["top"] = der_to_pem(make_x509(cns[xnames[0]], keys[xnames[0]], cns[xnames[0]], keys[xnames[0]],
                                            rtime, now, rng, tag="rot:top", win=rwin))
        roots["foreign"] = der_to_pem(make_x509(cns["foreign_root"], keys["foreign_root"],
                                                cns["foreign_root"], keys["foreign_root"], rtime, now, rng,
                                                tag="rot:foreign", win=rwin))
    else:
        roots["top"] = pem[xnames[0]] if xnames else pem[ROOT_NAME]
        roots["foreign"] = der_to_pem(foreign_der)
    # a root of trust of ANOTHER KIND: a version-1 root (a bare secp256k1 public key), handed over as
    # the text "v1root:<hex of the uncompressed key>"
    import ecdsa as _ecdsa
    roots["v1root"] = "v1root:" + _ecdsa.SigningKey.generate(curve=_ecdsa.SECP256k1) \
        .verifying_key.to_string("uncompressed").hex()
    material = {
        "now": now, "clock": now if (edge or timeline) else None, "clocks": clocks, "windows": windows,
        "keys": keys, "der": der, "pem": pem,
        "order": order, "spec": sp,
        "names": {"x509": xnames, "attkey": an, "quote": qn, "root": ROOT_NAME},
        "attkey": {"report_body": qe_body, "fields": qe_fields, "key_xy": att_xy,
                   "key_field": key_field, "auth_data": auth_data, "signature": att_sig},
        "quote": {"message": qmsg, "header": header, "body": body, "custom_data": custom,
                  "signature": q_sig},
        "root_pem": roots,
    }
    return cert, roots[sp.get("rot", "right")], material


def splice_signature(der, donor_der):
    """`der` with its signatureValue replaced by the donor certificate's (outer lengths fixed)."""
    r, d = der_regions(der), der_regions(donor_der)
    body = der[r["tbs"][0]:r["sigalg"][1]] + donor_der[d["sig_hdr"][0]:]
    n = len(body)
    if n < 0x80:
        hdr = bytes([0x30, n])
    else:
        nb = n.to_bytes((n.bit_length() + 7) // 8, "big")
        hdr = bytes([0x30, 0x80 | len(nb)]) + nb
    return hdr + body


# ------------------------------------------------------------------------------------------------
# Expected values (oracle side)
# ------------------------------------------------------------------------------------------------
def quote_field_bytes(material):
    """{field: bytes as they must appear in / be reported from the signed quote}."""
    q = material["quote"]
    out = {}
    for (n, _s, _k) in QUOTE_HEADER.fields:
        out[n] = QUOTE_HEADER.field_bytes(q["header"], n)
    for (n, _s, _k) in REPORT_BODY.fields:
        out["report_body." + n] = REPORT_BODY.field_bytes(q["body"], n)
    return out


# ------------------------------------------------------------------------------------------------
# Corruption: real byte flips in a field of an element
# ------------------------------------------------------------------------------------------------
HEX_FIELDS = ("message", "signature", "key", "auth_data", "custom_data")


def find(cert, name):
    for e in cert["elements"]:
        if e["name"] == name:
            return e
    raise KeyError(name)


def field_bytes(cert, name, field):
    """Decoded bytes of a field (X.509 message: the DER certificate)."""
    e = find(cert, name)
    if e["type"] == "x509_pem" and field == "message":
        return base64.b64decode(e["message"])
    return bytes.fromhex(e[field])


def set_field_bytes(cert, name, field, data):
    e = find(cert, name)
    if e["type"] == "x509_pem" and field == "message":
        e["message"] = der_to_b64(bytes(data), "\n" in e["message"])
    else:
        e[field] = bytes(data).hex()


def corrupt(cert, name, field, pos, mask=0x01):
    """New certificate dict equal to `cert` except that byte `pos` of (element `name`, `field`) is
    XOR-ed with `mask` (1..255)."""
    assert 1 <= mask <= 255
    c = copy.deepcopy(cert)
    data = bytearray(field_bytes(c, name, field))
    data[pos] ^= mask
    set_field_bytes(c, name, field, data)
    return c


def corrupt_pem(pem_text, pos, mask=0x01):
    """A PEM certificate with DER byte `pos` XOR-ed with mask."""
    b64 = "".join(l for l in pem_text.strip().splitlines() if not l.startswith("-----"))
    data = bytearray(base64.b64decode(b64))
    data[pos] ^= mask
    return der_to_pem(bytes(data))


def message_regions(kind):
    """Byte regions of the `message` field of an sgx_attestation_key / sgx_quote element."""
    base = 0 if kind == "sgx_attestation_key" else QUOTE_HEADER.size
    r = {}
    if base:
        r["quote_header"] = (0, base)
    r["body"] = (base, base + REPORT_DATA_OFF)
    r["report_data_hash"] = (base + REPORT_DATA_OFF, base + REPORT_DATA_OFF + HASH_LEN)
    r["report_data_tail"] = (base + REPORT_DATA_OFF + HASH_LEN, base + REPORT_BODY.size)
    return r


def fields_of(element):
    """Corruptible byte fields of an element dict."""
    if element["type"] == "x509_pem":
        return ["message"]
    if element["type"] == "sgx_attestation_key":
        return ["message", "key", "auth_data", "signature"]
    return ["message", "custom_data", "signature"]


def write_files(cert, root_pem, directory, tag):
    cp = os.path.join(directory, "%s_cert.json" % tag)
    rp = os.path.join(directory, "%s_root.pem" % tag)
    with open(cp, "w") as f:
        json.dump(cert, f, indent=2)
    with open(rp, "w") as f:
        f.write(root_pem)
    return cp, rp


# ------------------------------------------------------------------------------------------------
# SGX envelope (what the device hands to the attestation gatherer) — for C15
# ------------------------------------------------------------------------------------------------
def _der_sig_to_rs(sig_der):
    """Raw r || s (32 + 32) of a DER ECDSA P-256 signature (own decoder)."""
    assert sig_der[0] == 0x30
    h, _n = _tlv(sig_der, 0)
    off = h
    out = b""
    for _ in range(2):
        assert sig_der[off] == 0x02
        ih, inn = _tlv(sig_der, off)
        v = int.from_bytes(sig_der[off + ih: off + ih + inn], "big")
        out += v.to_bytes(32, "big")
        off += ih + inn
    return out


def pack_envelope(material, cert_type=5):
    """sgx_quote_t || uint32 signature_len || sgx_quote_auth_data_t (sig r,s | attestation key x,y |
    qe_report_body | qe_report_body_signature r,s) || sgx_qe_auth_data_t (uint16 size, data) ||
    sgx_qe_cert_data_t (uint16 type, uint32 size, PEM chain leaf-first incl. root) || custom message.
    Returns (envelope_bytes, custom_message_bytes)."""
    q, a = material["quote"], material["attkey"]
    names = material["names"]["x509"]
    chain = "".join(material["pem"][n] for n in reversed(names)) + material["pem"][ROOT_NAME]
    chain = chain.encode()
    auth = (_der_sig_to_rs(q["signature"]) + a["key_xy"] + a["report_body"] +
            _der_sig_to_rs(a["signature"]))
    tail = (len(a["auth_data"]).to_bytes(2, "little") + a["auth_data"] +
            int(cert_type).to_bytes(2, "little") + len(chain).to_bytes(4, "little") + chain)
    sig_len = len(auth) + len(tail)
    env = q["message"] + sig_len.to_bytes(4, "little") + auth + tail + q["custom_data"]
    return env, q["custom_data"]


# ------------------------------------------------------------------------------------------------
# Plans: builder spec + byte flips, and the ABSTRACT certificate (spec/CertV2Props.tla) they realise
# ------------------------------------------------------------------------------------------------
def regions_for(cert, name, field, data=None):
    """{region: (start, end)} of the decoded bytes of (element, field)."""
    e = find(cert, name)
    data = field_bytes(cert, name, field) if data is None else data
    if field == "message":
        if e["type"] == "x509_pem":
            return der_regions(data)
        return message_regions(e["type"])
    if field == "key":
        if len(data) == 65:
            return {"prefix": (0, 1), "xy": (1, 65)}
        return {"xy": (0, len(data))}
    return {"all": (0, len(data))}


def flip_effect(el_type, field, region):
    """What a byte flip in that region does to the abstract element:
    'sig' (the signature no longer matches the message), 'bind' (report data no longer is the
    prescribed hash), 'key' (key field changed), 'encoding' (encoding-level octet: the element
    denotes the same signature / key or a malformed one depending on the decoder's leniency —
    outside the symbolic abstraction, callers skip these)."""
    if el_type == "x509_pem":
        return {"encoding"} if region == "sig_unused" else {"sig"}
    if field == "message":
        return {"sig", "bind"} if region == "report_data_hash" else {"sig"}
    if field == "signature":
        return {"sig"}
    if field in ("auth_data", "custom_data"):
        return {"bind"}
    if field == "key":
        return {"encoding"} if region == "prefix" else {"key"}
    raise ValueError((el_type, field, region))


def realise(plan, rng, now=None):
    """plan = {"spec": <build spec>, "flips": [{"el", "field", "region"?, "pos"?, "mask"?}, ...]}.
    Builds the certificate, applies the flips (seeded position inside the region when `pos` is not
    given) and returns (cert_dict, root_pem, material, abstract, applied_flips) where `abstract` is
    {"cert": {name: element record}, "rot": record, "target": name, "unspecified": bool} in the
    vocabulary of spec/CertV2Props.tla."""
    cert, root_pem, mat = build(plan["spec"], rng, now)
    cert, abstract, applied = apply_flips(cert, mat, plan.get("flips") or [], rng)
    return cert, root_pem, mat, abstract, applied


def apply_flips(cert, mat, flips, rng):
    """Apply byte flips to a built certificate; returns (new cert dict, abstract, applied flips).
    Flips that hit the same octet accumulate (XOR); an octet restored to its original value is no
    corruption and has no abstract effect."""
    pristine = cert
    acc = {}                      # (el, field) -> {pos: accumulated mask}
    for f in flips:
        data = field_bytes(pristine, f["el"], f["field"])
        regs = regions_for(pristine, f["el"], f["field"], data)   # regions of the uncorrupted bytes
        pos = f.get("pos")
        if pos is None:
            a, b = regs[f["region"]] if f.get("region") else (0, len(data))
            pos = rng.randrange(a, b)
        mask = f.get("mask") or rng.choice((0x01, 0x80, rng.randrange(1, 256)))
        d = acc.setdefault((f["el"], f["field"]), {})
        d[pos] = d.get(pos, 0) ^ mask
    applied = []
    effects = {}
    for (el, field), d in acc.items():
        e = find(pristine, el)
        regs = regions_for(pristine, el, field)
        for pos, mask in sorted(d.items()):
            if mask == 0:
                continue
            region = region_of(regs, pos)
            cert = corrupt(cert, el, field, pos, mask)
            effects.setdefault(el, set()).update(flip_effect(e["type"], field, region))
            applied.append({"el": el, "field": field, "pos": pos, "mask": mask, "region": region})
    for el, eff in effects.items():
        if "key" in eff:          # the key field changed: still a point of the curve?
            eff.discard("key")
            kb = field_bytes(cert, el, "key")
            eff.add("keybad" if not p256_on_curve(kb[-64:]) else "bind")
    return cert, abstract_of(mat, effects), applied


def _curve_class(key):
    return "P256" if key.curve == "P256" else "Other"


def abstract_of(mat, effects=None, at=None):
    """Abstract certificate realised by a built certificate (+ effects of byte flips per element).
    On a timeline (`material["clocks"]`) the time classes are those at instant `at` (1|2|3, default 2),
    computed from the windows the builder chose."""
    effects = effects or {}
    sp = mat["spec"]
    clocks, windows = mat.get("clocks"), mat.get("windows") or {}

    def time_win(tag, item):
        """(time class now, window class) of a certificate."""
        t = item.get("time", "Valid")
        w = item.get("window") or WINDOW_OF_TIME[t]
        if clocks and tag in windows:
            t = time_class_at(windows[tag], clocks[at or 2])
        return t, w
    rep = sp.get("reparent") or {}
    keyid = {ROOT_NAME: ROOT_NAME}
    for xs in sp["x509"]:
        keyid[xs["name"]] = ROOT_NAME if xs.get("is_root") else xs["name"]
    for xs in sp.get("extra") or []:
        keyid[xs["name"]] = xs["samekey_as"] if xs.get("samekey_as") is not None else xs["name"]
    els = {}
    unspecified = any("encoding" in v for v in effects.values())

    def x509_abs(xs, orig_parent):
        n = xs["name"]
        flipped = "sig" in effects.get(n, ())
        if xs.get("is_root"):
            root_item = {"time": "Valid"}
            root_item.update(sp.get("root") or {})
            t, w = time_win(n, root_item)
            return {"kind": "x509", "by": rep.get(n, orig_parent), "key": ROOT_NAME,
                    "sigBy": "other" if flipped else ROOT_NAME, "naming": "canon", "time": t, "win": w,
                    "curve": _curve_class(mat["keys"][ROOT_NAME]), "binds": True, "keyValid": True,
                    "label": xs.get("label", "plain")}
        sig_ok = xs.get("sig", "parent") == "parent" and not flipped
        if xs.get("sig") == "foreign" and not flipped:
            signer = "foreign"
        else:
            signer = keyid[orig_parent] if sig_ok else "other"
        t, w = time_win(n, xs)
        return {"kind": "x509", "by": rep.get(n, orig_parent), "key": keyid[n],
                "sigBy": signer, "naming": xs.get("naming", "canon"),
                "time": t, "win": w, "curve": _curve_class(mat["keys"][n]),
                "binds": True, "keyValid": True, "label": xs.get("label", "plain")}
    parent = ROOT_NAME
    for xs in sp["x509"]:
        els[xs["name"]] = x509_abs(xs, parent)
        parent = xs["name"]
    for xs in sp.get("extra") or []:
        els[xs["name"]] = x509_abs(xs, xs.get("parent", ROOT_NAME))
    emb = sp.get("embed")
    if emb:
        ek = ROOT_NAME if emb["kind"] == "genuine" else "foreign"
        self_ok = emb.get("sig", "self") == "self" and "sig" not in effects.get(ROOT_NAME, ())
        t, w = time_win(ROOT_NAME, emb)
        els[ROOT_NAME] = {"kind": "x509", "by": ROOT_NAME, "key": ek, "sigBy": ek if self_ok else "other",
                          "naming": "canon", "time": t, "win": w, "curve": "P256", "binds": True,
                          "keyValid": True, "label": "plain"}
    graft = sp.get("graft")
    if graft:
        plain = {"time": "na", "win": "na", "naming": "na", "binds": True, "keyValid": True, "label": "plain"}
        els["g_attestation"] = dict(plain, kind="attkey", by=parent, key="g_attestation",
                                    sigBy=keyid[parent], curve="P256")
        under = "g_attestation"
        if graft.get("under") == "quote":
            els["g_quote"] = dict(plain, kind="quote", by="g_attestation", key="nokey",
                                  sigBy="g_attestation", curve="na")
            under = "g_quote"
        gsig = graft.get("sig", "self")
        t, w = time_win("evil_ca", {"time": "Valid"})
        els["evil_ca"] = {"kind": "x509", "by": rep.get("evil_ca", under), "key": "evil_ca",
                          "sigBy": "other" if (gsig == "other" or "sig" in effects.get("evil_ca", ()))
                          else ("evil_ca" if gsig == "self" else "g_attestation"),
                          "naming": "canon", "time": t, "win": w, "curve": "P256", "binds": True,
                          "keyValid": True, "label": "plain"}
        keyid["evil_ca"] = "evil_ca"
        parent = "evil_ca"
    a = dict(default_spec()["attkey"])
    a.update(sp.get("attkey") or {})
    an = a["name"]
    eff = effects.get(an, ())
    els[an] = {"kind": "attkey", "by": rep.get(an, parent), "key": an, "naming": "na",
               "sigBy": keyid[parent] if (a.get("sig", "parent") == "parent" and "sig" not in eff)
               else "other",
               "time": "na", "win": "na", "curve": "P256",
               "binds": a.get("bind", "ok") in ("ok", "ok_tail") and a.get("key", "ok") != "swapped"
               and "bind" not in eff,
               "keyValid": a.get("key", "ok") != "offcurve" and "keybad" not in eff,
               "label": a.get("label", "plain")}
    q = dict(default_spec()["quote"])
    q.update(sp.get("quote") or {})
    qn = q["name"]
    eff = effects.get(qn, ())
    els[qn] = {"kind": "quote", "by": rep.get(qn, an), "key": "nokey", "naming": "na",
               "sigBy": an if (q.get("sig", "parent") == "parent" and "sig" not in eff) else "other",
               "time": "na", "win": "na", "curve": "na",
               "binds": q.get("bind", "ok") in ("ok", "ok_tail") and "bind" not in eff,
               "keyValid": True, "label": q.get("label", "plain")}
    which = sp.get("rot", "right")
    if which in ("right", "samekey"):
        rkey, rcurve = ROOT_NAME, _curve_class(mat["keys"][ROOT_NAME])
    elif which == "top" and sp["x509"]:        # the top element's own certificate as root of trust
        rkey, rcurve = keyid[sp["x509"][0]["name"]], _curve_class(mat["keys"][sp["x509"][0]["name"]])
    elif which == "foreign":
        rkey, rcurve = "foreign", "P256"
    elif which == "v1root":
        rkey, rcurve = "wrong", "Other"
    else:
        rkey, rcurve = "wrong", _curve_class(mat["keys"]["fresh_root"])
    root_item = {"time": "Valid"}
    root_item.update(sp.get("root") or {})
    rt, rw = time_win("rot:" + (ROOT_NAME if which == "right" else which), root_item)
    if not clocks:
        rt, rw = "Valid", "all"        # (off a timeline the handed-over roots are always in their period)
    rot = {"kind": "v1root" if which == "v1root" else "x509", "by": ROOT_NAME, "key": rkey,
           "sigBy": ROOT_NAME, "time": rt, "win": rw,
           "naming": "canon", "curve": rcurve, "binds": True, "keyValid": True, "label": "plain"}
    return {"cert": els, "rot": rot, "target": qn, "unspecified": unspecified}


def retime(mat, abstract, k):
    """The abstract certificate `abstract` (as returned by realise / apply_flips for instant 2) with the
    time classes every X.509 element and the root of trust have at instant k of the timeline."""
    out = copy.deepcopy(abstract)
    clocks, windows = mat.get("clocks"), mat.get("windows") or {}
    if not clocks:
        return out
    for n, e in out["cert"].items():
        if e["kind"] == "x509" and n in windows:
            e["time"] = time_class_at(windows[n], clocks[k])
    which = mat["spec"].get("rot", "right")
    tag = "rot:" + (ROOT_NAME if which == "right" else which)
    if tag in windows:
        out["rot"]["time"] = time_class_at(windows[tag], clocks[k])
    return out
