"""Device simulator for the admin commands (C18): `SimDevice` + what onboarding, unlocking, PIN change
and public-key export need on top of it.

Written from firmware/src/ledger/ui/src/{bootloader,onboard,pin,unlock}.c, firmware/src/sgx/src/
trusted/system.c and DESIGN.md Appendix E:

  Ledger UI (bootloader mode)
    SEED 0x44 [i, b]      refused with 0x69A1 when onboarded; host_seed[i] = b for i < 32; empty answer
    SEND_PIN 0x41 [i, b]  buffer[i] = b, buffer[i + 1] = 0 for i <= 8 (silently ignored beyond); 3 bytes
    WIPE 0x07             refused with 0x69A1 when onboarded, 0x69A0 when the PIN (buffer from index 1)
                          fails the policy (production build); device becomes onboarded with that PIN;
                          answers [CLA, 2, 1]; afterwards nothing is accepted until the device is
                          re-plugged (next connect)
    UNLOCK 0xFE           compares the buffer from index 0 with the PIN(s) the device accepts
    CHANGE_PIN            as SimDevice (buffer from index 1; 0x69A0 on a production build if the
                          policy fails)
  SGX (TCP)  system commands are served in every mode
    ONBOARD 0xA0 [0, seed32, pin]  0x6BEF when onboarded; -> [.,.,1]
    UNLOCK 0xA3 / CHANGE_PASSWORD 0xA5 need an onboarded (0x6BEE) / unlocked device; once unlocked
    the device reports signer mode
  admin CLA 0xE0 (Ledger dashboard, used by the attestation setup that follows onboarding):
    IDENTIFY 0x04, NONCE 0x50 -> batch4 + nonce8, SEND_KEY 0x51, GET_KEY 0x52 -> [hl, header, kl,
    pub65, sl, sig], SETUP_ENDO 0xC0 -> pub65 + sig, SETUP_ENDO_ACK 0xC2.  Signatures are real
    secp256k1 ECDSA signatures by deterministic simulator keys (the middleware only stores them).
"""
import hashlib

from .simdev import SimDevice, CLA, MODE_BOOT, MODE_SIGNER, PATH_BYTES

ADMIN_CLA = 0xE0
SEED_LEN = 32
MAX_PIN_LENGTH = 8

P = 0xFFFFFFFFFFFFFFFFFFFFFFFFFFFFFFFFFFFFFFFFFFFFFFFFFFFFFFFEFFFFFC2F
N = 0xFFFFFFFFFFFFFFFFFFFFFFFFFFFFFFFEBAAEDCE6AF48A03BBFD25E8CD0364141
G = (0x79BE667EF9DCBBAC55A06295CE870B07029BFCDB2DCE28D959F2815B16F81798,
     0x483ADA7726A3C4655DA4FBFC0E1108A8FD17B448A68554199C47D08FFB10D4B8)


def _add(a, b):
    if a is None:
        return b
    if b is None:
        return a
    if a[0] == b[0] and (a[1] + b[1]) % P == 0:
        return None
    if a == b:
        m = 3 * a[0] * a[0] * pow(2 * a[1], -1, P) % P
    else:
        m = (b[1] - a[1]) * pow(b[0] - a[0], -1, P) % P
    x = (m * m - a[0] - b[0]) % P
    return x, (m * (a[0] - x) - a[1]) % P


def _mul(k, pt=G):
    r = None
    while k:
        if k & 1:
            r = _add(r, pt)
        pt = _add(pt, pt)
        k >>= 1
    return r


def pub_uncompressed(scalar):
    """Public key of a simulator-side private scalar (environment data, not an oracle): libsecp256k1
    when available, the slow pure-Python ladder otherwise."""
    try:
        import secp256k1
        return secp256k1.PrivateKey(scalar.to_bytes(32, "big"), raw=True).pubkey.serialize(
            compressed=False)
    except ImportError:   # pragma: no cover
        x, y = _mul(scalar)
        return b"\x04" + x.to_bytes(32, "big") + y.to_bytes(32, "big")


def compress(pub65):
    """Independent SEC1 compression (the oracle of PubkeysWritten): 02/03 by the parity of Y."""
    assert len(pub65) == 65 and pub65[0] == 4
    return bytes([2 + (pub65[64] & 1)]) + pub65[1:33]


def _der_int(v):
    b = v.to_bytes(32, "big").lstrip(b"\x00") or b"\x00"
    if b[0] & 0x80:
        b = b"\x00" + b
    return b"\x02" + bytes([len(b)]) + b


def ecdsa_sign(scalar, msg, k_seed=b"k"):
    """Deterministic ECDSA over sha256(msg) (simulator side only; nothing verifies it here):
    libsecp256k1 (RFC 6979) when available, the slow pure-Python ladder otherwise."""
    try:
        import secp256k1
        key = secp256k1.PrivateKey(scalar.to_bytes(32, "big"), raw=True)
        return key.ecdsa_serialize(key.ecdsa_sign(bytes(msg)))
    except ImportError:   # pragma: no cover
        pass
    z = int.from_bytes(hashlib.sha256(msg).digest(), "big")
    ctr = 0
    while True:
        k = int.from_bytes(hashlib.sha256(k_seed + scalar.to_bytes(32, "big") + msg +
                                          bytes([ctr])).digest(), "big") % N
        ctr += 1
        if k == 0:
            continue
        r = _mul(k)[0] % N
        if r == 0:
            continue
        s = pow(k, -1, N) * (z + r * scalar) % N
        if s == 0:
            continue
        if s > N // 2:
            s = N - s
        body = _der_int(r) + _der_int(s)
        return b"\x30" + bytes([len(body)]) + body


def policy_ok(pin):
    """firmware/src/common/src/pin_policy.c: exactly 8 alphanumerics, at least one letter."""
    return len(pin) == MAX_PIN_LENGTH and all(chr(c).isascii() and chr(c).isalnum() for c in pin) \
        and any(chr(c).isalpha() for c in pin)


# Shapes of a WRONG echo reply (the device did not echo the APDU it was sent)
ECHO_SHAPES = ("last", "first", "cla", "cmd", "hdr0", "otherop", "short", "long", "empty", "hdronly",
               "payloadonly", "reversed")
# Shapes of an IS_ONBOARD reply that says neither yes nor no
ONB_SHAPES = ("short", "empty", "err")
# Shapes of a negative answer to WIPE / SGX_ONBOARD (the device did NOT onboard)
WIPE_SHAPES = ("refuse", "err", "odd", "short", "empty")
# Shapes of a negative answer to UNLOCK / SGX_UNLOCK (the device stays locked)
UNLOCK_FAIL_SHAPES = ("zero", "short", "empty", "err")
# Non-canonical positive answers to the Ledger UNLOCK (documented as "non-zero")
UNLOCK_TRUE_BYTES = (0x01, 0x02, 0xAA, 0xFF)
# Shapes of a negative answer to CHANGE_PIN (Ledger: status word only) / SGX_CHANGE_PASSWORD
NEWPIN_SHAPES = {"ledger": ("refuse", "err"), "sgx": ("refuse", "err", "odd", "short", "empty")}


def wrong_echo(apdu, shape, platform):
    """A reply to ECHO that is not the APDU sent, in one of ECHO_SHAPES."""
    apdu = bytes(apdu)
    hdr, pay = apdu[:2], apdu[2:]
    if shape == "last":          # last byte flipped
        return apdu[:-1] + bytes([apdu[-1] ^ 1])
    if shape == "first":         # first payload byte
        return hdr + bytes([pay[0] ^ 1]) + pay[1:] if pay else hdr + b"\x00"
    if shape == "cla":           # CLA only
        return bytes([0xE0]) + apdu[1:]
    if shape == "cmd":           # command byte only
        return bytes([apdu[0], apdu[1] ^ 0x01]) + pay
    if shape == "hdr0":          # both header bytes zeroed
        return b"\x00\x00" + pay
    if shape == "otherop":       # the other platform's echo opcode
        return bytes([apdu[0], 0xA4 if platform == "ledger" else 0x02]) + pay
    if shape == "short":         # one byte short
        return apdu[:-1]
    if shape == "long":          # one byte long
        return apdu + apdu[-1:]
    if shape == "empty":
        return b""
    if shape == "hdronly":
        return hdr
    if shape == "payloadonly":
        return pay
    if shape == "reversed":      # payload reversed
        return hdr + pay[::-1]
    raise ValueError(shape)


_BOUNDARY_SCALARS = []


def boundary_scalars():
    """Small private scalars whose public key has a leading zero byte in X (4 of them) or in Y (2):
    the encodings where a minimal-length / unpadded serialisation goes wrong."""
    if not _BOUNDARY_SCALARS:
        xs, ys, k = [], [], 1
        while len(xs) < 4 or len(ys) < 2:
            k += 1
            pub = pub_uncompressed(k)
            if pub[1] == 0 and len(xs) < 4:
                xs.append(k)
            elif pub[33] == 0 and len(ys) < 2:
                ys.append(k)
        _BOUNDARY_SCALARS.extend(xs + ys)
    return _BOUNDARY_SCALARS


class AdminSimDevice(SimDevice):
    def __init__(self, platform="ledger", mode=MODE_BOOT, seed=1, with_keys=True):
        super().__init__(platform=platform, mode=mode, seed=seed)
        # keys must be curve points: admin/pubkeys.py re-parses them (skipped for runs that never
        # ask for a key: key generation dominates the cost of the short runs)
        self.key_scalars = {}
        for name, pb in PATH_BYTES.items():
            k = int.from_bytes(self.rnd.bytes(32), "big") % (N - 1) + 1
            self.key_scalars[pb] = k
            if with_keys:
                self.keys[pb] = pub_uncompressed(k)
        if with_keys and self.rnd.randint(0, 1):
            # every other device holds, for one or two paths, a key at the encoding boundary
            bs = boundary_scalars()
            for _ in range(self.rnd.randint(1, 2)):
                pb = self.rnd.choice(sorted(self.keys))
                self.key_scalars[pb] = self.rnd.choice(bs)
                self.keys[pb] = pub_uncompressed(self.key_scalars[pb])
        self.pinbuf = bytearray(MAX_PIN_LENGTH + 2)
        self.host_seed = bytearray(SEED_LEN)
        self.host_seed_set = set()
        self.received_seed = None           # what the device was finally onboarded with
        self.onboard_performed = False      # Ledger: locked out until re-plugged
        self.strict_policy = False          # production build: WIPE / CHANGE_PIN enforce the policy
        self.wipe_answer = "ok"             # ok | one of WIPE_SHAPES
        self.echo_shape = None              # None (echo_ok decides: "last") | one of ECHO_SHAPES
        self.onb_shape = None               # None | one of ONB_SHAPES (IS_ONBOARD answers garbage)
        self.unlock_fail_shape = "zero"     # how a refused unlock is reported (UNLOCK_FAIL_SHAPES)
        self.unlock_true_byte = 0x01        # how a successful Ledger unlock is reported
        self.post_unlock_mode = MODE_SIGNER  # SGX: mode reported once unlocked
        self.accept_pins = None             # None: compare with self.pin | set of PINs that unlock
        self.pubkey_fail = None             # None | index of the GET_PUBLIC_KEY that fails
        self.pubkeys_served = 0
        self.device_scalar = int.from_bytes(self.rnd.bytes(32), "big") % (N - 1) + 1
        self.endo_scalar = int.from_bytes(self.rnd.bytes(32), "big") % (N - 1) + 1
        self.issuer_scalar = int.from_bytes(self.rnd.bytes(32), "big") % (N - 1) + 1
        self.admin_log = []

    def on_connect(self):
        super().on_connect()
        if self.onboard_performed:
            # the operator re-plugged the device: fresh boot, locked
            self.onboard_performed = False
            self.unlocked = False
            self.pinbuf = bytearray(MAX_PIN_LENGTH + 2)

    # ------------------------------------------------------------------ dispatcher
    def handle(self, apdu):
        for o in list(self.overrides):
            r = o(self, apdu)
            if r is not None:
                return r
        saved, self.overrides = self.overrides, []
        try:
            return self._handle_admin(apdu)
        finally:
            self.overrides = saved

    def _handle_admin(self, apdu):
        if len(apdu) >= 2 and apdu[0] == ADMIN_CLA:
            return self._dashboard(apdu[1], apdu[2:])
        if len(apdu) < 2 or apdu[0] != CLA:
            return super().handle(apdu)
        cmd, data = apdu[1], apdu[2:]
        if cmd == 0x06 and self.onb_shape is not None:
            return {"short": (0x9000, bytes([CLA])), "empty": (0x9000, b""),
                    "err": (0x6A99, b"")}[self.onb_shape]
        if self.platform == "sgx" and cmd in (0xA0, 0xA2, 0xA3, 0xA4, 0xA5):
            return self._sgx_system(cmd, data, apdu)
        if self.platform == "ledger" and self.mode == MODE_BOOT:
            if self.onboard_performed:
                return 0x6D00, b""
            if cmd == 0x02:
                return 0x9000, self._echo(apdu)
            if cmd == 0x44:
                return self._seed(data)
            if cmd == 0x41:
                return self._send_pin(data, apdu)
            if cmd == 0x07:
                return self._wipe()
            if cmd == 0xFE and self.accept_pins is not None and self.unlock_answer is None:
                sent = bytes(self.pinbuf).split(b"\x00")[0]
                return self._unlock_result(sent in self.accept_pins, bytes([CLA, cmd]))
            if cmd == 0x08 and self.strict_policy and self.newpin_answer == "ack":
                newpin = bytes(self.pinbuf)[1:].split(b"\x00")[0]
                if not policy_ok(newpin):
                    return 0x69A0, b""
        if self.mode == MODE_SIGNER and cmd == 0x04 and self.pubkey_fail is not None:
            i = self.pubkeys_served
            self.pubkeys_served += 1
            if i == self.pubkey_fail:
                return 0x6A8F, b""
        return super().handle(apdu)

    # ------------------------------------------------------------------ Ledger UI onboarding
    def _seed(self, data):
        if self.onboarded:
            return 0x69A1, b""
        if len(data) != 2:
            return 0x6A01, b""
        if data[0] < SEED_LEN:
            self.host_seed[data[0]] = data[1]
            self.host_seed_set.add(data[0])
        return 0x9000, b""

    def _send_pin(self, data, apdu):
        if len(data) != 2:
            return 0x6A01, b""
        if data[0] <= MAX_PIN_LENGTH:
            self.pinbuf[data[0]] = data[1]
            self.pinbuf[data[0] + 1] = 0
        return 0x9000, bytes(apdu[:3])

    def _wipe(self):
        if self.onboarded:
            return 0x69A1, b""
        if self.wipe_answer == "refuse":
            return 0x69A0, b""
        if self.wipe_answer == "err":
            return 0x6A99, b""
        newpin = bytes(self.pinbuf)[1:].split(b"\x00")[0]
        if self.strict_policy and not policy_ok(newpin):
            return 0x69A0, b""
        if self.wipe_answer in ("odd", "bad"):
            return 0x9000, bytes([CLA, 3, 0])
        if self.wipe_answer == "short":
            return 0x9000, bytes([CLA])
        if self.wipe_answer == "empty":
            return 0x9000, b""
        self.received_seed = bytes(self.host_seed)
        self.pin = newpin
        self.onboarded = True
        self.unlocked = False
        self.retries = 3
        self.onboard_performed = True
        self.pinbuf = bytearray(MAX_PIN_LENGTH + 2)
        self._journal_pin()
        return 0x9000, bytes([CLA, 2, 1])

    # ------------------------------------------------------------------ SGX system commands
    def _sgx_system(self, cmd, data, apdu):
        H = bytes([CLA, cmd])
        if cmd == 0xA4:
            return 0x9000, self._echo(apdu)
        if cmd == 0xA0:
            if self.onboarded:
                return 0x6BEF, b""
            if len(data) < 1 + SEED_LEN + 1:
                return 0x6A87, b""
            if self.wipe_answer == "refuse":
                return 0x9000, H + b"\x00"
            if self.wipe_answer == "err":
                return 0x6BF0, b""
            if self.wipe_answer in ("odd", "bad"):
                return 0x9000, H + b"\x02"
            if self.wipe_answer == "short":
                return 0x9000, H
            if self.wipe_answer == "empty":
                return 0x9000, b""
            self.received_seed = bytes(data[1:1 + SEED_LEN])
            self.pin = bytes(data[1 + SEED_LEN:])
            self.onboarded = True
            self.unlocked = True
            self.retries = 3
            return 0x9000, H + b"\x01"
        if not self.onboarded:
            return 0x6BEE, b""
        if cmd == 0xA2:
            return 0x9000, H + bytes([self.retries])
        if cmd == 0xA3:
            if self.unlocked:
                return 0x9000, H + b"\x01"
            if len(data) < 2:
                return 0x6A87, b""
            sent = bytes(data[1:])
            if self.unlock_answer is not None:
                ok = self.unlock_answer
            elif self.accept_pins is not None:
                ok = sent in self.accept_pins
            else:
                ok = sent == self.pin
            return self._unlock_result(ok, H)
        if cmd == 0xA5:
            if not self.unlocked:
                return 0x6BF1, b""
            if len(data) < 2:
                return 0x6A87, b""
            if self.newpin_answer == "refuse":
                return 0x9000, H + b"\x00"
            if self.newpin_answer == "err":
                return 0x6BF2, b""
            if self.newpin_answer == "odd":
                return 0x9000, H + b"\x02"
            if self.newpin_answer == "short":
                return 0x9000, H
            if self.newpin_answer == "empty":
                return 0x9000, b""
            self.pin = bytes(data[1:])
            self._journal_pin()
            return 0x9000, H + b"\x01"
        return 0x6D00, b""

    def _unlock_result(self, ok, H):
        if ok:
            self.unlocked = True
            if self.platform == "sgx" and self.mode == MODE_BOOT:
                self.mode = self.post_unlock_mode
            return 0x9000, H + bytes([self.unlock_true_byte if self.platform == "ledger" else 1])
        self.retries = max(0, self.retries - 1)
        return {"zero": (0x9000, H + b"\x00"), "short": (0x9000, H), "empty": (0x9000, b""),
                "err": (0x6A99 if self.platform == "ledger" else 0x6BF3, b"")}[self.unlock_fail_shape]

    def _echo(self, apdu):
        if self.echo_ok and self.echo_shape is None:
            return bytes(apdu)
        return wrong_echo(apdu, self.echo_shape or "last", self.platform)

    # ------------------------------------------------------------------ Ledger dashboard (CLA 0xE0)
    def _dashboard(self, cmd, data):
        self.admin_log.append((cmd, bytes(data)))
        if self.platform != "ledger" or not (self.onboarded and self.unlocked):
            return 0x6982, b""
        if cmd == 0x04:     # IDENTIFY
            return 0x9000, b""
        if cmd == 0x50:     # NONCE -> batch(4) + device nonce(8)
            return 0x9000, self.rnd.bytes(4) + self.rnd.bytes(8)
        if cmd == 0x51:     # SEND_KEY (master / ephemeral)
            return 0x9000, b""
        if cmd == 0x52:     # GET_KEY
            header = self.rnd.bytes(9)
            if len(data) >= 1 and data[0] == 0x80:
                pub = pub_uncompressed(int.from_bytes(self.rnd.bytes(32), "big") % (N - 1) + 1)
                sig = ecdsa_sign(self.device_scalar, bytes([0x11]) + header + pub)
            else:
                pub = pub_uncompressed(self.device_scalar)
                sig = ecdsa_sign(self.issuer_scalar, bytes([0x02]) + header + pub)
            return 0x9000, bytes([len(header)]) + header + bytes([len(pub)]) + pub + \
                bytes([len(sig)]) + sig
        if cmd == 0xC0:     # SETUP_ENDO -> pub65 + signature by the device key
            pub = pub_uncompressed(self.endo_scalar)
            return 0x9000, pub + ecdsa_sign(self.device_scalar, bytes([0xFF]) + pub)
        if cmd == 0xC2:     # SETUP_ENDO_ACK
            return 0x9000, b""
        return 0x6D00, b""
