"""Process environment for every check: where the code under test lives, import paths, quiet logs."""
import logging
import os
import sys

VERIF = os.path.dirname(os.path.dirname(os.path.abspath(__file__)))
REPO = os.environ.get("VERIF_REPO", "/repo")
MIDDLEWARE = os.path.join(REPO, "middleware")
SHIMS = os.path.join(VERIF, "harness", "shims")
SPEC = os.path.join(VERIF, "spec")
GUARD = "POWHSM_VERIF"

_done = False


def setup():
    """Make `import ledger...`, `import comm...`, `import admin...` resolve to the current working
    tree of the repository and `import bitcoin.core` to the stand-in. Idempotent."""
    global _done
    if _done:
        return
    _done = True
    sys.dont_write_bytecode = True
    os.environ[GUARD] = "1"
    for p in (MIDDLEWARE, SHIMS):
        if p in sys.path:
            sys.path.remove(p)
    sys.path.insert(0, MIDDLEWARE)
    sys.path.insert(0, SHIMS)
    # drop a pre-imported pybitcointools `bitcoin` so that the stand-in wins
    for m in [m for m in sys.modules if m == "bitcoin" or m.startswith("bitcoin.")]:
        del sys.modules[m]
    logging.disable(logging.CRITICAL)
