"""Whole-process manager lifetimes: the real mgr.runner.ManagerRunner.run (load PIN, create dongle, bring-up,
TCP server loop, termination) in a forked child against a simulated device, with a per-request plan of what
the environment does; the parent is the client. Events are merged into a ManagerProps trace."""
import json
import os
import zlib
import random
import socket
import types

from . import bringup, env, lines, reqs
from .simdev import SimDevice, MODE_SIGNER, MODE_UIHB, MODE_BOOT
from .transport import World, install


def preload():
    """Import in the parent everything a manager process needs, so that forked children start warm."""
    env.setup()
    import socketserver  # noqa
    import comm.server, comm.platform, mgr.runner, ledger.hsm2dongle, ledger.hsm2dongle_tcp  # noqa
    import sgx.hsm2dongle, manager_ledger, manager_sgx, ledger.protocol, ledger.protocol_v1, ledger.pin  # noqa
    import logging.config  # noqa


def _child(plan, wfd):
    def emit(ev):
        os.write(wfd, (json.dumps(ev) + "\n").encode())
    env.setup()
    dn = os.open(os.environ.get("VERIF_CHILD_LOG", os.devnull), os.O_WRONLY | os.O_CREAT | os.O_APPEND)
    os.dup2(dn, 1)
    os.dup2(dn, 2)
    import socketserver
    import comm.server as cs
    from comm.platform import Platform
    from mgr.runner import ManagerRunner
    from ledger.hsm2dongle import HSM2Dongle
    from ledger.hsm2dongle_tcp import HSM2DongleTCP
    from sgx.hsm2dongle import HSM2DongleSGX
    import manager_ledger
    import manager_sgx
    plat = plan.get("plat", "ledger")
    Platform.set({"ledger": Platform.LEDGER, "sgx": Platform.SGX, "tcp": Platform.X86}[plat])
    rng = random.Random(plan["seed"])
    sc = bringup.scenario_from_env("sgx" if plat == "sgx" else "ledger", plan["needchg"], plan["env"], rng)
    world = World(sc.dev, "hid" if plat == "ledger" else "tcp")
    install(world)
    state = {"k": -1}

    def base_on_event(ev):
        if ev["ev"] == "close" and state["k"] >= 0:
            emit({"k": "repair", "req": state["k"]})
        if ev["ev"] == "open" and state["k"] >= 0:
            # (a re-opening inside a request is a repair even when nothing was left to close: the previous
            # request's re-opening had failed)
            emit({"k": "repair", "req": state["k"]})
            # the exchanges that follow a reconnection inside a request are the repair's bring-up
            # (IS_ONBOARD, GET_MODE, IS_ONBOARD, GET_PARAMETERS), not the command's own
            state["skip"] = 4
    world.on_event = base_on_event

    seen = {"onb": 0}

    def unsafe_now():
        d = world.device
        v = tuple(d.app_version)
        supported = v[0] == 5 and (v[1] < 4 or (v[1] == 4 and v[2] <= 1))
        return d.mode != MODE_SIGNER or not supported or not d.onboarded

    def fault_hook(w, apdu, idx):
        if state["k"] < 0:
            # start-up: the environment's answer to the first onboarded query / the retries query
            if len(apdu) >= 2 and apdu[1] == 0x06:
                seen["onb"] += 1
                if seen["onb"] == 1 and sc.onb_err is not None:
                    return sc.onb_err
            if len(apdu) >= 2 and apdu[1] in (0x45, 0xA2) and sc.retries_err is not None:
                return sc.retries_err
            return None
        if state.get("skip", 0) > 0:
            state["skip"] -= 1
            bf = state.get("bringup_fault")
            if bf is not None and 4 - state["skip"] == bf["at"]:
                state["bringup_fault"] = None
                return tuple(bf["spec"])
            return None
        i = state.get("cmd_i", 0)
        state["cmd_i"] = i + 1
        f = state.get("fault")
        if f is not None and i == f["at"]:
            return tuple(f["spec"])
        return None
    world.fault_hook = fault_hook
    orig_sf = socketserver.TCPServer.serve_forever

    def serve_forever(self, *a, **k):
        emit({"k": "listening", "port": self.server_address[1]})
        return orig_sf(self, *a, **k)
    socketserver.TCPServer.serve_forever = serve_forever
    orig_handle = cs._RequestHandler.handle

    def handle(self, client_address, rfile, wfile):
        state["k"] += 1
        k = state["k"]
        world.reset_counters()
        step = plan["reqs"][k] if k < len(plan["reqs"]) else {}
        state["skip"], state["cmd_i"] = 0, 0
        state["fault"] = step.get("fault")
        state["bringup_fault"] = step.get("bringup_fault")
        if step.get("connect_failures"):
            world.connect_failures = step["connect_failures"]
        world.on_event = base_on_event
        if step.get("then_mode") is not None:
            # the device changes mode right after the faulted exchange of this request
            tgt = step["then_mode"]

            def on_event(ev):
                if ev["ev"] == "apdu" and ev.get("fault") in ("write", "read"):
                    if tgt == "unsupported_app":
                        world.device.app_version = (5, 5, 0)      # comes back running a signer the manager must not serve
                    else:
                        world.device.mode = tgt
                base_on_event(ev)
            world.on_event = on_event
        try:
            return orig_handle(self, client_address, rfile, wfile)
        finally:
            emit({"k": "reqend", "req": k, "unsafe": bool(unsafe_now())})
    cs._RequestHandler.handle = handle
    orig_sd = cs._TCPServerRequestHandler.shutdown

    def shutdown(self):
        emit({"k": "stopreq", "req": state["k"]})
        return orig_sd(self)
    cs._TCPServerRequestHandler.shutdown = shutdown
    pin_path = plan["pin_path"]
    if os.path.exists(pin_path):
        os.unlink(pin_path)
    if plan.get("pin_file") is not None:
        with open(pin_path, "wb") as f:          # a PIN file that is there but holds no valid PIN
            f.write(bytes.fromhex(plan["pin_file"]))
    elif plan["needchg"] == "f":
        with open(pin_path, "wb") as f:
            f.write(bringup.GOOD_PIN)
    os.environ["PIN"] = bringup.GOOD_PIN.decode()
    # configuration of the manager as an environment choice: 0 = no logging configuration file (the built-in
    # DEBUG-to-stdout one), 1 = a production-like file (WARNING and above to a log file) with -D, 2 = -D alone,
    # 3 = standard output closed
    cfg = plan.get("cfg", 0)
    logcfg = os.path.join(os.path.dirname(pin_path), "no-such-logging.cfg")
    if cfg == 1:
        logcfg = pin_path + ".logging.cfg"
        with open(logcfg, "w") as f:
            f.write("[loggers]\nkeys=root\n\n[handlers]\nkeys=file\n\n[formatters]\nkeys=user\n\n"
                    "[logger_root]\nlevel=WARNING\nhandlers=file\n\n"
                    "[handler_file]\nclass=FileHandler\nlevel=WARNING\nformatter=user\nargs=(%r,)\n\n"
                    "[formatter_user]\nformat=%%(asctime)s [%%(levelname)s:%%(name)s] %%(message)s\n"
                    "class=logging.Formatter\n" % (pin_path + ".log"))
    options = types.SimpleNamespace(logconfigfilepath=logcfg,
                                    version_one=bool(plan["v1"]), host="127.0.0.1", port=0,
                                    pin_file=pin_path, force_pin_change=False, io_debug=cfg in (1, 2))
    emit({"k": "start"})
    options.tcpconn_host, options.tcpconn_port = "127.0.0.1", 7777
    if plat == "ledger":
        runner = ManagerRunner("powHSM manager", lambda o: HSM2Dongle(o.io_debug), manager_ledger.load_pin)
    elif plat == "sgx":
        runner = ManagerRunner("powHSM manager for SGX",
                               lambda o: HSM2DongleSGX(o.tcpconn_host, o.tcpconn_port, o.io_debug),
                               manager_sgx.load_pin)
    else:
        runner = ManagerRunner("powHSM manager for TCPSigner",
                               lambda o: HSM2DongleTCP(o.tcpconn_host, o.tcpconn_port, o.io_debug),
                               load_pin=lambda o: None)
    # a manager process starts with no logger configured or created yet (logging.config.fileConfig disables the
    # loggers that exist when it runs: what this interpreter created earlier must not be among them)
    import logging
    logging.Logger.manager.loggerDict.clear()
    for h in list(logging.root.handlers):
        logging.root.removeHandler(h)
    logging.disable(logging.NOTSET)
    if cfg == 3:
        # started with its standard output closed (a daemoniser, `>&-`): Python then has sys.stdout = None
        import sys
        try:
            os.close(1)
        except OSError:
            pass
        sys.stdout = None
    try:
        runner.run(options)
        emit({"k": "exit", "how": "returned"})
    except BaseException as e:   # noqa
        emit({"k": "exit", "how": type(e).__name__})


def client_request(port, line, timeout=30):
    ev = {"connected": False, "onereply": False, "hascode": False, "code": 0}
    try:
        s = socket.create_connection(("127.0.0.1", port), timeout=5)
    except OSError:
        return ev
    ev["connected"] = True
    data = b""
    try:
        s.settimeout(timeout)
        s.sendall(line + b"\n")
        while True:
            b = s.recv(65536)
            if not b:
                break
            data += b
    except socket.timeout:
        ev["timed_out"] = not data
    except OSError:
        pass
    finally:
        s.close()
    if data.endswith(b"\n") and data.count(b"\n") == 1:
        try:
            v = json.loads(data.decode())
            if isinstance(v, dict):
                ev["onereply"] = True
                c = v.get("errorcode")
                if isinstance(c, int) and not isinstance(c, bool):
                    ev["hascode"], ev["code"] = True, c
        except Exception:
            pass
    return ev


def concrete_step(cause, rng, v1):
    """-> (request line, child-side step). Multi-APDU commands give room for a fault position."""
    ver = 1 if v1 else 5
    if cause == "client":
        table = lines.V1_CLASSES if v1 else lines.CLASSES
        name = rng.choice(sorted(table))
        return table[name](random.Random(rng.random())), {}, name
    if v1:
        cmd = rng.choice(["getPubKey", "sign_v1"])
        nsteps = 1
    else:
        cmd, nsteps = rng.choice([("blockchainState", 9), ("signerHeartbeat", 5), ("getPubKey", 1), ("sign_hash", 1),
                                  ("blockchainParameters", 1), ("resetAdvanceBlockchain", 1)])
    line = json.dumps(reqs.make(cmd, random.Random(rng.random()), ver)[0]).encode()
    at = rng.randrange(nsteps)
    if cause == "inrange":
        return line, {"fault": {"at": at, "spec": ["sw", rng.choice([0x6A01, 0x6A87, 0x6A8F, 0x6B87, 0x6B10, 0x6BF1, 0x69A0])]}}, cmd
    if cause == "timeout":
        return line, {"fault": {"at": at, "spec": ["timeout"]}}, cmd
    if cause == "reconnfail":
        # a link error on this request's first exchange while a repair may already be owed, and the device cannot be
        # re-opened: whichever of the two this request meets, the answer is the device error and the manager stays
        return line, {"fault": {"at": 0, "spec": [rng.choice(["write", "read"])]}, "connect_failures": 1}, cmd
    if cause == "linkfault":
        return line, {"fault": {"at": at, "spec": [rng.choice(["write", "read"])]}}, cmd
    if cause == "outrange":
        cmd = "getPubKey" if v1 or rng.random() < 0.5 else "sign_hash"
        line = json.dumps(reqs.make(cmd if not v1 else rng.choice(["getPubKey", "sign_v1"]),
                                    random.Random(rng.random()), ver)[0]).encode()
        return line, {"fault": {"at": 0, "spec": ["sw", rng.choice([0x6E00, 0x6F01, 0x6200, 0x6700])]}}, cmd
    if cause == "unsafe":
        return line, {"fault": {"at": at, "spec": [rng.choice(["write", "read"])]},
                      "then_mode": rng.choice([MODE_UIHB, MODE_BOOT, 0xFF])}, cmd
    raise ValueError(cause)


def unsafe_repair_history(rng, v1):
    """Three requests: a link error after which the device is no longer one to serve from (it comes back running
    an unsupported signer, or in another app); the next request's repair is cut short by a time-out inside the
    repeated bring-up; a third request. Whatever is answered, no command may succeed on that device."""
    ver = 1 if v1 else 5
    cmd = "getPubKey"
    mk = lambda: json.dumps(reqs.make(cmd, random.Random(rng.random()), ver)[0]).encode()   # noqa: E731
    tgt = rng.choice(["unsupported_app", "unsupported_app", MODE_UIHB])
    return [("unsafe", mk(), {"fault": {"at": 0, "spec": [rng.choice(["write", "read"])]}, "then_mode": tgt}, cmd),
            # (the time-out comes before the exchange whose answer would reveal the state: the mode query for another
            # app, the mode or version query for an unsupported signer)
            ("timeout", mk(), {"bringup_fault": {"at": 2 if tgt == MODE_UIHB else rng.choice([2, 3]), "spec": ["timeout"]}}, cmd),
            ("unsafe!", mk(), {}, cmd),
            ("unsafe!", mk(), {}, cmd)]


def cut_repair_history(rng, v1, at):
    """A link error; the next request's repair is cut short by a time-out at its at-th bring-up exchange (2 = mode,
    3 = version, 4 = parameters; the device is fine); two more requests. Nothing here may stop the manager and every
    request gets a coded reply."""
    ver = 1 if v1 else 5
    cmd = "getPubKey"
    mk = lambda: json.dumps(reqs.make(cmd, random.Random(rng.random()), ver)[0]).encode()   # noqa: E731
    return [("linkfault", mk(), {"fault": {"at": 0, "spec": [rng.choice(["write", "read"])]}}, cmd),
            ("timeout", mk(), {"bringup_fault": {"at": at, "spec": ["timeout"]}}, cmd),
            ("client", mk(), {}, cmd),
            ("client", mk(), {}, cmd)]


GOOD_ENV = {"onb": "yes", "mode1": "signer", "uiver": [5, 4, 1], "echo": "t", "retries": 3, "unlock": "t",
            "newpin": "ack", "mode2": "signer", "appver": [5, 4, 1]}


def run_lifetime(scratch, tag, should, causes, v1, rng, start_env=None, plat="ledger", client_lines=None,
                 variant=None, explicit=None, cfg=None, client_timeout=30):
    """Fork one manager process. Returns (events, info)."""
    preload()
    import time as _time
    _t0 = _time.time()
    e = dict(GOOD_ENV)
    needchg = "f"
    pin_file = None
    if start_env is not None:
        e, needchg = start_env
    elif not should:
        hows = ["not_onboarded", "uihb", "old_app", "boot_badpin", "boot_pinchange", "onb_err",
                "pin_file_empty", "pin_file_blank", "pin_file_garbage"]
        how = rng.choice(hows) if variant is None else hows[variant % len(hows)]
        if plat == "tcp" and how.startswith("pin_file"):
            how = "not_onboarded"       # the TCPSigner manager has no PIN
        if how == "not_onboarded":
            e["onb"] = "no"
        elif how == "uihb":
            e["mode1"] = "uihb"
        elif how == "old_app":
            e["appver"] = [5, 5, 0]
        elif how == "boot_badpin":
            e.update(mode1="boot", unlock="f")
        elif how == "boot_pinchange":
            e.update(mode1="boot")
            needchg = "t"
        elif how.startswith("pin_file"):
            # everything favourable (locked device that would accept the configured default PIN): only the PIN
            # file stands in the way - it exists but holds nothing usable, so no PIN may be sent at all
            e.update(mode1="boot")
            pin_file = {"pin_file_empty": b"", "pin_file_blank": b" \n\t \n", "pin_file_garbage": b"!! not a pin !!\n"}[how]
        else:
            e["onb"] = "err"
    else:
        if plat != "tcp" and rng.random() < 0.4:
            e.update(mode1="boot")       # starts locked: unlock, exit to the signer, then serve
    steps, lines_, labels = [], [], []
    given = list(client_lines or [])
    touches = []
    if explicit is not None:
        causes = [x[0] for x in explicit]
    for ci, c in enumerate(causes):
        if explicit is not None:
            _, line, step, label = explicit[ci]
            lines_.append(line)
            steps.append(step)
            labels.append(label)
            touches.append(True)
            continue
        touches.append(False)
        if c == "client" and given:
            label, line = given.pop(0)
            lines_.append(line)
            steps.append({})
            labels.append(label)
            continue
        line, step, label = concrete_step(c, rng, v1)
        lines_.append(line)
        steps.append(step)
        labels.append(label)
    plan = {"seed": rng.random(), "env": e, "needchg": needchg, "v1": v1, "reqs": steps, "plat": plat,
            "pin_file": None if pin_file is None else pin_file.hex(),
            "pin_path": os.path.join(scratch, "pin_%s.txt" % tag), "cfg": zlib.crc32(tag.encode()) % 4 if cfg is None else cfg}
    r, w = os.pipe()
    pid = os.fork()
    if pid == 0:
        code = 0
        try:
            os.close(r)
            _child(plan, w)
        except BaseException:   # noqa
            code = 3
        finally:
            os._exit(code)
    os.close(w)
    rf = os.fdopen(r, "rb")
    events = []
    port = None
    child_events = []

    def pump(until=None):
        while True:
            ln = rf.readline()
            if not ln:
                return None
            ev = json.loads(ln)
            child_events.append(ev)
            if until and ev["k"] in until:
                return ev
    first = pump(until=("start",))
    events.append({"k": "start", "should": bool(should)})
    ev = pump(until=("listening", "exit"))
    exited = ev is None or ev["k"] == "exit"
    if not exited:
        port = ev["port"]
        events.append({"k": "listening"})
    stopped = False
    hung = None
    for i, line in enumerate(lines_):
        if exited:
            break
        if stopped or hung is not None:
            break
        obs = client_request(port, line, timeout=client_timeout)
        if obs.pop("timed_out", False):
            # no answer in time: the single-threaded manager is still busy with this request and serves nobody
            # else meanwhile; the lifetime ends here (recorded as a request without a reply)
            hung = i
        obs.update(k="conn", cause={"unsafe": "linkfault", "unsafe!": "unsafe", "reconnfail": "linkfault"}.get(causes[i], causes[i]),
                   stopreq=False)
        events.append(obs)
        # did the manager decide to stop while handling this request? (the child says so before the
        # connection is closed, so the line is already in the pipe)
        os.set_blocking(rf.fileno(), False)
        try:
            while True:
                ln = rf.readline()
                if not ln:
                    break
                cev = json.loads(ln)
                child_events.append(cev)
                if cev["k"] == "stopreq":
                    obs["stopreq"] = True
                    stopped = True
                if cev["k"] == "repair":
                    obs["repair"] = True
                if cev["k"] == "reqend":
                    obs["unsafe"] = bool(cev["unsafe"]) and touches[i]
                if cev["k"] == "exit":
                    exited = True
        except (BlockingIOError, TypeError):
            pass
        finally:
            os.set_blocking(rf.fileno(), True)
    if stopped or exited:
        # wait for the process to end, then try once more
        pump(until=("exit",))
        _, status = os.waitpid(pid, 0)
        events.append({"k": "exit", "code": os.waitstatus_to_exitcode(status)})
        if port is not None:
            late = client_request(port, b'{"command":"version"}', timeout=3)
            late.update(k="conn", cause="client", stopreq=False)
            events.append(late)
    else:
        os.kill(pid, 9)
        os.waitpid(pid, 0)
    rf.close()
    full = []
    for ev in events:
        full.append({"k": ev["k"], "should": bool(ev.get("should", False)), "cause": ev.get("cause", "client"),
                     "connected": bool(ev.get("connected", True)), "onereply": bool(ev.get("onereply", True)),
                     "hascode": bool(ev.get("hascode", True)), "code": int(ev.get("code", 0)),
                     "stopreq": bool(ev.get("stopreq", False)), "unsafe": bool(ev.get("unsafe", False))})
    # a request during which the pending repair ran against a device that had become unsafe is
    # attributed to "unsafe" (what the environment did), whatever the request itself was
    pending_unsafe = False
    conn_idx = [j for j, ev in enumerate(events) if ev["k"] == "conn"]
    for i, c in enumerate(causes):
        if i >= len(conn_idx):
            break
        if pending_unsafe and events[conn_idx[i]].get("repair"):
            full[conn_idx[i]]["cause"] = "unsafe"
        if c == "unsafe":
            pending_unsafe = True
    return full, {"env": e, "needchg": needchg, "causes": causes, "labels": labels, "v1": v1, "plat": plat, "cfg": plan["cfg"], "hung_at": hung, "wall_s": round(_time.time() - _t0, 2), "tag": tag,
                  "child": [c for c in child_events if c["k"] != "start"][:8]}
