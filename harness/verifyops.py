"""C08 helper: from an abstract (attestation file, public-keys file, root of trust) triple to real files,
a run of the real `do_verify_attestation`, and the observation TLC judges (spec/TraceVerify.tla).

Nothing the oracle side uses comes from the repository: message layouts, offsets, the header texts and the
definition of the public-keys hash are written from docs/attestation.md (and checked against the samples
printed in that document, see `selftest`); certificates come from harness/certv1.py / certv2.py.

A *plan* is a JSON-able dict — the abstract input of spec/VerifyProps.tla with concrete path names:
    {"plat": "ledger"|"sgx", "args": "ok"|"nocert"|"nopub",
     "root": "right"|"wrong"|"malformed"|"malformed2", "certfile": "ok"|"bad",
     "file": {"kind": "ok"|"malformed", "ents": [[path name, key id], ...]},        (file order)
     "mh": {"enc": "unc"|"comp"|"none", "pre": [key id, ...]},   what the message's keys hash is a hash of
     "ui": {"exists","chain","hdr","key", <shape>} (ledger) , "pow": {"exists","chain","hdr", <shape>},
            <shape> = "sepc" (version separator: "dot" | member of SEP_TABLE | "na"), "len", "at", "m", "n",
            "tail": how the bytes deviate from the documented layout, content included (VerifyProps.tla)
     "targets": [role, ...]           the file's `targets` list (roles: device, attestation, ui, signer /
                                      ca, qe, att, quote); ui/pow "exists" = listed
     "brk": [role, ...]               elements that do not verify under their certifier; "chain" follows
     "plen": int                      sgx: elements on the quote's certification path (<= 5: a production
                                      shape is drawn, realise() records the real number); ledger: number
                                      of unrelated extra elements in the file
     "seed": int,                     everything left open by the classes is drawn from Random(seed)
     "variant": int (optional)}       ... except the listed alternatives (which foreign header, which link
                                      is corrupted how, how a file is malformed, ...): variant k takes the
                                      k-th of each list, so variants 0..N-1 of a plan cover every alternative
`realise(plan, dir, tag)` builds the files; `execute(real)` runs the command of the platform with stdout
captured and the network replaced; `trace_of(...)` is the record for TLC.
"""
import contextlib
import hashlib
import io
import json
import os
import random
import re
import types

from . import certv1, certv2

# ------------------------------------------------------------------------------------------------
# documented facts (docs/attestation.md)
# ------------------------------------------------------------------------------------------------
BTC_PATH = "m/44'/0'/0'/0/0"            # "the BIP32 path m/44'/0'/0'/0/0" of the UI-attested key
UI_PREFIX = b"HSM:UI:"                  # `HSM:UI:5.4`
POW_HEADER = b"POWHSM:5.4::"            # `POWHSM:5.4::`
LEG_PREFIX = b"HSM:SIGNER:"             # signer message of the versions before the powHSM message
UI_VERSIONS = ["5.4"] * 8 + ["5.3", "5.2", "5.1", "5.0", "4.0", "3.0", "2.1", "2.0"]
LEG_VERSIONS = ["5.3", "5.3", "5.2", "5.1", "5.0", "4.0", "3.0", "2.1", "2.0"]
UI_LEN, POW_LEN, LEG_LEN = 109, 127, 46


def path_order(names):
    """Path order: lexicographic on the UTF-8 encoded derivation path."""
    return sorted(names, key=lambda n: n.encode("utf-8"))


def keys_hash(pubs):
    return hashlib.sha256(b"".join(pubs)).digest()


def pack_ui(header, ud, pub33, signer_hash, iteration2):
    assert len(ud) == 32 and len(pub33) == 33 and len(signer_hash) == 32 and len(iteration2) == 2
    return header + ud + pub33 + signer_hash + iteration2


def pack_pow(header, platform, ud, kh, best_block, last_tx, ts8):
    assert len(platform) == 3 and len(ud) == 32 and len(kh) == 32 and len(best_block) == 32
    assert len(last_tx) == 8 and len(ts8) == 8
    return header + platform + ud + kh + best_block + last_tx + ts8


# path names, by position relative to BTC_PATH (asserted below with a plain byte comparison)
BELOW = ["m/0'/0/0", "m/43'/0'/0'/0/0", "m/44'/0'/0'/0", "M/44'/0'/0'/0/0", "btc", "44'/0'/0'/0/0"]
EXT = [BTC_PATH + "/0", BTC_PATH + "'", BTC_PATH + " ", BTC_PATH + "/1'"]
ABOVE = ["m/44'/0'/0'/0/1", "m/44'/0'/0'/1/0", "m/44'/0'/1'/0/0", "m/44'/1'/0'/0/0", "m/44'/1'/1'/0/0",
         "m/44'/1'/2'/0/0", "m/44'/137'/0'/0/0", "m/44'/137'/1'/0/0", "m/44'/2'/0'/0/0",
         "m/44'/60'/0'/0/0", "m/45'/0'/0'/0/0", "m/49'/0'/0'/0/0", "m/84'/0'/0'/0/0", "n/0", "rsk",
         "tbtc", "é/0"]
STANDARD = ["m/44'/1'/0'/0/0", "m/44'/1'/1'/0/0", "m/44'/1'/2'/0/0", "m/44'/137'/0'/0/0",
            "m/44'/137'/1'/0/0"]
_b = BTC_PATH.encode()
assert all(p.encode() < _b for p in BELOW)
assert all(_b < p.encode() < ABOVE[0].encode() for p in EXT)
assert [p.encode() for p in ABOVE] == sorted(p.encode() for p in ABOVE) and ABOVE[0].encode() > _b


# ------------------------------------------------------------------------------------------------
# known answers printed in docs/attestation.md
# ------------------------------------------------------------------------------------------------
_DOC_LEDGER_KEYS = [
    ("m/44'/0'/0'/0/0", "0254464d36eaa08a2c31a80eb902e7400563f403c85ef51dd73aaadb57967b61e8"),
    ("m/44'/1'/0'/0/0", "02a7171ba5fcdf9ae8a32b733cbe748b6007b4633939ba1c8baca074e9358a281a"),
    ("m/44'/1'/1'/0/0", "022e777db5856568da55947c1a60df4ec28b8fb27ea182de54575b3aadc4559932"),
    ("m/44'/1'/2'/0/0", "0307455520c1b365436741c98ddc987c8ed7adddf67b8b69e5763f930c0131727e"),
    ("m/44'/137'/0'/0/0", "02ecdf31ca81e7c5a2949dad38536676eee2647ec2e41c0771cd4e918b5c2fc4f8"),
    ("m/44'/137'/1'/0/0", "0345ac500d260c1f6794b21fad8acce66548fee7a463befd5a0ec5bb73b9ae4df1")]
_DOC_LEDGER_HASH = "72237ee55064aebd5ab13d179c61bfb41c5b1d2ed7e018f8de46a7262c8cf1ec"
_DOC_SGX_CUSTOM = ("504f5748534d3a352e343a3a7367788d5dbf3ca886a9d849228e154693cdbab15d109f6327a71b5ef5860a9b"
                   "828bef0c4d091913d39750dc8975adbdd261bd10c1c2e110faa47cfbe30e740895552bbdcb3c17c7aee714ce"
                   "c8ad900341bfd987b452280220dcbd6e7191f67ea4209b00000000000000000000000000000000")
_DOC_SGX_HASH = "0c4d091913d39750dc8975adbdd261bd10c1c2e110faa47cfbe30e740895552b"
_DOC_SIGNER_MSG = ("504f5748534d3a352e343a3a6c656413c3581aa97c8169d3994e9369c11ebd63bcf123d0671634f21b568983d3"
                   "291687fd9b1f4aa83e348906e2efd6cbed98e39d17aea4c03d73f30e99d602d67633bdcb3c17c7aee714cec8"
                   "ad900341bfd987b452280220dcbd6e7191f67ea4209b659a04529d6811dd0000000000000000")
_DOC_UI_MSG = ("48534d3a55493a332e30c4207b260c5b6964190568e528ec0b212a70e512ed6bdcef5e192362852a383903198eb6"
               "0255fefc3478d0a78c11f5124c938f66fdaa62f9e9c543c6ced031ef37e1baa18564fc0c2c70ac4019609c6db643"
               "adbf12711c8b319f838e6a74b0da2c0001")


def _uncompress(hex33):
    pc = certv1.point_class(bytes.fromhex(hex33))
    assert pc[0] == "point"
    return b"\x04" + pc[1].to_bytes(32, "big") + pc[2].to_bytes(32, "big")


def selftest():
    """The oracle's layouts and hash definition reproduce the examples of docs/attestation.md."""
    by = dict(_DOC_LEDGER_KEYS)
    h = keys_hash([_uncompress(by[p]) for p in path_order(list(by))])
    if h.hex() != _DOC_LEDGER_HASH:
        return "public-keys hash (uncompressed, path order) does not reproduce the documented example"
    m = bytes.fromhex(_DOC_SGX_CUSTOM)
    if len(m) != POW_LEN or m[:12] != POW_HEADER or m[12:15] != b"sgx" or m[47:79].hex() != _DOC_SGX_HASH:
        return "documented powHSM message sample does not fit the documented layout"
    m = bytes.fromhex(_DOC_SIGNER_MSG)
    if len(m) != POW_LEN or m[12:15] != b"led" or m[15:47].hex()[:8] != "13c3581a" or \
            m[79:111].hex()[:8] != "bdcb3c17" or m[111:119].hex() != "659a04529d6811dd" or m[119:] != bytes(8):
        return "documented signer message sample does not fit the documented layout"
    m = bytes.fromhex(_DOC_UI_MSG)
    if len(m) != UI_LEN or m[:10] != b"HSM:UI:3.0" or m[42] not in (2, 3) or m[107:] != b"\x00\x01":
        return "documented UI message sample does not fit the documented layout"
    certv2.self_test()
    return None


# ------------------------------------------------------------------------------------------------
# header / length classes -> bytes
# ------------------------------------------------------------------------------------------------
def _digit(b):
    return 48 <= b <= 57


def ui_shape(m):
    return len(m) >= 10 and m[:7] == UI_PREFIX and _digit(m[7]) and _digit(m[9])


def pow_shape(m):
    return len(m) >= 12 and m[:7] == b"POWHSM:" and _digit(m[7]) and _digit(m[9]) and m[10:12] == b"::"


def leg_shape(m):
    return len(m) >= 14 and m[:11] == LEG_PREFIX and _digit(m[11]) and _digit(m[13])


# boundary members (the same tables as ExtTable / SepTable of spec/VerifyProps.tla, which checks them
# against the signed bytes of every trace): byte strings on which acceptance might depend
EXT_TABLE = {"lf": b"\n", "cr": b"\r", "crlf": b"\r\n", "lflf": b"\n\n", "nul": b"\x00", "sp": b" ",
             "tab": b"\t", "vt": b"\x0b", "ff": b"\x0c", "fs": b"\x1c", "nel": b"\x85", "nbsp": b"\xa0"}
SEP_TABLE = {"x": b"x", "colon": b":", "dash": b"-", "under": b"_", "comma": b",", "slash": b"/", "zero": b"0",
             "lf": b"\n", "cr": b"\r", "nul": b"\x00", "sp": b" ", "tab": b"\t", "nel": b"\x85"}
BOUNDARY = {10, 13, 0, 32, 9, 11, 12, 28, 133, 160}
EXT_MEMBERS = list(EXT_TABLE) + ["rand1", "randn"]
TAIL1 = [m for m in EXT_TABLE if len(EXT_TABLE[m]) == 1]
PLAIN = {"sepc": "dot", "len": "exact", "at": "none", "m": "na", "n": 0, "tail": "any"}


def sep_byte(t):
    return b"." if t.get("sepc", "dot") in ("dot", "na") else SEP_TABLE[t["sepc"]]


UI_FOREIGN = [b"HSM:UJ:5.4", b"HSM:UI;5.4", b"hsm:ui:5.4", b"XSM:UI:5.4", b"HSM:UI:a.4", b"HSM:UI:5.a",
              b"HSM-UI:5.4", b"POWHSM:5.4", b"HSM:SI:5.4", b" HSM:UI:5."]
POW_FOREIGN = [b"P0WHSM:5.4::", b"POWHSM:5.4:;", b"POWHSM:5.4;:", b"POWHSN:5.4::", b"powhsm:5.4::",
               b"POWHSM:a.4::", b"POWHSM:5.b::", b"POWHSM;5.4::", b"HSM:UI:5.4::", b" POWHSM:5.4:"]
LEG_FOREIGN = [b"HSM:SIGNES:5.3", b"HSM:SIGNER;5.3", b"hsm:signer:5.3", b"HSM:SIGNER:a.3", b"HSM:SIGNER:5.c",
               b"HSM:SIGMER:5.3", b"XSM:SIGNER:5.3"]


_variant = None      # set by realise(): plan["variant"] makes every listed sub-choice cycle deterministically


def _pick(rr, options):
    """Seeded random member of `options`, or, when the plan carries a variant number, the member that
    number selects (so that `len(options)` variants of one plan go through all of them)."""
    options = list(options)
    if _variant is not None:
        return options[_variant % len(options)]
    return rr.choice(options)


def ui_header(t, rr):
    if t["hdr"] in ("ok", "sep"):
        v = rr.choice(UI_VERSIONS)
        return UI_PREFIX + v[0].encode() + sep_byte(t) + v[2].encode()
    h = _pick(rr, UI_FOREIGN + [None])
    while h is None or ui_shape(h):
        h = rr.randbytes(10)
    return h


def pow_header(t, rr, plat):
    """-> (header bytes, body format "pow" | "leg")."""
    cls = t["hdr"]
    if cls in ("current", "sep"):
        return b"POWHSM:5" + sep_byte(t) + b"4::", "pow"
    if cls in ("legacy", "sepleg"):
        v = rr.choice(LEG_VERSIONS)
        return LEG_PREFIX + v[0].encode() + sep_byte(t) + v[2].encode(), "leg"
    cands = [(h, "pow") for h in POW_FOREIGN] + [(None, "pow")]
    if plat == "ledger":
        cands += [(h, "leg") for h in LEG_FOREIGN] + [(None, "leg")]
    h, fmt = _pick(rr, cands)
    while h is None or pow_shape(h) or leg_shape(h):
        h = rr.randbytes(12 if fmt == "pow" else 14)
    return h, fmt


def apply_shape(msg, hdr_len, t, rr):
    """The documented message `msg` with the deviation of its length that t declares; t["n"] is set to
    the number of bytes actually cut / added."""
    at = t.get("at", "none")
    if at == "cut":
        t["n"] = max(1, min(int(t["n"]), len(msg) - hdr_len))
        return msg[:len(msg) - t["n"]]
    if at in ("suffix", "prefix"):
        m = t["m"]
        if m in EXT_TABLE:
            add = EXT_TABLE[m]
        elif m == "rand1":
            add = bytes([rr.choice([b for b in range(256) if b not in BOUNDARY])])
        else:
            add = rr.randbytes(max(2, int(t["n"])))
        t["n"] = len(add)
        return msg + add if at == "suffix" else add + msg
    return msg


def with_tail(msg, t):
    """A documented-length message whose last bytes are the member t["tail"]."""
    if t.get("tail", "any") in EXT_TABLE:
        b = EXT_TABLE[t["tail"]]
        return msg[:len(msg) - len(b)] + b
    return msg


# ------------------------------------------------------------------------------------------------
# realisation
# ------------------------------------------------------------------------------------------------
class Real:
    """Concrete files + oracle data of one plan."""
    def __init__(self):
        self.options = None
        self.urls = {}          # url -> (status, bytes) served instead of the network
        self.signed = {"ui": b"", "uitweak": b"", "pow": b"", "powtweak": b"", "quote": b""}
        self.k33 = []
        self.sub = {}
        self.plan = None


def _garbage_json(rr):
    return rr.choice(["", "{", "not json at all", "[1, 2", "{\"version\": 1,", "\x00\x01\x02"])


def _write(path, text, binary=False):
    with open(path, "wb" if binary else "w") as f:
        f.write(text)


def _pubkeys_file(plan, keys, path, rr, sub):
    f = plan["file"]
    if f["kind"] == "ok":
        spell = _pick(rr, ("unc", "unc", "comp", "unc", "mixed", "unc"))
        obj = {}
        for (name, kid) in f["ents"]:
            comp = spell == "comp" or (spell == "mixed" and rr.random() < 0.5)
            h = (keys[kid].pub33 if comp else keys[kid].pub65).hex()
            obj[name] = h.upper() if rr.random() < 0.1 else h
        sub["keys_spelled"] = spell
        _write(path, json.dumps(obj, indent=rr.choice((None, 2, 2)), ensure_ascii=rr.random() < 0.8) + "\n")
        return path
    good = {name: keys[kid].pub65.hex() for (name, kid) in f["ents"]} or \
        {BTC_PATH: certv1.new_key(rr).pub65.hex()}
    first = next(iter(good))
    kind = _pick(rr, ("garbage", "list", "string", "nothex", "notpoint", "number", "null", "missing",
                      "truncated", "directory"))
    sub["file_malformed"] = kind
    if kind == "garbage":
        _write(path, _garbage_json(rr))
    elif kind == "list":
        _write(path, json.dumps(list(good.values())))
    elif kind == "string":
        _write(path, json.dumps(first))
    elif kind == "nothex":
        good[first] = "zz" + good[first][2:]
        _write(path, json.dumps(good))
    elif kind == "notpoint":
        while True:
            cand = b"\x04" + rr.randbytes(64)
            if certv1.point_class(cand)[0] == "bad":
                break
        good[first] = cand.hex()
        _write(path, json.dumps(good))
    elif kind == "number":
        good[first] = 4
        _write(path, json.dumps(good))
    elif kind == "null":
        good[first] = None
        _write(path, json.dumps(good))
    elif kind == "truncated":
        _write(path, json.dumps(good)[:-rr.randrange(1, 40)])
    elif kind == "directory":
        os.makedirs(path, exist_ok=True)
    # "missing": nothing is written
    return path


def _bad_certfile(path, rr, sub, good_cert):
    kind = _pick(rr, ("garbage", "list", "version", "noelements", "notargets", "ghost_target", "nosig",
                      "missing"))
    sub["certfile_bad"] = kind
    c = json.loads(json.dumps(good_cert))
    if kind == "garbage":
        _write(path, _garbage_json(rr))
        return
    if kind == "missing":
        return
    if kind == "list":
        c = [c]
    elif kind == "version":
        c["version"] = rr.choice((0, 3, "1", None))
    elif kind == "noelements":
        del c["elements"]
    elif kind == "notargets":
        c["targets"] = "ui"
    elif kind == "ghost_target":
        c["targets"] = list(c["targets"]) + ["nobody"]
    elif kind == "nosig":
        for e in c["elements"]:
            if "signature" in e:
                del e["signature"]
                break
    _write(path, json.dumps(c))


def _mh_bytes(plan, keys, rr):
    mh = plan["mh"]
    if mh["enc"] == "none":
        return rr.randbytes(32)
    return keys_hash([(keys[k].pub65 if mh["enc"] == "unc" else keys[k].pub33) for k in mh["pre"]])


def _timestamp(rr):
    x = rr.random()
    if x < 0.4:
        return bytes(8)
    if x < 0.6:
        return (rr.randrange(1, 2 ** 32)).to_bytes(8, "big")
    if x < 0.7:
        return b"\xff" * 8
    return rr.randbytes(8)


def _pow_message(plan, keys, rr, sub):
    t = plan["pow"]
    hdr, fmt = pow_header(t, rr, plan["plat"])
    kh = _mh_bytes(plan, keys, rr)
    if fmt == "leg":
        if t["hdr"] == "foreign":
            t["tail"] = "any"               # only a genuine legacy message gets its hash ground (realise)
        elif t["tail"] in EXT_TABLE and plan["mh"]["enc"] == "none":
            kh = kh[:31] + EXT_TABLE[t["tail"]]
        msg = hdr + kh
    else:
        platform = b"led" if plan["plat"] == "ledger" else b"sgx"
        msg = with_tail(pack_pow(hdr, platform, rr.randbytes(32), kh, rr.randbytes(32), rr.randbytes(8),
                                 _timestamp(rr)), t)
    msg = apply_shape(msg, len(hdr), t, rr)
    sub["pow_header"] = hdr.hex()
    sub["pow_len"] = len(msg)
    return msg


def _grind_legacy_tail(plan, keys, rr):
    """A genuine legacy signer message ENDS with its keys hash: to make it end in a given byte, the last
    key that goes into the hash is re-drawn until SHA-256 does (about 256 draws; libsecp256k1 derives the
    candidate public keys).  Returns False when there is nothing to grind on."""
    import secp256k1
    t, mh = plan["pow"], plan["mh"]
    want = EXT_TABLE[t["tail"]]
    if len(want) != 1 or not mh["pre"]:
        return False
    kid = mh["pre"][-1]
    comp = mh["enc"] == "comp"
    def enc(k):
        return k.pub33 if comp else k.pub65
    parts = [enc(keys[k]) for k in mh["pre"]]
    idx = [i for i, k in enumerate(mh["pre"]) if k == kid]
    for _ in range(20000):
        d = rr.randrange(1, certv1.N)
        pub = secp256k1.PrivateKey(d.to_bytes(32, "big"), raw=True).pubkey.serialize(compressed=comp)
        for i in idx:
            parts[i] = pub
        if hashlib.sha256(b"".join(parts)).digest()[-1:] == want:
            keys[kid] = certv1.Key(d)
            assert enc(keys[kid]) == pub
            return True
    return False


LEAF_BREAKS = ["sig_flip", "msg_flip", "tweak_flip", "tweak_remove", "sig_other_key"]
# one real corruption that makes exactly this element fail under its certifier
ELEMENT_BREAKS = {"device": ["sig_other_key", "sig_flip", "msg_flip_other", "msg_flip_key"],
                  "attestation": ["sig_other_key", "sig_flip", "msg_flip_other", "msg_flip_key"],
                  "ui": LEAF_BREAKS, "signer": LEAF_BREAKS}
LEDGER_ROLES = ("device", "attestation", "ui", "signer")
SGX_ROLES = ("ca", "mid", "qe", "att", "quote")
LEDGER_PATH = {"device": {"device"}, "attestation": {"device", "attestation"},
               "ui": {"device", "attestation", "ui"}, "signer": {"device", "attestation", "signer"}}
SGX_PATH = {"ca": {"ca"}, "mid": {"ca", "mid"}, "qe": {"ca", "mid", "qe"}, "att": {"ca", "mid", "qe", "att"},
            "quote": {"ca", "mid", "qe", "att", "quote"}}
SCALE = {"ledger": (250, 300), "sgx": (255, 256, 257, 258, 300, 400)}


def sync(plan):
    """exists / chain of the required targets follow from the targets list and the broken elements."""
    led = plan["plat"] == "ledger"
    order = LEDGER_ROLES if led else SGX_ROLES
    path = LEDGER_PATH if led else SGX_PATH
    plan["brk"] = [r for r in order if r in set(plan.get("brk", []))]
    plan.setdefault("targets", ["ui", "signer"] if led else ["quote"])
    plan.setdefault("plen", 0 if led else 5)
    plan.setdefault("embed", "none")
    plan.setdefault("ename", "na")
    if led or plan["embed"] == "none":
        plan["embed"], plan["ename"] = "none", "na"
    for t, role in ((plan["ui"], "ui"), (plan["pow"], "signer")) if led else ((plan["pow"], "quote"),):
        t["exists"] = "t" if role in plan["targets"] else "f"
        t["chain"] = "broken" if path[role] & set(plan["brk"]) else "intact"
    return plan


_JUNK = []


def _junk_elements(n):
    """n well-formed, properly signed version-1 elements of unrelated chains (a pool built once per
    process; the file keeps them in front of the genuine elements, whose names they share)."""
    if len(_JUNK) < n:
        r = random.Random(len(_JUNK) + 12345)
        while len(_JUNK) < n:
            spec = {"targets": [], "elements": [
                {"name": "device", "signed_by": "root"}, {"name": "attestation", "signed_by": "device"},
                {"name": "ui", "signed_by": "attestation", "tweak": "random", "message": r.randbytes(109)},
                {"name": "signer", "signed_by": "attestation", "tweak": "random", "message": r.randbytes(127)}]}
            _JUNK.extend(certv1.build(spec, r, backend="libsecp").cert["elements"])
    return json.loads(json.dumps(_JUNK[:n]))


def _ledger_chain(rr, ui_msg, pow_msg, with_ui=True, with_signer=True):
    els = [{"name": "attestation", "signed_by": "device"}, {"name": "device", "signed_by": "root"}]
    if with_ui:
        els.append({"name": "ui", "signed_by": "attestation", "tweak": "random", "message": ui_msg})
    if with_signer:
        els.append({"name": "signer", "signed_by": "attestation", "tweak": "random", "message": pow_msg})
    rr.shuffle(els)
    return certv1.build({"targets": [], "elements": els}, rr)


def _realise_ledger(plan, keys, directory, tag, rr, real):
    sub = real.sub
    ui, pw = plan["ui"], plan["pow"]
    ui_msg = pack_ui(ui_header(ui, rr), rr.randbytes(32), keys[ui["key"]].pub33, rr.randbytes(32),
                     rr.choice((b"\x00\x01", b"\x00\x00", b"\xff\xff", b"\x01\x00", rr.randbytes(2))))
    ui_msg = apply_shape(with_tail(ui_msg, ui), 10, ui, rr)
    pow_msg = _pow_message(plan, keys, rr, sub)
    sub["ui_header"] = ui_msg[:12].hex()
    sub["ui_len"] = len(ui_msg)
    other_platform = not plan["targets"] and rr.random() < 0.25
    drop_ui = ui["exists"] == "f" and rr.random() < 0.5
    drop_signer = pw["exists"] == "f" and rr.random() < 0.5
    ch = _ledger_chain(rr, ui_msg, pow_msg, not drop_ui, not drop_signer)
    ch.cert["targets"] = list(plan["targets"])
    real.signed["ui"], real.signed["pow"] = ui_msg, pow_msg
    for e in ch.cert["elements"]:
        if e["name"] == "ui":
            real.signed["uitweak"] = bytes.fromhex(e["tweak"])
        if e["name"] == "signer":
            real.signed["powtweak"] = bytes.fromhex(e["tweak"])
    # broken links: one real corruption per element of plan["brk"]
    brk = [r for r in plan["brk"] if not (r == "ui" and drop_ui) and not (r == "signer" and drop_signer)]
    breaks = []
    if brk == ["ui", "signer"]:
        how = _pick(rr, ("each", "key_subst", "each", "sig_swap"))
        if how == "key_subst":          # the attestation element verifies, what it certified no longer does
            breaks, brk = [("key_subst", "attestation")], []
        elif how == "sig_swap":
            breaks, brk = [("sig_swap", ("ui", "signer"))], []
    for r in brk:
        breaks.append((_pick(rr, ELEMENT_BREAKS[r]), r))
    for kind, where in breaks:
        ch.corrupt(kind, where, rr)
    sub["breaks"] = [[k, w] for k, w in breaks]
    # root of trust
    if plan["root"] == "right":
        root = ch.root_hex.upper() if rr.random() < 0.15 else ch.root_hex
    elif plan["root"] == "wrong":
        # (the stranger "x" may have re-signed the device element: under x as root that chain would be
        #  genuinely valid, so x is not offered as the wrong root then)
        stranger = certv1.new_key(rr).hex if ("sig_other_key", "device") in breaks else ch.keys["x"].hex
        root = _pick(rr, (stranger, certv1.new_key(rr).hex, None, ch.keys["device"].hex,
                          ch.keys["attestation"].hex))
    elif plan["root"] == "malformed":
        root = _pick(rr, ("", "zz", "0x" + ch.root_hex, ch.root_hex[:-1], ch.root_hex[:-2] + "gg", "root"))
    else:
        while True:
            cand = b"\x04" + rr.randbytes(64)
            if certv1.point_class(cand)[0] == "bad":
                break
        root = _pick(rr, (cand.hex(), rr.randbytes(10).hex(), "05" + ch.root_hex[2:66], ch.root_hex[2:],
                          ch.root_hex + "00"))
    sub["root"] = root
    cert = ch.cert
    if plan["plen"] > 0:                    # unrelated elements ahead of the genuine ones (which win by name)
        cert["elements"] = _junk_elements(plan["plen"]) + cert["elements"]
    if other_platform:
        spec = certv2.default_spec(2)
        spec["quote"]["custom_data"] = pow_msg
        cert, _pem, _mat = certv2.build(spec, rr)
        sub["certificate"] = "version 2 (sgx)"
    cpath = os.path.join(directory, "%s_cert.json" % tag)
    if plan["certfile"] == "ok":
        _write(cpath, json.dumps(cert, indent=rr.choice((None, 2))))
    else:
        _bad_certfile(cpath, rr, sub, cert)
    return cpath, root


SGX_ELEMENT_BREAKS = {"ca": ["x509_sig", "x509_expired", "x509_notyet"],
                      "mid": ["x509_sig", "x509_expired", "x509_notyet"],
                      "qe": ["x509_sig", "x509_expired", "x509_notyet"],
                      "att": ["att_sig", "att_bind", "reparent"],
                      "quote": ["quote_sig", "quote_bind", "custom_flip", "quote_flip"]}


def _expired_root(rr, mat, same_key=False):
    """A self-signed certificate outside its validity period (over the genuine root key if same_key)."""
    k = mat["keys"][certv2.ROOT_NAME] if same_key else certv2.Key("P256")
    cn = "verif expired root %d" % rr.getrandbits(32)
    return certv2.der_to_pem(certv2.make_x509(cn, k, cn, k, rr.choice(("Expired", "NotYet")), mat["now"], rr))


def _realise_sgx(plan, keys, directory, tag, rr, real):
    sub = real.sub
    pw = plan["pow"]
    pow_msg = _pow_message(plan, keys, rr, sub)
    named = set(plan["brk"]) | set(plan["targets"])
    if plan["plen"] > 5:                    # at scale: plen - 2 X.509 elements above the attestation key
        depth = plan["plen"] - 2
    elif "mid" in named:
        depth = 3
    else:
        depth = rr.choice((2, 2, 3)) if named & {"ca", "qe"} else rr.choice((1, 2, 2, 2, 3))
    plan["plen"] = depth + 2
    sub["x509_elements"] = depth
    spec = certv2.default_spec(depth)
    spec["quote"]["custom_data"] = pow_msg
    spec["shuffle"] = rr.random() < 0.3
    spec["pem_newlines"] = rr.random() < 0.3
    post = None
    sub["breaks"] = []
    for role in plan["brk"]:
        kind = _pick(rr, SGX_ELEMENT_BREAKS[role])
        sub["breaks"].append([kind, role])
        i = {"ca": 0, "mid": depth // 2, "qe": depth - 1}.get(role, 0)
        if kind == "x509_expired":
            spec["x509"][i]["time"] = "Expired"
        elif kind == "x509_notyet":
            spec["x509"][i]["time"] = "NotYet"
        elif kind == "x509_sig":
            spec["x509"][i]["sig"] = "other"
        elif kind == "att_sig":
            spec["attkey"]["sig"] = "other"
        elif kind == "att_bind":
            spec["attkey"]["bind"] = rr.choice(("noauth", "misplaced", "otherkey", "random"))
        elif kind == "quote_sig":
            spec["quote"]["sig"] = "other"
        elif kind == "quote_bind":
            spec["quote"]["bind"] = rr.choice(("misplaced", "otherdata", "random", "truncated"))
        elif kind == "reparent":
            spec["reparent"] = {"attestation": certv2.ROOT_NAME}
        else:
            post = kind
    cert, _root_pem, mat = certv2.build(spec, rr)
    if post == "custom_flip":
        cert = certv2.corrupt(cert, "quote", "custom_data", rr.randrange(len(pow_msg)), 1 << rr.randrange(8))
    elif post == "quote_flip":
        cert = certv2.corrupt(cert, "quote", "message", rr.randrange(certv2.QUOTE_SIZE), 1 << rr.randrange(8))
    real.signed["pow"] = pow_msg
    real.signed["quote"] = mat["quote"]["message"]
    names = {"ca": mat["names"]["x509"][0], "mid": mat["names"]["x509"][depth // 2],
             "qe": mat["names"]["x509"][-1], "att": mat["names"]["attkey"],
             "quote": mat["names"]["quote"]}
    cert["targets"] = [names[r] for r in plan["targets"]]
    sub["targets"] = cert["targets"]
    if not plan["targets"] and rr.random() < 0.25:
        sub["certificate"] = "version 1 (ledger)"
        k = certv1.new_key(rr)
        ch = _ledger_chain(rr, pack_ui(UI_PREFIX + b"5.4", rr.randbytes(32), k.pub33, rr.randbytes(32),
                                       b"\x00\x01"), pow_msg)
        ch.cert["targets"] = ["ui", "signer"]
        cert = ch.cert
    # root of trust
    roots = mat["root_pem"]
    if plan["root"] == "right":
        pem = roots["right"]
    elif plan["root"] == "wrong":
        pem = roots["fresh"]
    elif plan["root"] == "malformed":
        pem = None
    else:
        # parsed, but not a valid self-signed certificate: somebody else's signature on it, outside its
        # validity period (also over the genuine root key: the chain below it would verify), or a
        # self-signature that does not verify
        kind = _pick(rr, ("top", "expired", "expired_samekey", "selfsig_corrupt", "expired_samekey"))
        sub["root_malformed2"] = kind
        if kind == "top":
            pem = roots["top"]
        elif kind == "expired":
            pem = _expired_root(rr, mat)
        elif kind == "expired_samekey":
            pem = _expired_root(rr, mat, same_key=True)
        else:
            der = mat["der"][certv2.ROOT_NAME]
            regs = certv2.der_regions(der)
            pem = None
            for _try in range(50):
                pos = len(der) - 1 - rr.randrange(24)          # inside the integer s of the signature
                if certv2.region_of(regs, pos) == "sig":
                    b = bytearray(der)
                    b[pos] ^= 1 << rr.randrange(8)
                    pem = certv2.der_to_pem(bytes(b))
                    break
            if pem is None:
                sub["root_malformed2"] = "expired_samekey"
                pem = _expired_root(rr, mat, same_key=True)
    if plan["embed"] != "none":
        # the file carries a self-signed CA as an x509 element of its own, under the reserved name or nearly
        if plan["embed"] == "chosenroot" and plan["root"] not in ("right", "wrong"):
            plan["embed"] = "chainroot"             # there is no usable chosen root to embed
        body = roots["right"] if plan["embed"] == "chainroot" or plan["root"] == "right" else roots["fresh"]
        body = "".join(ln for ln in body.splitlines() if ln and not ln.startswith("-----"))
        name = certv2.ROOT_NAME if plan["ename"] == "sgx_root" else \
            _pick(rr, ("sgx_root ", "SGX_ROOT", "sgx_root2", "sgxroot", "root", " sgx_root"))
        if isinstance(cert.get("elements"), list) and cert.get("version") == 2:
            cert["elements"].insert(rr.randrange(len(cert["elements"]) + 1),
                                    {"name": name, "type": "x509_pem", "message": body,
                                     "signed_by": certv2.ROOT_NAME})
        sub["embedded"] = [name, plan["embed"]]
    rpath = os.path.join(directory, "%s_root.pem" % tag)
    if pem is not None:
        via = _pick(rr, ("file", "url", "default_url", "file"))
        sub["root_via"] = via
        if rr.random() < 0.2:
            pem = pem.replace("\n", "\r\n")
        if via == "file":
            _write(rpath, pem)
            root = rpath
        elif via == "url":
            root = "https://roots.verif.invalid/%s.pem" % tag
            real.urls[root] = (200, pem.encode())
        else:
            root = None
            real.urls["DEFAULT"] = (200, pem.encode())
    else:
        kind = _pick(rr, ("garbage_file", "empty_file", "truncated_pem", "missing_file", "http_404",
                          "http_garbage", "der_not_cert", "default_unreachable"))
        sub["root_malformed"] = kind
        root = rpath
        good = roots["right"]
        if kind == "garbage_file":
            _write(rpath, "this is not a certificate\n")
        elif kind == "empty_file":
            _write(rpath, "")
        elif kind == "truncated_pem":
            _write(rpath, good[:len(good) // 2])
        elif kind == "der_not_cert":
            _write(rpath, "-----BEGIN CERTIFICATE-----\n%s\n-----END CERTIFICATE-----\n" %
                   certv2.der_to_b64(rr.randbytes(200)))
        elif kind == "missing_file":
            pass                                  # not a file -> treated as a URL -> unreachable
        elif kind == "http_404":
            root = "https://roots.verif.invalid/%s.pem" % tag
            real.urls[root] = (404, good.encode())
        elif kind == "http_garbage":
            root = "https://roots.verif.invalid/%s.pem" % tag
            real.urls[root] = (200, b"<html>nothing here</html>")
        else:
            root = None                           # the default URL, and there is no network
    cpath = os.path.join(directory, "%s_cert.json" % tag)
    if plan["certfile"] == "ok":
        _write(cpath, json.dumps(cert, indent=rr.choice((None, 2))))
    else:
        _bad_certfile(cpath, rr, sub, cert)
    return cpath, root


def realise(plan, directory, tag):
    global _variant
    _variant = plan.get("variant")
    rr = random.Random(plan["seed"])
    plan = json.loads(json.dumps(plan))          # private copy: "n" / "tail" record what was really built
    for t in (plan["ui"], plan["pow"]):
        for k, v in PLAIN.items():
            t.setdefault(k, v)
    if "targets" not in plan:           # plans written before the targets list / brk became explicit
        led = plan["plat"] == "ledger"
        plan["targets"] = [r for r, t in ((("ui", plan["ui"]), ("signer", plan["pow"])) if led
                                          else (("quote", plan["pow"]),)) if t["exists"] == "t"]
        plan["brk"] = [r for r, t in ((("ui", plan["ui"]), ("signer", plan["pow"])) if led
                                      else (("quote", plan["pow"]),)) if t["chain"] == "broken"]
    sync(plan)
    real = Real()
    real.plan = plan
    ids = {k for (_n, k) in plan["file"]["ents"]} | set(plan["mh"]["pre"]) | {1}
    if plan["plat"] == "ledger":
        ids.add(plan["ui"]["key"])
    keys = {i: certv1.new_key(rr) for i in range(1, max(ids) + 1)}
    t = plan["pow"]
    if t["tail"] in EXT_TABLE and t["hdr"] in ("legacy", "sepleg") and plan["mh"]["enc"] != "none":
        if not _grind_legacy_tail(plan, keys, rr):
            t["tail"] = "any"
    real.k33 = [keys[i].pub33 for i in range(1, max(ids) + 1)]
    ppath = os.path.join(directory, "%s_pubkeys.json" % tag)
    _pubkeys_file(plan, keys, ppath, rr, real.sub)
    if plan["plat"] == "ledger":
        cpath, root = _realise_ledger(plan, keys, directory, tag, rr, real)
    else:
        cpath, root = _realise_sgx(plan, keys, directory, tag, rr, real)
    real.options = types.SimpleNamespace(
        attestation_certificate_file_path=None if plan["args"] == "nocert" else cpath,
        pubkeys_file_path=None if plan["args"] == "nopub" else ppath,
        root_authority=root)
    real.paths = [cpath, ppath, os.path.join(directory, "%s_root.pem" % tag)]
    return real


def cleanup(real):
    for p in real.paths:
        try:
            if os.path.isdir(p):
                os.rmdir(p)
            else:
                os.remove(p)
        except OSError:
            pass


# ------------------------------------------------------------------------------------------------
# running the real command
# ------------------------------------------------------------------------------------------------
class _Response:
    def __init__(self, status, content):
        self.status_code = status
        self.content = content
        self.text = content.decode(errors="replace")


class _NoNetwork:
    """Stands where `requests` stands in admin.attestation_utils: serves the plan's URLs, refuses the rest."""
    def __init__(self, urls, default_url):
        self.urls = dict(urls)
        if "DEFAULT" in self.urls:
            self.urls[default_url] = self.urls.pop("DEFAULT")
        self.asked = []

    def get(self, url, *a, **kw):
        self.asked.append(url)
        if url in self.urls:
            return _Response(*self.urls[url])
        raise ConnectionError("no network in the verification sandbox: %s" % (url,))


def execute(real):
    """-> (outcome "return"|"error", error kind, error text, captured stdout)."""
    import admin.attestation_utils as au
    from admin.misc import AdminError
    if real.plan["plat"] == "ledger":
        import admin.verify_ledger_attestation as mod
    else:
        import admin.verify_sgx_attestation as mod
    buf = io.StringIO()
    saved = au.requests
    au.requests = _NoNetwork(real.urls, getattr(mod, "DEFAULT_ROOT_AUTHORITY", ""))
    try:
        with contextlib.redirect_stdout(buf):
            try:
                mod.do_verify_attestation(real.options)
                res = ("return", "", "")
            except AdminError as e:
                res = ("error", "AdminError", str(e))
            except (Exception, SystemExit) as e:
                res = ("error", type(e).__name__, str(e))
    finally:
        au.requests = saved
    return res + (buf.getvalue(),)


# ------------------------------------------------------------------------------------------------
# projection of the output
# ------------------------------------------------------------------------------------------------
FIELDS = ("ui_ud", "ui_shash", "ui_iter", "ui_hash", "app_hash", "keys_hash", "ud", "best_block", "last_tx",
          "timestamp", "mrenclave", "mrsigner")
_HEX = r"((?:[0-9a-fA-F]{2})*)"
_UI_LINES = {"ui_ud": r"UD value: " + _HEX, "ui_shash": r"Authorized signer hash: " + _HEX,
             "ui_iter": r"Authorized signer iteration: (\d+)", "ui_hash": r"Installed UI hash: " + _HEX}
_POW_LINES = {"keys_hash": r"Hash: " + _HEX, "app_hash": r"Installed Signer hash: " + _HEX,
              "mrenclave": r"Installed powHSM MRENCLAVE: " + _HEX, "mrsigner": r"Installed powHSM MRSIGNER: " + _HEX,
              "ud": r"UD value: " + _HEX, "best_block": r"Best block: " + _HEX,
              "last_tx": r"Last transaction signed: " + _HEX, "timestamp": r"Timestamp: (\d+)"}
_INT_WIDTH = {"ui_iter": 2, "timestamp": 8}


def parse_output(text):
    """Printed values as byte lists ([] = not printed / not decodable at the documented width)."""
    out = {f: [] for f in FIELDS}
    lines = text.splitlines()
    blocks = {"ui": [], "pow": []}
    cur = None
    for ln in lines:
        if ln == "UI verified with:":
            cur = "ui"
        elif ln in ("Signer verified with public keys:", "powHSM verified with public keys:"):
            cur = "pow"
        elif cur:
            blocks[cur].append(ln)
    for blk, table in (("ui", _UI_LINES), ("pow", _POW_LINES)):
        for f, rx in table.items():
            hits = [m for m in (re.fullmatch(rx, ln) for ln in blocks[blk]) if m]
            if len(hits) != 1:
                continue
            v = hits[0].group(1)
            if f in _INT_WIDTH:
                try:
                    out[f] = list(int(v).to_bytes(_INT_WIDTH[f], "big"))
                except OverflowError:
                    out[f] = []
            else:
                out[f] = list(bytes.fromhex(v))
    return out


def pubkey_lines(text):
    """[(path name, compressed key hex)] as listed in the output (informative only)."""
    res = []
    for ln in text.splitlines():
        m = re.fullmatch(r"(.*?):\s+((?:02|03)[0-9a-f]{64})", ln)
        if m and not ln.startswith("Derived public key"):
            res.append((m.group(1), m.group(2)))
    return res


# ------------------------------------------------------------------------------------------------
# trace
# ------------------------------------------------------------------------------------------------
NA_UI = {"exists": "na", "chain": "na", "hdr": "na", "sepc": "na", "key": 0, "len": "na", "at": "na",
         "m": "na", "n": 0, "tail": "na"}
_UI_FIELDS = ("exists", "chain", "hdr", "sepc", "key", "len", "at", "m", "n", "tail")
_POW_FIELDS = ("exists", "chain", "hdr", "sepc", "len", "at", "m", "n", "tail")


def abstract_of(plan):
    """The plan as the `inp` record of VerifyProps (paths as UTF-8 byte lists)."""
    return {"plat": plan["plat"], "args": plan["args"], "root": plan["root"], "certfile": plan["certfile"],
            "file": {"kind": plan["file"]["kind"],
                     "ents": [{"path": list(n.encode("utf-8")), "key": k} for (n, k) in plan["file"]["ents"]]},
            "btc": list(BTC_PATH.encode()),
            "mh": {"enc": plan["mh"]["enc"], "pre": list(plan["mh"]["pre"])},
            "targets": list(plan["targets"]), "brk": list(plan["brk"]), "plen": int(plan["plen"]),
            "embed": plan["embed"], "ename": plan["ename"],
            "ui": {k: plan["ui"][k] for k in _UI_FIELDS} if plan["plat"] == "ledger" else dict(NA_UI),
            "pow": {k: plan["pow"][k] for k in _POW_FIELDS}}


def trace_of(tid, real, outcome, printed):
    return {"id": tid, "inp": abstract_of(real.plan),
            "signed": {k: list(v) for k, v in real.signed.items()},
            "k33": [list(k) for k in real.k33], "outcome": outcome, "printed": printed}


SITES = [
    (r"No attestation certificate file given", "NoCert"),
    (r"No public keys file given", "NoPub"),
    (r"Invalid root authority .*Failed to validate self-signed", "RootSelf"),
    (r"Invalid root authority .+", "RootLoad"),
    (r"Invalid root authority$", "Root"),
    (r"Can't compute the hash of an empty", "EmptyKeys"),
    (r"Unable to read public keys|Public keys file must contain|Invalid public key for path", "LoadPubkeys"),
    (r"not present in public key file", "NoBtcKey"),
    (r"While loading the attestation certificate file", "LoadCert"),
    (r"does not contain a UI attestation", "NoUi"),
    (r"Invalid UI attestation: error validating", "UiInvalid"),
    (r"Invalid UI attestation message header", "UiHeader"),
    (r"unexpected public key reported", "UiKey"),
    (r"does not contain a Signer attestation", "NoSigner"),
    (r"Invalid Signer attestation: error validating", "SignerInvalid"),
    (r"Invalid Signer attestation message header", "SignerHeader"),
    (r"UI attestation message length mismatch", "UiLength"),
    (r"longer than expected", "LegacyLong"),
    (r"attestation message length mismatch", "PowLength"),
    (r"public keys hash mismatch", "HashMismatch"),
    (r"does not contain a powHSM attestation", "NoQuote"),
    (r"Invalid powHSM attestation: error validating", "QuoteInvalid"),
    (r"Invalid powHSM attestation message header", "PowHeader"),
]
_COARSE = {"RootHex": "Root", "RootParse": "Root", "Pubkeys": "LoadPubkeys", "EmptyKeys": "LoadPubkeys"}


def site_of(outcome, kind, text):
    if outcome == "return":
        return "Return"
    if kind != "AdminError":
        return "exc:" + kind
    for rx, s in SITES:
        if re.search(rx, text, re.S):
            return s
    return "AdminError:?"


def coarse(site, plat):
    s = _COARSE.get(site, site)
    if plat == "sgx" and s in ("LoadPubkeys",):
        return "LoadPubkeys"
    return s


# ------------------------------------------------------------------------------------------------
# plans from TLC behaviours and random plans
# ------------------------------------------------------------------------------------------------
def plan_from_behaviour(b, rng):
    """b["inp"] uses the model's path alphabet: [0] below, [1] the UI path, [1,0] an extension of it,
    [2] < [3] < [4] above.  Order-preserving choice of real path names."""
    inp = b["inp"]
    if rng.random() < 0.5:
        above = STANDARD[:]
        start = rng.randrange(len(above) - 2)
        three = above[start:start + 3] if rng.random() < 0.5 else sorted(rng.sample(above, 3), key=str.encode)
    else:
        idx = sorted(rng.sample(range(len(ABOVE)), 3))
        three = [ABOVE[i] for i in idx]
    names = {(0,): rng.choice(BELOW), (1,): BTC_PATH, (1, 0): rng.choice(EXT),
             (2,): three[0], (3,): three[1], (4,): three[2]}
    plan = {"plat": inp["plat"], "args": inp["args"], "root": inp["root"], "certfile": inp["certfile"],
            "file": {"kind": inp["file"]["kind"],
                     "ents": [[names[tuple(e["path"])], e["key"]] for e in inp["file"]["ents"]]},
            "mh": {"enc": inp["mh"]["enc"], "pre": list(inp["mh"]["pre"])},
            "targets": list(inp["targets"]), "brk": list(inp["brk"]), "plen": inp["plen"],
            "embed": inp.get("embed", "none"), "ename": inp.get("ename", "na"),
            "ui": dict(inp["ui"]), "pow": dict(inp["pow"]), "seed": rng.getrandbits(48)}
    for t in (plan["ui"], plan["pow"]):
        if t.get("m") == "randn":               # "many arbitrary bytes": how many is open
            t["n"] = rng.choice((2, 3, 32, rng.randrange(2, 64)))
    return plan


def _sorted_keys(ents):
    by = {n: k for (n, k) in ents}
    return [by[n] for n in path_order(list(by))]


def random_plan(rng):
    """Binding B: an arbitrary public-keys file (1..8 keys over arbitrary path names, any order), a device
    that holds those keys, then 0..5 deviations of any kind."""
    plat = rng.choice(("ledger", "ledger", "sgx"))
    n = rng.choice((1, 2, 3, 6, 6, 6, rng.randrange(1, 9)))
    pool = BELOW + EXT + ABOVE
    if n == 6 and rng.random() < 0.5:
        names = [BTC_PATH] + STANDARD
    else:
        names = rng.sample(pool, n - 1) + [BTC_PATH] if rng.random() < 0.9 else rng.sample(pool, n)
    if rng.random() < 0.6:
        rng.shuffle(names)
    else:
        names = path_order(names)
    ents = [[nm, i + 1] for i, nm in enumerate(names)]
    rng.shuffle(ents) if rng.random() < 0.3 else None
    btc = [k for (nm, k) in ents if nm == BTC_PATH]
    plan = {"plat": plat, "args": "ok", "root": "right", "certfile": "ok",
            "file": {"kind": "ok", "ents": ents},
            "mh": {"enc": "unc", "pre": _sorted_keys(ents)},
            "ui": dict(PLAIN, exists="t", chain="intact", hdr="ok", key=btc[0] if btc else 1),
            "pow": dict(PLAIN, exists="t", chain="intact",
                        hdr=rng.choice(("current", "current", "legacy")) if plat == "ledger" else "current"),
            "targets": ["ui", "signer"] if plat == "ledger" else ["quote"], "brk": [],
            "plen": rng.choice(SCALE[plat] + (rng.randrange(6, 300),)) if rng.random() < 0.04
            else (0 if plat == "ledger" else 5),
            "seed": rng.getrandbits(48)}
    for _ in range(rng.choice((0, 0, 1, 1, 1, 2, 2, 3, 5))):
        deviate(plan, rng)
    return sync(plan)


def _deviate_len(t, rng, body):
    if t["len"] != "exact" or t["tail"] != "any":
        return
    if rng.random() < 0.35:
        t.update(len="short", at="cut", m="na", n=rng.choice((1, 1, 2, 8, body, rng.randrange(1, body + 1))))
    else:
        m = rng.choice(EXT_MEMBERS)
        t.update(len="long", at=rng.choice(("suffix", "suffix", "prefix")), m=m,
                 n=len(EXT_TABLE[m]) if m in EXT_TABLE else (1 if m == "rand1" else rng.randrange(2, 64)))


def deviate(plan, rng, sep=True):
    f = plan["file"]
    ents = f["ents"]
    nk = max([k for (_n, k) in ents] + plan["mh"]["pre"] + [plan["ui"]["key"], 1])
    dims = ["args", "root", "certfile", "file", "file", "file", "mh", "mh", "unlist", "brk", "brk", "targets",
            "targets", "pow.hdr", "pow.len", "pow.len", "pow.tail"]
    if plan["plat"] == "sgx":
        dims += ["embed"]
    if plan["plat"] == "ledger":
        dims += ["ui.hdr", "ui.key", "ui.len", "ui.tail"]
    roles = LEDGER_ROLES if plan["plat"] == "ledger" else SGX_ROLES
    d = rng.choice(dims)
    if d == "args":
        plan["args"] = rng.choice(("nocert", "nopub"))
    elif d == "root":
        plan["root"] = rng.choice(("wrong", "malformed", "malformed2"))
    elif d == "certfile":
        plan["certfile"] = "bad"
    elif d == "file":
        if f["kind"] != "ok":
            return
        used = {n for (n, _k) in ents}
        free = [p for p in BELOW + EXT + ABOVE + [BTC_PATH] if p not in used]
        m = rng.choice(("shuffle", "swap", "replace", "dup", "drop", "add", "swapkeys", "rename", "rename",
                        "empty", "malformed"))
        if m == "shuffle":
            rng.shuffle(ents)
        elif m == "swap" and len(ents) > 1:
            i = rng.randrange(len(ents) - 1)
            ents[i], ents[i + 1] = ents[i + 1], ents[i]
        elif m == "replace" and ents:
            ents[rng.randrange(len(ents))][1] = nk + 1
        elif m == "dup" and len(ents) > 1:
            i, j = rng.sample(range(len(ents)), 2)
            ents[i][1] = ents[j][1]
        elif m == "drop" and ents:
            del ents[rng.randrange(len(ents))]
        elif m == "add" and free:
            ents.insert(rng.randrange(len(ents) + 1), [rng.choice(free), nk + 1])
        elif m == "swapkeys" and len(ents) > 1:
            i, j = rng.sample(range(len(ents)), 2)
            ents[i][1], ents[j][1] = ents[j][1], ents[i][1]
        elif m == "rename" and ents and free:
            ents[rng.randrange(len(ents))][0] = rng.choice(free)
        elif m == "empty":
            f["ents"] = []
        elif m == "malformed":
            f["kind"] = "malformed"
    elif d == "mh":
        m = rng.choice(("comp", "fileorder", "resync", "none", "perm", "subset"))
        if f["kind"] != "ok" or not ents:
            m = rng.choice(("none", "comp"))
        if m == "comp":
            plan["mh"]["enc"] = "comp"
        elif m == "fileorder":
            plan["mh"] = {"enc": "unc", "pre": [k for (_n, k) in ents]}
        elif m == "resync":
            plan["mh"] = {"enc": "unc", "pre": _sorted_keys(ents)}
        elif m == "none":
            plan["mh"] = {"enc": "none", "pre": []}
        elif m == "perm":
            rng.shuffle(plan["mh"]["pre"])
        elif m == "subset" and len(plan["mh"]["pre"]) > 1:
            del plan["mh"]["pre"][rng.randrange(len(plan["mh"]["pre"]))]
    elif d == "embed":
        plan["embed"] = rng.choice(("chainroot", "chainroot", "chosenroot"))
        plan["ename"] = rng.choice(("sgx_root", "sgx_root", "near"))
    elif d == "unlist":
        if plan["targets"]:
            gone = rng.choice(plan["targets"])
            plan["targets"] = [r for r in plan["targets"] if r != gone]
    elif d == "brk":
        plan["brk"] = list(set(plan["brk"]) | {rng.choice(roles)})
    elif d == "targets":
        tl = plan["targets"]
        m = rng.choice(("shuffle", "before", "after", "insert", "dup"))
        if m == "shuffle":
            rng.shuffle(tl)
        elif m == "before":
            tl.insert(0, rng.choice(roles[:-1] if plan["plat"] == "sgx" else roles[:2]))
        elif m == "after":
            tl.append(rng.choice(roles[:-1] if plan["plat"] == "sgx" else roles[:2]))
        elif m == "insert":
            tl.insert(rng.randrange(len(tl) + 1), rng.choice(roles))
        elif tl:
            tl.insert(rng.randrange(len(tl) + 1), rng.choice(tl))
    elif d == "pow.hdr":
        cur = plan["pow"]["hdr"]
        if cur not in ("current", "legacy"):
            return
        opts = ["foreign", "foreign"]
        if plan["plat"] == "sgx" and cur == "current" and plan["pow"]["tail"] in ["any"] + TAIL1 \
                and not (plan["pow"]["at"] == "cut" and plan["pow"]["n"] > 32):
            opts.append("legacy")
        if sep:
            opts.append("sepleg" if cur == "legacy" else "sep")
        plan["pow"]["hdr"] = h = rng.choice(opts)
        plan["pow"]["sepc"] = "na" if h == "foreign" else (rng.choice(list(SEP_TABLE)) if h.startswith("sep")
                                                            else "dot")
    elif d in ("pow.len", "ui.len"):
        _deviate_len(plan[d[:-4]], rng, 99 if d == "ui.len" else
                     (32 if plan["pow"]["hdr"] in ("legacy", "sepleg") else 115))
    elif d in ("pow.tail", "ui.tail"):
        t = plan[d[:-5]]
        if t["len"] == "exact" and t["tail"] == "any":
            leg = d == "pow.tail" and t["hdr"] in ("legacy", "sepleg")
            t["tail"] = rng.choice(TAIL1 if leg else list(EXT_TABLE))
    elif d == "ui.hdr":
        if plan["ui"]["hdr"] != "ok":
            return
        plan["ui"]["hdr"] = h = rng.choice(["foreign", "foreign"] + (["sep"] if sep else []))
        plan["ui"]["sepc"] = "na" if h == "foreign" else rng.choice(list(SEP_TABLE))
    elif d == "ui.key":
        others = [k for (_n, k) in ents if k != plan["ui"]["key"]]
        plan["ui"]["key"] = rng.choice(others + [nk + 1])


assert not any(ui_shape(h) for h in UI_FOREIGN) and all(len(h) == 10 for h in UI_FOREIGN)
assert not any(pow_shape(h) or leg_shape(h) for h in POW_FOREIGN + LEG_FOREIGN)
