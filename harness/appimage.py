"""C19 helpers: an independent Intel-HEX writer, layout concretisation / random layouts, the SHA-256
oracle over the generator's own area list, runners for compute_app_hash / `signapp hash|message` /
signonetime (in-process, argv + cwd + stdout patched from here), the key-generation recorder, the
scan for private-key material and the projection of a signing run onto the observables of
spec/AppImageProps.tla.  Nothing here decides the property: TLC does (spec/TraceAppImage.tla)."""
import base64
import binascii
import hashlib
import io
import json
import os
import re
import sys

from . import env

ZONE = 0x10000


# ----------------------------------------------------------------------------------------------
# images and files
# ----------------------------------------------------------------------------------------------
class Layout:
    """areas: [(z, o, bytes)] -- the generator's own description of the image (any order);
    records: [("ela", z) | ("data", a, bytes) | ("eof",) | ("sla", addr32)] in file order."""

    def __init__(self, areas, records, eol="\n", upper=True, mayrefuse=False, src="model", size="small"):
        self.size = size                # size class (spec/AppImage.tla) or "random" / "random-boundary"
        self.scale = None               # [thr, side, rlen, eol] of the size class "scaled"
        self._text = None
        self.areas = [(int(z), int(o), bytes(d)) for (z, o, d) in areas]
        self.records = [tuple(r) for r in records]
        self.eol = eol
        self.upper = upper
        self.mayrefuse = mayrefuse      # no type-04 record before the first data record
        self.src = src

    # -- classes used in violation signatures and coverage
    def total(self):
        return sum(len(d) for (_, _, d) in self.areas)

    def zones(self):
        return sorted({r[1] for r in self.records if r[0] == "ela"})

    def in_address_order(self):
        z, last = 0, -1
        for r in self.records:
            if r[0] == "ela":
                z = r[1]
            elif r[0] == "data":
                lin = (z << 16) + r[1]
                if lin < last:
                    return False
                last = lin
        return True

    def klass(self):
        size = self.size
        if self.scale:
            size = "text-just-%s-%d-chars" % (self.scale["side"], self.scale["thr"])
        return "order=%s zones=%s size=%s" % ("address" if self.in_address_order() else "shuffled",
                                              "one" if len(self.zones()) <= 1 else "many", size)

    def to_json(self):
        return {"areas": [[z, o, d.hex()] for (z, o, d) in self.areas],
                "records": [[r[0]] + [x.hex() if isinstance(x, (bytes, bytearray)) else x for x in r[1:]]
                            for r in self.records],
                "eol": self.eol, "upper": self.upper, "mayrefuse": self.mayrefuse, "src": self.src,
                "size": self.size, "scale": self.scale}

    @staticmethod
    def from_json(j):
        recs = []
        for r in j["records"]:
            if r[0] == "data":
                recs.append(("data", r[1], bytes.fromhex(r[2])))
            else:
                recs.append(tuple(r))
        lay = Layout([(z, o, bytes.fromhex(d)) for (z, o, d) in j["areas"]], recs, j["eol"],
                     j["upper"], j["mayrefuse"], j.get("src", "replay"), j.get("size", "small"))
        lay.scale = j.get("scale")
        return lay


def hex_line(rectype, addr, payload):
    """One Intel-HEX record: ':' LL AAAA TT <data> CC, CC = two's complement of the byte sum."""
    body = bytes([len(payload), (addr >> 8) & 0xFF, addr & 0xFF, rectype]) + bytes(payload)
    cks = (-sum(body)) & 0xFF
    return ":" + (body + bytes([cks])).hex()


def hex_text(layout):
    if getattr(layout, "_text", None) is not None:
        return layout._text
    lines = []
    for r in layout.records:
        if r[0] == "ela":
            lines.append(hex_line(4, 0, bytes([(r[1] >> 8) & 0xFF, r[1] & 0xFF])))
        elif r[0] == "data":
            if not (1 <= len(r[2]) <= 255 and 0 <= r[1] and r[1] + len(r[2]) <= ZONE):
                raise ValueError("writer: bad data record %r" % (r[:2],))
            lines.append(hex_line(0, r[1], r[2]))
        elif r[0] == "eof":
            lines.append(hex_line(1, 0, b""))
        elif r[0] == "sla":
            lines.append(hex_line(5, 0, int(r[1]).to_bytes(4, "big")))
        else:
            raise ValueError("writer: unknown record %r" % (r,))
    text = layout.eol.join(lines) + layout.eol
    layout._text = text.upper() if layout.upper else text.lower()
    return layout._text


def write_hex(layout, path):
    text = hex_text(layout)
    with open(path, "w", newline="") as f:
        f.write(text)
    return text


def oracle_input(layout):
    """The bytes of the image in address order, from the generator's own area list."""
    return b"".join(d for (_, _, d) in sorted(layout.areas, key=lambda a: (a[0] << 16) + a[1]))


def oracle_digest(layout):
    return hashlib.sha256(oracle_input(layout)).digest()


def _runs(pieces, what):
    """(linear start, bytes) pieces -> maximal contiguous runs, refusing overlaps"""
    runs = []
    for lin, data in sorted(pieces, key=lambda p: p[0]):
        if runs:
            end = runs[-1][0] + len(runs[-1][1])
            if lin < end:
                raise ValueError("%s: address written twice" % what)
            if lin == end:
                runs[-1][1].extend(data)
                continue
        runs.append([lin, bytearray(data)])
    return [(a, bytes(d)) for a, d in runs]


def check_writer(layout):
    """Machinery self-check, independent of the parser under test: reading the emitted text back
    line by line (every checksum must close to 0 mod 256) gives exactly the bytes of the areas at
    their addresses, each address written once, and the last record is the end-of-file record."""
    pieces, upper, last = [], None, None
    for line in hex_text(layout).splitlines():
        if not line:
            continue
        if line[0] != ":":
            raise ValueError("writer: line without ':'")
        raw = bytes.fromhex(line[1:])
        if sum(raw) & 0xFF or len(raw) != raw[0] + 5:
            raise ValueError("writer: bad checksum or length")
        n, addr, typ = raw[0], (raw[1] << 8) | raw[2], raw[3]
        last = typ
        if typ == 4:
            upper = (raw[4] << 8) | raw[5]
        elif typ == 0:
            if addr + n > ZONE:
                raise ValueError("writer: data record over a 64 KiB boundary")
            pieces.append((((upper or 0) << 16) + addr, raw[4:-1]))
    want = _runs([((az << 16) + ao, d) for (az, ao, d) in layout.areas], "generator")
    if _runs(pieces, "writer") != want or last != 1:
        raise ValueError("writer: records do not write the image")


# ----------------------------------------------------------------------------------------------
# concretisation of TLC layouts, random layouts
# ----------------------------------------------------------------------------------------------
def bytemap(rng):
    """symbolic byte (small int of the model) -> real byte; injective so that a permutation of the
    model's bytes is a permutation of the real ones."""
    vals = list(range(256))
    rng.shuffle(vals)
    return vals


def layout_from_model(b, bmap, rng):
    areas = [(a["z"], a["o"], bytes(bmap[x] for x in a["d"])) for a in b["areas"]]
    recs = []
    for r in b["file"]:
        if r["t"] == "ela":
            recs.append(("ela", r["z"]))
        elif r["t"] == "data":
            recs.append(("data", r["a"], bytes(bmap[x] for x in r["d"])))
        elif r["t"] == "eof":
            recs.append(("eof",))
        else:
            recs.append(("sla", 0))
    return Layout(areas, recs, eol=rng.choice(["\n", "\r\n"]), upper=rng.random() < 0.7, src="model")


def unit_blocks(ulen, rng):
    """unit id (1-based) -> its real bytes, for a size class of the model"""
    return {u + 1: rng.randbytes(n) for u, n in enumerate(ulen)}


def place_areas(b):
    """Real start (linear address) of every abstract area of a model layout whose units have the
    real lengths b["ulen"].  Kept from the abstract image: the order of the areas, a zone boundary
    crossed (or touched) by an area is crossed (touched) between the same two units, abstractly
    adjacent areas stay adjacent, the others keep a gap; an area that no longer fits before the next
    one pushes it up.  Deterministic, so that two files of one image describe the same bytes."""
    ulen = b["ulen"]
    areas = sorted(b["areas"], key=lambda a: (a["z"] << 16) + a["o"])
    out, prev_abs_end, prev_real_end = {}, None, None
    zone_mult = b["size"] == "zone_multiple"
    for a in areas:
        lens = [ulen[u - 1] for u in a["d"]]
        abs_start = (a["z"] << 16) + a["o"]
        to_boundary = ZONE - a["o"]                       # units before the zone boundary
        if b["size"] == "scaled":
            start = abs_start                                # lengths are free; only order and gaps kept
        elif to_boundary <= len(a["d"]):
            start = ((a["z"] + 1) << 16) - sum(lens[:to_boundary])
        elif zone_mult:
            start = a["z"] << 16                           # a completely filled zone starts at offset 0
        else:
            start = abs_start
        if prev_real_end is not None:
            if abs_start == prev_abs_end:
                start = prev_real_end
            elif start < prev_real_end + 1:
                start = prev_real_end + 3
                if zone_mult:
                    start = ((prev_real_end >> 16) + 1) << 16
        if start < 0 or start + sum(lens) > (ZONE << 16):
            raise ValueError("placement outside the 32-bit address space")
        out[(a["z"], a["o"])] = start
        prev_abs_end, prev_real_end = abs_start + len(a["d"]), start + sum(lens)
    return out


def layout_from_model_sized(b, blocks, rng, rmax=None, eol=None):
    """A model layout under a size class other than "small": every unit becomes its block of real
    bytes, every abstract data record a run of real records (1..255 bytes, never over a 64 KiB
    boundary) written in order, type-04 records wherever the real zone changes (and where the
    abstract file has a redundant one)."""
    starts = place_areas(b)
    unit_addr, areas = {}, []
    for a in b["areas"]:
        lin = starts[(a["z"], a["o"])]
        data = b"".join(blocks[u] for u in a["d"])
        areas.append((lin >> 16, lin & 0xFFFF, data))
        for u in a["d"]:
            unit_addr[u] = lin
            lin += len(blocks[u])
    exact = rmax is not None              # size class "scaled": records of exactly rmax bytes
    rmax = rmax or rng.choice((255, 255, 128, 64, 32))
    records, wz, abs_zone = [], None, None
    for r in b["file"]:
        if r["t"] == "ela":
            if r["z"] == abs_zone and wz is not None:
                records.append(("ela", wz))             # the abstract file repeats a zone selection
            abs_zone = r["z"]
        elif r["t"] == "data":
            lin = unit_addr[r["d"][0]]
            data = b"".join(blocks[u] for u in r["d"])
            i = 0
            while i < len(data):
                z, o = (lin + i) >> 16, (lin + i) & 0xFFFF
                n = min(rmax, len(data) - i, ZONE - o)
                if not exact and rng.random() < 0.02:
                    n = rng.randrange(1, n + 1)
                if z != wz:
                    records.append(("ela", z))
                    wz = z
                records.append(("data", o, data[i:i + n]))
                i += n
        elif r["t"] == "eof":
            records.append(("eof",))
    return Layout(areas, records, eol=eol or rng.choice(["\n", "\r\n"]), upper=rng.random() < 0.7,
                  src="model", size=b["size"])


def _split(total, weights):
    """total bytes over units in the given proportions, every unit at least one byte"""
    w = sum(weights)
    lens = [max(1, total * x // w) for x in weights[:-1]]
    lens.append(max(1, total - sum(lens)))
    return lens


def _scaled_text_len(b, ulen, rlen, eol_len):
    """number of characters of the file layout_from_model_sized(b with ulen, rmax = rlen) writes,
    computed per zone segment (no record is materialised)"""
    bb = dict(b, ulen=ulen)
    starts = place_areas(bb)
    unit_addr = {}
    for a in b["areas"]:
        lin = starts[(a["z"], a["o"])]
        for u in a["d"]:
            unit_addr[u] = lin
            lin += ulen[u - 1]
    chars, wz, abs_zone = 0, None, None
    for r in b["file"]:
        if r["t"] == "ela":
            if r["z"] == abs_zone and wz is not None:
                chars += 15 + eol_len
            abs_zone = r["z"]
        elif r["t"] == "data":
            lin = unit_addr[r["d"][0]]
            n = sum(ulen[u - 1] for u in r["d"])
            while n > 0:
                z, o = lin >> 16, lin & 0xFFFF
                seg = min(n, ZONE - o)
                if z != wz:
                    chars += 15 + eol_len
                    wz = z
                chars += 2 * seg + ((seg + rlen - 1) // rlen) * (11 + eol_len)
                lin += seg
                n -= seg
        elif r["t"] == "eof":
            chars += 11 + eol_len
    return chars


def scaled_unit_lengths(b):
    """Unit lengths for the size class "scaled": the proportions of b["ulen"], the total such that the
    HEX text written with records of scale.rlen bytes lies just below / just above scale.thr characters
    (the area highest in memory absorbs the fine tuning)."""
    sc = b["scale"]
    thr, rlen, eol_len = sc["thr"], sc["rlen"], (1 if sc["eol"] == "lf" else 2)
    areas = sorted(b["areas"], key=lambda a: (a["z"] << 16) + a["o"])
    weights = {id(a): [b["ulen"][u - 1] for u in a["d"]] for a in areas}
    wsum = sum(sum(w) for w in weights.values())
    est = int(thr / (2 + (11 + eol_len) / rlen))
    base = {}
    for a in areas[:-1]:
        base[id(a)] = max(len(a["d"]), est * sum(weights[id(a)]) // wsum)
    last = areas[-1]

    def ulen_for(l_last):
        ulen = list(b["ulen"])
        for a in areas:
            total = l_last if a is last else base[id(a)]
            for u, n in zip(a["d"], _split(total, weights[id(a)])):
                ulen[u - 1] = n
        return ulen

    def f(l_last):
        return _scaled_text_len(b, ulen_for(l_last), rlen, eol_len)
    lo, hi = len(last["d"]), max(2 * est, 64)
    if f(lo) > thr:
        raise ValueError("scaled: the threshold %d cannot be reached from below" % thr)
    while f(hi) <= thr:
        hi *= 2
    while hi - lo > 1:                      # f is non-decreasing in the length of the last area
        mid = (lo + hi) // 2
        if f(mid) <= thr:
            lo = mid
        else:
            hi = mid
    return ulen_for(lo if sc["side"] == "below" else hi)


def layout_scaled(b, rng):
    ulen = scaled_unit_lengths(b)
    bb = dict(b, ulen=ulen)
    lay = layout_from_model_sized(bb, unit_blocks(ulen, rng), rng, rmax=b["scale"]["rlen"],
                                  eol="\n" if b["scale"]["eol"] == "lf" else "\r\n")
    lay.scale = dict(b["scale"])
    want = _scaled_text_len(b, ulen, b["scale"]["rlen"], len(lay.eol))
    if len(hex_text(lay)) != want:
        raise ValueError("scaled: text length %d, planned %d" % (len(hex_text(lay)), want))
    return lay


def concretise(b, rng, blocks=None, bmap=None):
    """model layout b (with its size class) -> Layout"""
    if b["size"] == "scaled":
        return layout_scaled(b, rng)
    if b["size"] == "small":
        return layout_from_model(b, bmap or bytemap(rng), rng)
    return layout_from_model_sized(b, blocks or unit_blocks(b["ulen"], rng), rng)


def image_key(b):
    return json.dumps(sorted((a["z"], a["o"], a["d"]) for a in b["areas"]))


BOUNDARY_ZONES = (0, 1, 0x7FFF, 0x8000, 0xC0D0, 0xFFFE, 0xFFFF)
BOUNDARY_LENGTHS = (255, 256, 257, 511, 512, 513, 1023, 1024, 1025, 2047, 2048, 2049, 4095, 4096, 4097,
                    8191, 8192, 8193, 12288, 16384, 32768, 65535, 65536, 65537)


def random_areas(rng, nareas, maxlen, boundary=False):
    """1..8 disjoint areas over several 64 KiB zones; some run over a zone boundary, some are
    adjacent to their neighbour, most are separated by gaps."""
    used = []           # (lin_start, lin_end)
    areas = []
    zones = [rng.choice(BOUNDARY_ZONES) if rng.random() < 0.6 else rng.randrange(ZONE)
             for _ in range(rng.choice((1, 1, 2, 3)))]
    tries = 0
    while len(areas) < nareas and tries < 1000:
        tries += 1
        z = rng.choice(zones)
        n = rng.choice((1, 2, 3, rng.randrange(1, maxlen + 1), rng.randrange(1, maxlen + 1)))
        if boundary and rng.random() < 0.6:
            n = rng.choice(BOUNDARY_LENGTHS)
        mode = rng.random()
        if mode < 0.15 and z < 0xFFFF and 2 <= n <= ZONE:
            o = ZONE - rng.randrange(1, n)              # runs over the boundary into zone z + 1
        elif mode < 0.25 or n > ZONE:
            o = 0
        elif mode < 0.35:
            o = ZONE - n                                 # ends exactly at the boundary
        elif mode < 0.5 and used:
            s, e = rng.choice(used)                      # adjacent to an existing area
            lin = e if rng.random() < 0.5 else s - n
            if lin < 0:
                continue
            z, o = lin >> 16, lin & 0xFFFF
        else:
            o = rng.randrange(0, ZONE - n + 1)
        lin = (z << 16) + o
        if lin + n > (ZONE << 16):
            continue
        if any(lin < e and s < lin + n for (s, e) in used):
            continue
        used.append((lin, lin + n))
        areas.append((z, o, rng.randbytes(n)))
    return areas


def random_layout(rng, small=False, boundary=False):
    """boundary: a few areas whose lengths sit on / next to powers of two up to 64 KiB"""
    nareas = rng.randrange(1, 4) if boundary else rng.randrange(1, 9)
    maxlen = 4 if small else rng.choice((8, 40, 300, 700))
    rmax = 3 if small else rng.choice((1, 2, 16, 32, 255, 255))
    if boundary:
        rmax = rng.choice((255, 255, 64, 16))
    areas = random_areas(rng, nareas, maxlen, boundary)
    rng.shuffle(areas)
    # cut every area into records of 1..rmax bytes that never run over a zone boundary
    per_area = []
    for (z, o, d) in areas:
        lin, i, recs = (z << 16) + o, 0, []
        while i < len(d):
            room = ZONE - ((lin + i) & 0xFFFF)
            n = min(rng.randrange(1, rmax + 1), len(d) - i, room)
            if rng.random() < 0.3:
                n = min(rmax, len(d) - i, room)
            recs.append((((lin + i) >> 16), (lin + i) & 0xFFFF, d[i:i + n]))
            i += n
        per_area.append(recs)
    order = rng.choice(("address", "areas-shuffled", "reversed", "records-shuffled"))
    if boundary:
        order = rng.choice(("address", "address", "areas-shuffled", "areas-shuffled", "records-shuffled"))
    if order == "address":
        flat = sorted((r for recs in per_area for r in recs), key=lambda r: (r[0] << 16) + r[1])
    elif order == "areas-shuffled":
        flat = [r for recs in per_area for r in recs]
    elif order == "reversed":
        flat = sorted((r for recs in per_area for r in recs), key=lambda r: -((r[0] << 16) + r[1]))
    else:
        flat = [r for recs in per_area for r in recs]
        rng.shuffle(flat)
    implicit = rng.random() < 0.04 and flat[0][0] == 0
    records, wz = [], (0 if implicit else None)
    for (z, a, d) in flat:
        if z != wz:
            records.append(("ela", z))
            wz = z
        elif rng.random() < 0.05:
            records.append(("ela", z))                   # redundant type-04 record
        records.append(("data", a, d))
        if rng.random() < 0.02:
            records.append(("sla", rng.randrange(1 << 32)))
    if rng.random() < 0.5:
        records.append(("sla", rng.randrange(1 << 32)))  # as ledgerblue's own printer emits
    records.append(("eof",))
    return Layout(areas, records, eol=rng.choice(["\n", "\r\n"]), upper=rng.random() < 0.7,
                  mayrefuse=implicit, src="random-small" if small else "random",
                  size="random-boundary" if boundary else "random")


# ----------------------------------------------------------------------------------------------
# boundary: recorders installed from the harness process
# ----------------------------------------------------------------------------------------------
class KeyRegistry:
    """Wraps ecdsa.SigningKey.generate (the name signonetime calls through its `ecdsa` global):
    records every key handed out and delegates to the original."""

    def __init__(self):
        self.keys = {}          # id -> SigningKey (generated through the wrapper)
        self.vks = {}           # id -> VerifyingKey (generated ones + foreign public keys met in files)
        self.by_scalar = {}
        self.by_point = {}
        self.log = []           # ids in generation order (the driver slices it per run)
        self.active = False     # a run of the tool is in progress
        self.outside = set()    # ids generated while no run was in progress (e.g. at import time)
        self._installed = False

    def install(self):
        if self._installed:
            return
        import ecdsa
        orig = ecdsa.SigningKey.__dict__["generate"]
        reg = self

        def generate(cls, *a, **k):
            sk = orig.__func__(cls, *a, **k)
            reg.record(sk)
            return sk
        ecdsa.SigningKey.generate = classmethod(generate)
        self._installed = True

    def record(self, sk):
        s = sk.privkey.secret_multiplier
        if s not in self.by_scalar:
            kid = len(self.vks) + 1
            self.by_scalar[s] = kid
            pt = sk.get_verifying_key().pubkey.point
            old = self.by_point.get((pt.x(), pt.y()))
            if old is not None:         # met as a foreign public key before
                kid = old
                self.by_scalar[s] = kid
            self.keys[kid] = sk
            self.vks[kid] = sk.get_verifying_key()
            self.by_point[(pt.x(), pt.y())] = kid
        kid = self.by_scalar[s]
        self.log.append(kid)
        if not self.active:
            self.outside.add(kid)

    def id_of_pub(self, vk):
        """id of the key with this public point; a point never generated here gets an id of its own
        (a key, but nobody's generated one)"""
        pt = vk.pubkey.point
        k = (pt.x(), pt.y())
        if k not in self.by_point:
            self.by_point[k] = len(self.vks) + 1
            self.vks[self.by_point[k]] = vk
        return self.by_point[k]

    def needles(self, ids):
        out = []
        for kid in sorted(set(ids) | self.outside):
            if kid not in self.keys:
                continue
            raw = self.keys[kid].to_string()
            n = int.from_bytes(raw, "big")
            out.append((raw, ("%d" % n).encode(), ("%x" % n).encode()))
        return out


REG = KeyRegistry()

_audit = {"armed": False, "log": []}


def _audit_hook(event, args):
    if not _audit["armed"] or event != "open":
        return
    try:
        path, mode, flags = args
        if not isinstance(path, (str, bytes)):
            return
        if isinstance(path, bytes):
            path = os.fsdecode(path)
        writing = False
        if isinstance(mode, str) and any(c in mode for c in "wax+"):
            writing = True
        if isinstance(flags, int) and flags & (os.O_WRONLY | os.O_RDWR | os.O_CREAT | os.O_TRUNC | os.O_APPEND):
            writing = True
        if writing:
            # the file the OS opens for the path given (abspath would collapse `link/..` lexically)
            _audit["log"].append(os.path.realpath(path))
    except Exception:       # never disturb the code under test
        pass


_hook_installed = False


def install_boundary():
    global _hook_installed
    env.setup()
    REG.install()
    if not _hook_installed:
        sys.addaudithook(_audit_hook)
        _hook_installed = True


class ShaRecorder:
    """Stands in for the name `sha256` of admin.ledger_utils: records what is fed, delegates."""

    def __init__(self):
        self.inputs = []

    def __call__(self, data=b""):
        rec = self
        buf = bytearray(data)
        rec.inputs.append(buf)
        h = hashlib.sha256(data)

        class _H:
            def update(self, b):
                buf.extend(bytes(b))
                h.update(b)

            def digest(self):
                return h.digest()

            def hexdigest(self):
                return h.hexdigest()
            name, digest_size, block_size = "sha256", 32, 64
        return _H()


class Patched:
    """argv / cwd / stdout / stderr / admin.ledger_utils.sha256 patched for one call of a tool."""

    def __init__(self, argv, cwd=None, record_sha=True):
        self.argv, self.cwd, self.record_sha = argv, cwd, record_sha
        self.out = io.StringIO()
        self.err = io.StringIO()
        self.sha = ShaRecorder()
        self.opened = []

    def __enter__(self):
        import admin.ledger_utils as lu
        self._lu = lu
        self._saved = (sys.argv, sys.stdout, sys.stderr, os.getcwd(), lu.sha256)
        sys.argv = list(self.argv)
        sys.stdout, sys.stderr = self.out, self.err
        if self.cwd:
            os.chdir(self.cwd)
        if self.record_sha:
            lu.sha256 = self.sha
        _audit["log"] = []
        _audit["armed"] = True
        return self

    def __exit__(self, *exc):
        _audit["armed"] = False
        self.opened = list(_audit["log"])
        sys.argv, sys.stdout, sys.stderr, cwd, self._lu.sha256 = self._saved
        os.chdir(cwd)
        return False


def _call_main(mod):
    try:
        mod.main()
        return 0, None
    except SystemExit as e:
        code = e.code if isinstance(e.code, int) else (0 if e.code is None else 1)
        return code, None
    except BaseException as e:      # noqa -- an escaping exception is an abnormal exit
        return 70, type(e).__name__


# ----------------------------------------------------------------------------------------------
# the tools
# ----------------------------------------------------------------------------------------------
def run_compute(path):
    """compute_app_hash(path) -> report, recorded hash inputs."""
    install_boundary()
    import admin.ledger_utils as lu
    rec = ShaRecorder()
    saved = lu.sha256
    lu.sha256 = rec
    try:
        try:
            d = lu.compute_app_hash(path)
            rep = {"via": "compute", "ok": isinstance(d, (bytes, bytearray)),
                   "digest": list(d) if isinstance(d, (bytes, bytearray)) else []}
        except Exception as e:
            rep = {"via": "compute", "ok": False, "digest": [], "exc": type(e).__name__}
    finally:
        lu.sha256 = saved
    return rep, [bytes(x) for x in rec.inputs]


HEX64 = re.compile(r"(?<![0-9a-fA-F])([0-9a-fA-F]{64})(?![0-9a-fA-F])")


def run_signapp_hash(path, cwd=None, extra=()):
    install_boundary()
    import signapp
    with Patched(["signapp.py", "hash", "-a", path] + list(extra), cwd) as p:
        code, exc = _call_main(signapp)
    out = p.out.getvalue()
    m = re.search(r"Computed hash: ([0-9a-fA-F]{64})\s*$", out, re.M)
    ok = code == 0 and m is not None
    return ({"via": "signapp-hash", "ok": ok, "digest": list(bytes.fromhex(m.group(1))) if ok else [],
             "exit": code, "exc": exc}, [bytes(x) for x in p.sha.inputs], out)


def run_signapp_message(path, iteration, out_path=None, cwd=None, out_read=None, extra=()):
    """`signapp message`: the hash embedded in the authorization message (stdout form, or the JSON
    file written with -o)."""
    install_boundary()
    import signapp
    argv = ["signapp.py", "message", "-a", path, "-i", str(iteration)]
    if out_path:
        argv += ["-o", out_path]
    argv += list(extra)
    with Patched(argv, cwd) as p:
        code, exc = _call_main(signapp)
    out = p.out.getvalue()
    hx = None
    if out_path:
        try:
            with open(out_read or os.path.join(cwd or ".", out_path)) as f:
                hx = json.load(f)["signer"]["hash"]
        except Exception:
            hx = None
    else:
        m = re.search(r"RSK_powHSM_signer_([0-9a-fA-F]{64})_iteration_%d\s*$" % iteration, out, re.M)
        hx = m.group(1) if m else None
    ok = code == 0 and isinstance(hx, str) and re.fullmatch(r"[0-9a-fA-F]{64}", hx) is not None
    return ({"via": "signapp-message-file" if out_path else "signapp-message", "ok": ok,
             "digest": list(bytes.fromhex(hx)) if ok else [], "exit": code, "exc": exc},
            [bytes(x) for x in p.sha.inputs], out)


# ----------------------------------------------------------------------------------------------
# scanning for private-key material
# ----------------------------------------------------------------------------------------------
_HEXRUN = re.compile(rb"(?:[0-9a-fA-F]{2}){32,}")
_B64RUN = re.compile(rb"[A-Za-z0-9+/]{40,}={0,2}")


def leaks(content, needles):
    """Does `content` contain a generated private scalar -- raw (hence inside any DER form), as hex
    (either case; hence hex of DER), decimal, or inside base64 (PEM / base64 of DER or raw)?"""
    if not needles:
        return False
    views = [content]
    for m in _HEXRUN.finditer(content):
        try:
            views.append(binascii.unhexlify(m.group(0)))
        except Exception:
            pass
    nows = re.sub(rb"-----[A-Z ]+-----|\s+", b"", content)
    for m in _B64RUN.finditer(nows):
        run = m.group(0).rstrip(b"=")
        for off in range(4):
            chunk = run[off:]
            chunk = chunk[:len(chunk) - len(chunk) % 4]
            try:
                views.append(base64.b64decode(chunk))
            except Exception:
                pass
    low = content.lower()
    for raw, dec, hx in needles:
        hx64 = raw.hex().encode()
        if any(raw in v for v in views):
            return True
        if hx64 in low or (len(hx) >= 40 and hx in low):
            return True
        if dec in content:
            return True
    return False


# ----------------------------------------------------------------------------------------------
# signonetime: one run, projected onto the run record of AppImageProps
# ----------------------------------------------------------------------------------------------
def parse_pub(content):
    import ecdsa
    try:
        txt = content.decode("ascii").strip()
        raw = bytes.fromhex(txt[2:] if txt.lower().startswith("0x") else txt)
    except Exception:
        raw = content
    if len(raw) not in (33, 64, 65):
        return None
    try:
        return ecdsa.VerifyingKey.from_string(raw, curve=ecdsa.SECP256k1)
    except Exception:
        return None


def parse_der_sig(content):
    """hex-of-DER (what the tool writes) or binary DER -> (r, s) or None."""
    import ecdsa
    cands = []
    try:
        cands.append(bytes.fromhex(content.decode("ascii").strip()))
    except Exception:
        pass
    cands.append(content)
    for c in cands:
        try:
            r, s = ecdsa.util.sigdecode_der(c, ecdsa.SECP256k1.order)
            return c
        except Exception:
            continue
    return None


def verifies(vk, der, digest):
    import ecdsa
    try:
        return bool(vk.verify_digest(der, digest, sigdecode=ecdsa.util.sigdecode_der))
    except Exception:
        return False


# ----------------------------------------------------------------------------------------------
# invocation shapes (spec/AppImage.tla: setup.dirs, Forms)
# ----------------------------------------------------------------------------------------------
DEFAULT_FORM = {"addr": "rel", "cwd": "imgdir", "pub": "rel", "spell": "plain", "opt": "none"}


def image_relpaths(dirs, n):
    """where the n image files of a session live, relative to its root"""
    out = {}
    for i in range(1, n + 1):
        if dirs == "samename":
            out[i] = os.path.join("src", "p%d" % i, "bin", "app.hex")
        elif dirs == "mixed" and i == 1:
            out[i] = os.path.join("src", "ui", "bin", "app.hex")
        elif dirs == "mixed" and i == 2:
            out[i] = os.path.join("src", "signer", "bin", "app.hex")
        elif dirs == "blanks":
            out[i] = os.path.join("my apps", "firmware %d \u00f1\u00e9 v2.hex" % i)
        else:
            out[i] = "app%d.hex" % i
    return out


class Invocation:
    """One way of naming the same files on a command line: relative / absolute / `./x`, from the
    images' directory or another one, and spelled plainly or not in normal form (through `d/..`,
    through symbolic links, `//`, `/./`).  Whatever the spelling, the OS resolves it to the file
    meant (checked here with realpath); `decoy` (HEX text of an image that is none of the session's)
    is put where a `link/..` spelling collapses to lexically."""

    def __init__(self, root, form, decoy=None):
        self.root = os.path.realpath(root)
        self.form = dict(DEFAULT_FORM, **(form or {}))
        self.cwd = self.root if self.form["cwd"] == "imgdir" else os.path.join(self.root, "wd", "sub")
        self.decoy = decoy
        os.makedirs(self.cwd, exist_ok=True)

    def _link(self, target, name):
        link = os.path.join(self.root, "links", name)
        os.makedirs(os.path.dirname(link), exist_ok=True)
        if not os.path.lexists(link):
            os.symlink(target, link)
        elif os.readlink(link) != target:
            raise ValueError("link %s points elsewhere" % link)
        return link

    def spell(self, target, output=False):
        """absolute spelling of `target` (an absolute, real path below root) according to form.spell"""
        sp = self.form["spell"]
        d, n = os.path.split(target)
        tag = hashlib.sha1(d.encode()).hexdigest()[:6]
        if sp == "dotdot-real":
            os.makedirs(os.path.join(d, "sub.d"), exist_ok=True)
            return d + "/sub.d/../" + n
        if sp in ("dotdot-link-decoy", "dotdot-link-empty"):
            os.makedirs(os.path.join(d, "bin"), exist_ok=True)
            link = self._link(os.path.join(d, "bin"), "latest_" + tag)
            collapsed = os.path.join(self.root, "links", n)
            if sp == "dotdot-link-decoy" and not output and self.decoy is not None \
                    and not os.path.lexists(collapsed):
                with open(collapsed, "w", newline="") as f:
                    f.write(self.decoy)
            return link + "/../" + n
        if sp == "via-link":
            return self._link(d, "dir_" + tag) + "/" + n
        if sp == "file-link":
            return self._link(target, "f_%s_%s" % (tag, n))
        if sp == "slashes":
            return d + "//" + n
        if sp == "inner-dot":
            return d + "/./" + n
        return target

    def arg(self, target, addr, output=False, suffix=""):
        """(argument naming `target`, the file the OS opens for argument + suffix)"""
        spelled = self.spell(target, output)
        if not spelled.startswith(self.root + "/"):
            raise ValueError("spelling left the session root: %s" % spelled)
        if addr == "abs":
            a = spelled
        else:
            tail = spelled[len(self.root) + 1:]
            if tail.startswith("/"):            # `root//x`: keep the doubled slash, stay relative
                tail = "./" + tail
            a = tail if self.cwd == self.root else "../../" + tail
            if addr == "dotslash":
                a = "./" + a
        resolved = os.path.realpath(os.path.join(self.cwd, a))
        if resolved != os.path.realpath(target):
            raise ValueError("spelling %r resolves to %s, not to %s" % (a, resolved, target))
        return a, os.path.realpath(os.path.join(self.cwd, a + suffix))

    def img_arg(self, rel, pos=0, suffix=""):
        addr = self.form["addr"]
        if addr == "mixed":
            addr = "abs" if pos % 2 else "rel"
        return self.arg(os.path.join(self.root, rel), addr, False, suffix)

    def out_file(self, name, base=None):
        """(absolute path of the output file, the argument naming it)"""
        loc = self.form["pub"]
        if base is not None:
            absf = os.path.join(base, name)
        elif loc == "otherdir":
            absf = os.path.join(self.root, "elsewhere", "out dir", name)
        else:
            absf = os.path.join(self.root, name)
        os.makedirs(os.path.dirname(absf), exist_ok=True)
        a, _ = self.arg(absf, "abs" if loc == "abs" else "rel", True)
        return absf, a


class Session:
    """A working directory with image files; repeated signonetime runs in it."""

    def __init__(self, root, layouts, contents, rng, dirs="flat"):
        install_boundary()
        root = os.path.realpath(root)
        self.root = root
        junk = rng.randbytes(9)
        self.decoy = hex_text(Layout([(0, 0x40, junk)], [("ela", 0), ("data", 0x40, junk), ("eof",)]))
        os.makedirs(os.path.join(root, "keys"), exist_ok=True)
        self.layouts = layouts                   # image id (1-based) -> Layout
        self.contents = list(contents)           # image id -> content class
        self.img_paths, self.img_bytes = image_relpaths(dirs, len(layouts)), {}
        for i, lay in enumerate(layouts, 1):
            name = self.img_paths[i]
            os.makedirs(os.path.dirname(os.path.join(root, name)), exist_ok=True)
            write_hex(lay, os.path.join(root, name))
            with open(os.path.join(root, name), "rb") as f:
                self.img_bytes[i] = f.read()
        ncls = max(self.contents)
        self.expected = [None] * ncls            # content class -> oracle digest
        for i, c in enumerate(self.contents, 1):
            d = oracle_digest(layouts[i - 1])
            if self.expected[c - 1] not in (None, d):
                raise ValueError("session: two images of one content class differ")
            self.expected[c - 1] = d
        if len(set(self.expected)) != len(self.expected):
            raise ValueError("session: content classes collide")
        self.session_keys = set()
        self.others = {}
        self.rng = rng

    PUB_NAMES = {1: "pubkey.txt", 2: os.path.join("keys", "onetime.pub")}

    def _run_child(self, argv, cwd=None):
        """The same run in a fresh interpreter through the script's own `__main__` entry; the child
        installs the same recorders and reports the generated scalars / opened paths through a side
        file outside the working directory (removed at once)."""
        import subprocess
        import tempfile
        import ecdsa
        fd, rec = tempfile.mkstemp(prefix="c19child_", suffix=".json", dir=os.path.dirname(self.root))
        os.close(fd)
        script = os.path.join(env.MIDDLEWARE, "signonetime.py")
        code = ("import sys; sys.path.insert(0, %r); from harness import appimage as a; a.child_main()"
                % env.VERIF)
        e = dict(os.environ, PYTHONDONTWRITEBYTECODE="1", PYTHONHASHSEED="0", PYTHONIOENCODING="utf-8",
                 PYTHONUTF8="1")
        try:
            p = subprocess.run([sys.executable, "-c", code, rec, script] + argv[1:], cwd=cwd or self.root,
                               env=e, stdout=subprocess.PIPE, stderr=subprocess.PIPE, text=True,
                               encoding="utf-8", errors="replace", timeout=120)
            with open(rec) as f:
                data = json.load(f)
        finally:
            os.unlink(rec)
        for hx in data["gens"]:
            REG.record(ecdsa.SigningKey.from_string(bytes.fromhex(hx), curve=ecdsa.SECP256k1))
        return p.returncode, data.get("exc"), p.stdout, p.stderr, data["opened"]

    def run(self, imgs, pubn, relative=True, spaces=False, child=False, form=None):
        root = self.root
        if form is None:
            form = {"addr": "rel" if relative else "abs", "cwd": "imgdir", "pub": "rel" if relative else "abs"}
        inv = Invocation(root, form, self.decoy)
        pub_abs, pub_arg = inv.out_file(self.PUB_NAMES[pubn])
        pub_id = pubn + (10 if inv.form["pub"] == "otherdir" else 0)
        spelled = [inv.img_arg(self.img_paths[i], k, ".sig") for k, i in enumerate(imgs)]
        img_args = [a for a, _ in spelled]
        sig_expected = {p: i for (_, p), i in zip(spelled, imgs)}   # where the OS puts `<path given>.sig`
        sep = ", " if spaces else ","
        argv = ["signonetime.py", "-a", sep.join(img_args), "-p", pub_arg]
        if inv.form["opt"] != "none":            # optional flags of the tool, where the parser allows them
            argv = [argv[0], inv.form["opt"]] + argv[1:] if len(imgs) % 2 else argv + [inv.form["opt"]]
        import signonetime
        g0 = len(REG.log)
        REG.active = True
        hins = []
        try:
            if child:
                code, exc, out, err, opened = self._run_child(argv, inv.cwd)
            else:
                with Patched(argv, inv.cwd) as p:
                    code, exc = _call_main(signonetime)
                out, err, opened = p.out.getvalue(), p.err.getvalue(), p.opened
                hins = [bytes(x) for x in p.sha.inputs]
        finally:
            REG.active = False
        gens = REG.log[g0:]
        self.session_keys.update(gens)
        needles = REG.needles(self.session_keys)
        opened = set(opened)
        # every file below the working directory + everything opened for writing elsewhere
        paths = []
        for dp, _dn, fn in os.walk(root):
            for n in fn:
                paths.append(os.path.join(dp, n))
        for q in sorted(opened):
            if q not in paths and os.path.isfile(q):
                paths.append(q)
        paths.sort()
        pubs_by_n = {}
        for k, v in self.PUB_NAMES.items():
            pubs_by_n[os.path.join(root, v)] = k
            pubs_by_n[os.path.join(root, "elsewhere", "out dir", v)] = k + 10
        img_by_path = {os.path.join(root, v): k for k, v in self.img_paths.items()}
        sig_by_path = {os.path.join(root, v) + ".sig": k for k, v in self.img_paths.items()}
        for k in imgs:                   # a signature left next to the file does not count when the
            if os.path.join(root, self.img_paths[k]) + ".sig" not in sig_expected:   # operator named a link
                sig_by_path.pop(os.path.join(root, self.img_paths[k]) + ".sig", None)
        sig_by_path.update(sig_expected)
        # the key in the file at the -p path comes first among the candidates
        cand_keys = []
        pub_vk = None
        if os.path.isfile(pub_abs):
            with open(pub_abs, "rb") as f:
                pub_vk = parse_pub(f.read())
        if pub_vk is not None:
            cand_keys.append((REG.id_of_pub(pub_vk), pub_vk))
        for kid in sorted(self.session_keys | REG.outside):
            if all(kid != c[0] for c in cand_keys):
                cand_keys.append((kid, REG.vks[kid]))
        files, notes = [], []
        for q in paths:
            if not os.path.isfile(q):
                continue
            with open(q, "rb") as f:
                content = f.read()
            if q in pubs_by_n:
                pid = {"k": "pub", "n": pubs_by_n[q]}
            elif q in sig_by_path:
                pid = {"k": "sig", "n": sig_by_path[q]}
            elif q in img_by_path:
                pid = {"k": "img", "n": img_by_path[q]}
            else:
                pid = {"k": "other", "n": self.others.setdefault(q, len(self.others) + 1)}
            untouched = q in img_by_path and content == self.img_bytes[img_by_path[q]] and q not in opened
            rec = {"path": pid, "kind": "other", "key": 0, "by": 0, "over": 0,
                   "leak": False if untouched else leaks(content, needles), "w": q in opened}
            vk = parse_pub(content)
            der = parse_der_sig(content) if vk is None else None
            if q in img_by_path and content == self.img_bytes[img_by_path[q]]:
                rec["kind"] = "image"
            elif vk is not None:
                rec["kind"] = "pub"
                rec["key"] = REG.id_of_pub(vk)
            elif der is not None:
                rec["kind"] = "sig"
                # which (key, content class) does it verify under?  expected pair first
                want = None
                if pid["k"] == "sig":
                    want = self.contents[pid["n"] - 1]
                order = ([want] if want else []) + [c for c in range(1, len(self.expected) + 1) if c != want]
                found = False
                for kid, k in cand_keys:
                    for c in order:
                        if verifies(k, der, self.expected[c - 1]):
                            rec["by"], rec["over"] = kid, c
                            found = True
                            break
                    if found:
                        break
                if not found:
                    for kid, k in cand_keys:     # a valid signature by a known key over something else
                        hints = {"sha256(path)": [hashlib.sha256(x.encode()).digest()
                                                  for x in (self.img_paths.get(pid["n"], ""),
                                                            os.path.join(root, self.img_paths.get(pid["n"], "")))],
                                 "sha256(hex text)": [hashlib.sha256(self.img_bytes.get(pid["n"], b"")).digest()],
                                 "sha1(hash)": [hashlib.sha1(self.expected[(want or 1) - 1]).digest()]}
                        for name, ds in hints.items():
                            if any(verifies(k, der, d) for d in ds):
                                rec["by"] = kid
                                notes.append("%s verifies over %s" % (os.path.basename(q), name))
            files.append(rec)
        # hashes printed: an "App hash:" line belongs to the image named by the "Computing hash for"
        # line before it
        hashes, cur_img = [], None
        by_name = {}
        for a, i in zip(img_args, imgs):
            by_name[a] = i
        for line in out.splitlines():
            m = re.match(r"^Computing hash for '(.*)'\.\.\.\s*$", line)
            if m:
                cur_img = by_name.get(m.group(1))
                continue
            m = re.match(r"^App hash: ([0-9a-fA-F]{64})\s*$", line)
            if m and cur_img is not None:
                hashes.append({"img": cur_img, "ok": True, "digest": list(bytes.fromhex(m.group(1)))})
        run = {"imgs": list(imgs), "pub": {"k": "pub", "n": pub_id}, "gens": list(gens), "exit": code,
               "files": files, "outleak": leaks((out + "\n" + err).encode(), needles), "hashes": hashes}
        info = {"argv": argv, "stdout": out[-600:], "stderr": err[-300:], "exc": exc, "notes": notes,
                "child": child}
        return run, info


def observe_parser(path):
    """ledgerblue's own parser on the file (a library, not code under test): its area list, for the
    drift comparison with the model parser of AppImageProps."""
    from ledgerblue.hexParser import IntelHexParser
    try:
        return [{"z": a.start >> 16, "o": a.start & 0xFFFF, "d": list(a.data)}
                for a in IntelHexParser(path).getAreas()]
    except Exception:
        return None


class AuthSession:
    """A working directory with image files; repeated `signapp message` invocations in it, the -o
    paths possibly holding an authorization already (written here by an independent encoder)."""

    OUT_NAMES = {1: "auth.json", 2: os.path.join("out", "signer_auth.json")}

    def __init__(self, root, layouts, contents, pre, rng, dirs="flat", otherdir=False):
        install_boundary()
        root = os.path.realpath(root)
        self.root = root
        junk = rng.randbytes(9)
        self.decoy = hex_text(Layout([(0, 0x40, junk)], [("ela", 0), ("data", 0x40, junk), ("eof",)]))
        # the -o files of a session stay where they are (so that a path given again is the same file);
        # only the way they are named on the command line changes from one invocation to the next
        self.out_root = os.path.join(root, "elsewhere", "out dir") if otherdir else root
        os.makedirs(os.path.join(self.out_root, "out"), exist_ok=True)
        self.contents = list(contents)
        self.img_paths = image_relpaths(dirs, len(layouts))
        for i, lay in enumerate(layouts, 1):
            os.makedirs(os.path.dirname(os.path.join(root, self.img_paths[i])), exist_ok=True)
            write_hex(lay, os.path.join(root, self.img_paths[i]))
        self.expected = [None] * max(self.contents)
        for i, c in enumerate(self.contents, 1):
            self.expected[c - 1] = oracle_digest(layouts[i - 1])
        # what the -o paths hold beforehand: an authorization for an image that is none of ours
        for n, st in enumerate(pre, 1):
            if st.get("found"):
                other = bytes(rng.randrange(256) for _ in range(32))
                doc = {"version": 1, "signer": {"hash": other.hex(), "iteration": int(st.get("gotiter", 7))},
                       "signatures": list(st.get("signatures", []))}
                with open(os.path.join(self.out_root, self.OUT_NAMES[n]), "w") as f:
                    f.write(json.dumps(doc, indent=2) + "\n")

    def step(self, img, iteration, out, relative=True, form=None):
        import signapp
        root = self.root
        if form is None:
            form = {"addr": "rel" if relative else "abs", "cwd": "imgdir", "pub": "rel" if relative else "abs"}
        inv = Invocation(root, form, self.decoy)
        argv = ["signapp.py", "message", "-a", inv.img_arg(self.img_paths[img], int(iteration))[0], "-i",
                str(iteration)]
        if out:
            out_abs = os.path.join(self.out_root, self.OUT_NAMES[out])
            argv += ["-o", inv.arg(out_abs, "abs" if inv.form["pub"] == "abs" else "rel", True)[0]]
        if inv.form["opt"] != "none":
            argv.append(inv.form["opt"])
        with Patched(argv, inv.cwd) as p:
            code, exc = _call_main(signapp)
        text = p.out.getvalue()
        hx, it = None, -1
        if out:
            try:
                with open(os.path.join(self.out_root, self.OUT_NAMES[out])) as f:
                    doc = json.load(f)
                hx, it = doc["signer"]["hash"], doc["signer"]["iteration"]
            except Exception:
                hx = None
        else:
            m = re.search(r"RSK_powHSM_signer_([0-9a-fA-F]{64})_iteration_(\d+)\s*$", text, re.M)
            if m:
                hx, it = m.group(1), int(m.group(2))
        found = isinstance(hx, str) and re.fullmatch(r"[0-9a-fA-F]{64}", hx) is not None \
            and isinstance(it, int) and not isinstance(it, bool)
        st = {"img": img, "iter": int(iteration), "out": out, "exit": code, "found": bool(found),
              "hash": list(bytes.fromhex(hx)) if found else [], "gotiter": it if found else -1}
        return st, {"argv": argv, "stdout": text[-400:], "exc": exc}


def child_main():
    """Entry of the child interpreter: argv = [-c, recfile, script, tool args...]."""
    import runpy
    rec, script = sys.argv[1], sys.argv[2]
    install_boundary()
    sys.argv = [script] + sys.argv[3:]
    code, exc = 0, None
    _audit["log"] = []
    _audit["armed"] = True
    try:
        runpy.run_path(script, run_name="__main__")
    except SystemExit as e:
        code = e.code if isinstance(e.code, int) else (0 if e.code is None else 1)
    except BaseException as e:      # noqa
        code, exc = 70, type(e).__name__
    finally:
        _audit["armed"] = False
    sys.stdout.flush()
    with open(rec, "w") as f:
        json.dump({"gens": [REG.keys[k].to_string().hex() for k in REG.log if k in REG.keys],
                   "opened": list(_audit["log"]), "exc": exc}, f)
    os._exit(code)


def trace_of_layout(tid, layout, reports, hins, small, pareas=None):
    t = {"id": tid, "kind": "layout", "small": bool(small), "mayrefuse": bool(layout.mayrefuse),
         "expected": list(oracle_digest(layout)),
         "reports": [{"via": r["via"], "ok": bool(r["ok"]), "digest": list(r["digest"])} for r in reports],
         "total": layout.total(), "hinlens": [len(h) for h in hins],
         "tlen": len(hex_text(layout)), "tthr": (layout.scale or {}).get("thr", 0),
         "tside": (layout.scale or {}).get("side", "none"),
         "areas": [], "file": [], "oin": [], "hins": [], "parsed": pareas is not None, "pareas": []}
    if small:
        t["pareas"] = pareas or []
        t["areas"] = [{"z": z, "o": o, "d": list(d)} for (z, o, d) in layout.areas]
        recs = []
        for r in layout.records:
            if r[0] == "ela":
                recs.append({"t": "ela", "z": r[1], "a": 0, "d": []})
            elif r[0] == "data":
                recs.append({"t": "data", "z": 0, "a": r[1], "d": list(r[2])})
            elif r[0] == "eof":
                recs.append({"t": "eof", "z": 0, "a": 0, "d": []})
            else:
                recs.append({"t": "sla", "z": 0, "a": 0, "d": []})
        t["file"] = recs
        t["oin"] = list(oracle_input(layout))
        t["hins"] = [list(h) for h in hins]
    return t
