#!/bin/bash
# Offline setup: nothing is installed. Parse every specification with SANY and byte-compile the harness
# (to a throw-away directory) so that a broken tree is noticed before any check runs.
set -e
cd "$(dirname "$0")"
fail=0
for f in spec/*.tla; do
  m=$(basename "$f" .tla)
  out=$(cd spec && java -cp /opt/veriftools/tla/tla2tools.jar:/opt/veriftools/tla/CommunityModules-deps.jar tla2sany.SANY "$m.tla" 2>&1) || true
  if echo "$out" | grep -q "Parse Error\|Semantic errors\|Fatal errors\|\*\*\* Errors\|Could not"; then echo "SANY FAILED: $m"; echo "$out" | tail -20; fail=1; fi
done
PYTHONDONTWRITEBYTECODE=1 /venv/bin/python - <<'PY'
import ast, sys, pathlib
bad = 0
for p in list(pathlib.Path("harness").rglob("*.py")) + [pathlib.Path("check")]:
    try:
        ast.parse(p.read_text())
    except SyntaxError as e:
        print("syntax error", p, e); bad = 1
sys.exit(bad)
PY
mkdir -p evidence replays
if [ $fail = 0 ]; then echo "setup ok"; else echo "setup: SANY reported problems (the owning checks will fail as machinery errors)"; fi
exit 0
