#!/usr/bin/env python3
"""Regenerates MANIFEST.json from tools/manifest_src.json (claims) + properties.jsonl (ids)."""
import json, os
HERE = os.path.dirname(os.path.dirname(os.path.abspath(__file__)))
src = json.load(open(os.path.join(HERE, "tools", "manifest_src.json")))
ids = [json.loads(l)["id"] for l in open(os.path.join(HERE, "properties.jsonl"))]
checks, na = [], []
for pid in ids:
    c = src["checks"].get(pid)
    if c is None:
        na.append({"property_id": pid, "reason": src["not_applicable"].get(pid, "check not built yet in this round (planned: see DESIGN.md section 5)")})
        continue
    checks.append({
        "property_id": pid,
        "quick_cmd": "./check %s --tier quick" % pid,
        "thorough_cmd": "./check %s --tier thorough" % pid,
        "evidence_file": "/verif/evidence/%s.json" % pid,
        "replay_cmd_template": "./check %s --replay {path}" % pid,
        "engine": "tlc",
        "level_claimed": {"category": "model_checking", "text": c["text"], "design_ref": c.get("design_ref", "DESIGN.md section 5, " + pid)},
        "level_note": c["note"],
        "technique": c["technique"],
    })
m = {
    "version": 1,
    "setup_cmd": "./setup.sh",
    "hooks": {"guard": "POWHSM_VERIF", "enable": "no in-repo hooks: all observation and fault injection happens at process boundaries patched from the harness process (DESIGN.md 3.4); checks set POWHSM_VERIF=1 for form",
              "baseline_off_cmd": "cd /repo && /venv/bin/python -m pytest -ra -q -p no:cacheprovider --timeout=900 --continue-on-collection-errors",
              "source_commits": src.get("hook_commits", []), "add_only": True},
    "engines": [{"name": "tlc", "path": "/opt/veriftools/tla/tla2tools.jar", "serves_properties": [c["property_id"] for c in checks],
                 "kind_free_text": "TLC 1.8 explicit-state model checker: exhaustive design checks of spec/*.tla, behaviour generation replayed into the real middleware, batch validation of traces recorded from the real code"}],
    "checks": checks,
    "notes": src.get("notes", ""),
    "not_applicable": na,
}
json.dump(m, open(os.path.join(HERE, "MANIFEST.json"), "w"), indent=1)
print("checks:", [c["property_id"] for c in checks], "n/a:", [n["property_id"] for n in na])
