#!/usr/bin/env python3
"""tools/eval_seed.py <PID> [more check ids...]  — confirm a change written by an independent sub-agent
(/tmp/seed_<PID>_out: patch.diff, demo*, meta.json) and run the framework's checks against it:
  1. patch applies to a fresh scratch worktree of /repo HEAD; the pinned suite still gives the baseline
  2. the demonstration passes on the unchanged tree and fails with the change
  3. ./check <PID> (VERIF_REPO = the patched worktree) -> exit code / violation signatures
Keeps the change as /verif/seeded/<PID>/ with meta.json extended by what was run. Scratch worktrees are removed."""
import json, os, shutil, subprocess, sys, tempfile, glob, re

pid = sys.argv[1]
checks = sys.argv[2:] or [pid]
tier = os.environ.get("SEED_TIER", "quick")
rnd = os.environ.get("SEED_ROUND", "1")
src = "/tmp/seed_%s_out" % pid if rnd == "1" else "/tmp/seed%s_%s_out" % (rnd, pid)
dst = "/verif/seeded/%s" % pid if rnd == "1" else "/verif/seeded/%s_r%s" % (pid, rnd)
PY = "/venv/bin/python"


def sh(cmd, cwd=None, env=None, timeout=3600):
    p = subprocess.run(cmd, shell=isinstance(cmd, str), cwd=cwd, env=env, stdout=subprocess.PIPE,
                       stderr=subprocess.STDOUT, text=True, timeout=timeout)
    return p.returncode, p.stdout


def worktree():
    d = tempfile.mkdtemp(prefix="seedwt_")
    os.rmdir(d)
    rc, out = sh(["git", "-C", "/repo", "worktree", "add", "--detach", d, "HEAD"])
    assert rc == 0, out
    return d


def rm_worktree(d):
    sh(["git", "-C", "/repo", "worktree", "remove", "--force", d])
    shutil.rmtree(d, ignore_errors=True)


report = {"ran": {}}
clean, patched = worktree(), worktree()
try:
    rc, out = sh(["git", "-C", patched, "apply", os.path.join(src, "patch.diff")])
    report["ran"]["git apply on HEAD"] = "ok" if rc == 0 else out[-400:]
    if rc != 0:
        rc, out = sh(["git", "-C", patched, "apply", "--3way", os.path.join(src, "patch.diff")])
        report["ran"]["git apply --3way"] = "ok" if rc == 0 else out[-400:]
        assert rc == 0, "patch does not apply"
    rc, out = sh("%s -m pytest -q -p no:cacheprovider --timeout=900 --continue-on-collection-errors 2>&1 | tail -1" % PY, cwd=patched)
    report["ran"]["pinned suite with the change"] = out.strip()
    suite_ok = "468 passed" in out and "failed" not in out
    demos = [f for f in sorted(glob.glob(os.path.join(src, "*demo*.py")))]
    assert demos, "no demo"
    demo = demos[0]
    env = dict(os.environ, PYTHONDONTWRITEBYTECODE="1")
    if os.path.basename(demo).startswith("test_"):
        mk = lambda wt: ("REPO_DIR=%s %s -m pytest -q -p no:cacheprovider %s" % (wt, PY, demo))
    else:
        mk = lambda wt: ("REPO_DIR=%s %s %s %s" % (wt, PY, demo, wt))
    rc_c, out_c = sh(mk(clean), cwd=src, env=env, timeout=1800)
    rc_p, out_p = sh(mk(patched), cwd=src, env=env, timeout=1800)
    report["ran"]["demo on unchanged tree"] = "exit %d" % rc_c
    report["ran"]["demo with the change"] = "exit %d: %s" % (rc_p, out_p.strip().splitlines()[-1][:200] if out_p.strip() else "")
    demo_ok = rc_c == 0 and rc_p != 0
    results = {}
    for c in checks:
        e = dict(os.environ, VERIF_REPO=patched)
        rc, out = sh(["./check", c, "--tier", tier], cwd="/verif", env=e, timeout=4000)
        sigs = re.findall(r"^  signature: (.*)$", out, re.M)
        results[c] = {"exit": rc, "signatures": sigs[:6], "summary": out.strip().splitlines()[-1] if out.strip() else ""}
    report["checks"] = results
    report["confirmed"] = bool(suite_ok and demo_ok)
    report["detected_by"] = [c for c, r in results.items() if r["exit"] == 1]
finally:
    rm_worktree(clean)
    rm_worktree(patched)
os.makedirs(dst, exist_ok=True)
for f in os.listdir(src):
    s = os.path.join(src, f)
    if os.path.isdir(s):
        shutil.copytree(s, os.path.join(dst, f), dirs_exist_ok=True, ignore=shutil.ignore_patterns("__pycache__"))
    elif not f.endswith(".pyc"):
        shutil.copy(s, os.path.join(dst, f))
try:
    meta = json.load(open(os.path.join(src, "meta.json")))
except Exception:
    meta = {"property": pid}
meta["evaluation"] = report
json.dump(meta, open(os.path.join(dst, "meta.json"), "w"), indent=1)
# restore evidence files the mutant run overwrote
sh(["git", "-C", "/verif", "checkout", "--"] + ["evidence/%s.json" % c for c in checks])
print(json.dumps(report, indent=1))
