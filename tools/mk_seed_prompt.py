#!/usr/bin/env python3
"""Builds the prompt given to a fresh seeding sub-agent (it sees only this text and its own scratch worktree).
usage: tools/mk_seed_prompt.py ROUND CNN STEERING > /tmp/seedprompts<ROUND>/CNN.txt
STEERING is a file name under tools/seed_steering (history, device_side, issuer_side, ...) or 'none'."""
import json, os, sys, glob
here = os.path.dirname(os.path.abspath(__file__))
rnd, pid, steer = sys.argv[1], sys.argv[2], sys.argv[3]
prop = next(p for p in map(json.loads, open(os.path.join(here, "..", "properties.jsonl"))) if p["id"] == pid)
sd = os.path.join(here, "seed_steering")
rd = lambda n: open(os.path.join(sd, n)).read()
out = rd("template_head.txt").replace("{pid}", pid) + "\n"
out += "  %s - %s\n  %s\n  Quantified over: %s\n  Code it is anchored in: %s\n\n" % (
    pid, prop["title"], prop["statement"], prop["quantifier"]["text"], ", ".join(prop["anchors"]["files"]))
out += rd("template_body.txt").replace("{pid}", pid).replace("{round}", rnd) + "\n"
prev = []
for d in sorted(glob.glob(os.path.join(here, "..", "seeded", pid + "*")),
                key=lambda s: (len(os.path.basename(s)), s)):
    try:
        m = json.load(open(os.path.join(d, "meta.json")))
    except Exception:
        continue
    prev.append('  %d. "%s" (files: %s)' % (len(prev) + 1, m.get("summary", "")[:220],
                ", ".join(os.path.basename(f) for f in m.get("files_changed", []))))
out += "IMPORTANT - ROUND %s. Other engineers already delivered the following changes for this property:\n" % rnd
out += "\n".join(prev) + "\n"
out += rd(steer + ".txt") if steer != "none" else "Produce a change of a kind none of them is.\n"
sys.stdout.write(out)
