#!/usr/bin/env python3
"""Regenerate seeded/README.md from seeded/*/meta.json (written by tools/eval_seed.py) and seeded/first_outcome.json
(what the owning check reported the first time it was run against the seed, before any strengthening)."""
import glob, json, os

HERE = os.path.join(os.path.dirname(os.path.abspath(__file__)), "..", "seeded")
first = json.load(open(os.path.join(HERE, "first_outcome.json")))
rows = []
for d in sorted(glob.glob(os.path.join(HERE, "C*"))):
    name = os.path.basename(d)
    m = json.load(open(os.path.join(d, "meta.json")))
    ev = m.get("evaluation", {})
    chk = ev.get("checks", {})
    sig = ""
    for k, v in chk.items():
        if v.get("exit") == 1 and v.get("signatures"):
            sig = "%s: %s" % (k, v["signatures"][0][:90])
            break
    rows.append((name, m.get("summary", "")[:150].replace("|", "/"), m.get("needs_to_manifest", "")[:200].replace("|", "/"),
                 ev.get("confirmed"), first.get(name, "?"), sig or "**not detected**"))
out = ["# Seeded changes", "",
       "Each directory holds a property-breaking change to rsksmart/rsk-powhsm written by a fresh sub-agent that saw only the",
       "text of one property and its own scratch worktree (nothing from /verif): `patch.diff`, the agent's demonstration",
       "(`demo.py`, stubs) and `meta.json` (what it breaks, what it needs to manifest, and under `evaluation` what",
       "`tools/eval_seed.py <id>` ran: patch applies to HEAD, pinned suite still 468 passed / 25 collection errors, demonstration",
       "passes on the unchanged tree and fails with the change, exit code and violation signatures of `./check <id>` run with",
       "`VERIF_REPO` pointing at a scratch worktree carrying the change; scratch worktrees are removed afterwards).",
       "`_r2` / `_r3` directories are later rounds (\"a different mechanism than the ones already delivered\").",
       "Column *first run*: what the owning check reported before anything was changed in response to the seed;",
       "*now*: the first violation signature it reports today (DESIGN.md 9.5 says what was extended).", "",
       "| id | change | needs to manifest | confirmed | first run | now |", "|---|---|---|---|---|---|"]
for r in rows:
    out.append("| %s | %s | %s | %s | %s | %s |" % r)
open(os.path.join(HERE, "README.md"), "w").write("\n".join(out) + "\n")
print("%d seeds, %d detected now" % (len(rows), sum(1 for r in rows if not r[5].startswith("**"))))
