#!/bin/bash
# usage: tools/with_mutant.sh <patch-file | -e 'sed-expr file'> -- <command...>
# Applies a patch to a scratch worktree of /repo (outside /repo and /verif), runs the command with
# VERIF_REPO pointing at it, removes the worktree. Exit code = the command's.
set -u
WT=$(mktemp -d /tmp/mut_XXXXXX)
rmdir "$WT"
git -C /repo worktree add --detach "$WT" HEAD >/dev/null 2>&1 || { echo "worktree failed"; exit 3; }
trap 'git -C /repo worktree remove --force "$WT" >/dev/null 2>&1; rm -rf "$WT"' EXIT
if [ "$1" = "-e" ]; then
  sed -i "$2" "$WT/$3"; shift 3
  (cd "$WT" && git diff --stat | tail -1)
else
  git -C "$WT" apply "$(realpath "$1")" || { echo "apply failed"; exit 3; }; shift
fi
[ "$1" = "--" ] && shift
VERIF_REPO="$WT" "$@"
