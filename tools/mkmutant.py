#!/usr/bin/env python3
"""mkmutant.py <name> <repo-relative-file> <<< 'OLD\n=====\nNEW'  -> writes mutants/<name>.patch
(string replacement on the file at /repo HEAD; used for the framework's own self-test mutants)."""
import subprocess, sys, os, tempfile, shutil
name, rel = sys.argv[1], sys.argv[2]
old, new = sys.stdin.read().split("\n=====\n")
new = new.rstrip("\n") if not old.endswith("\n") else new
src = subprocess.run(["git", "-C", "/repo", "show", "HEAD:" + rel], capture_output=True, text=True, check=True).stdout
assert src.count(old) >= 1, "pattern not found"
assert src.count(old) == 1, "pattern not unique (%d)" % src.count(old)
mut = src.replace(old, new)
d = tempfile.mkdtemp()
try:
    a = os.path.join(d, "a", rel); b = os.path.join(d, "b", rel)
    os.makedirs(os.path.dirname(a)); os.makedirs(os.path.dirname(b))
    open(a, "w").write(src); open(b, "w").write(mut)
    p = subprocess.run(["diff", "-u", "a/" + rel, "b/" + rel], cwd=d, capture_output=True, text=True)
    out = os.path.join(os.path.dirname(os.path.dirname(os.path.abspath(__file__))), "mutants", name + ".patch")
    open(out, "w").write(p.stdout)
    print("wrote", out)
finally:
    shutil.rmtree(d)
