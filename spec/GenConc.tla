------------------------------ MODULE GenConc ------------------------------
EXTENDS Conc, Json
\* the client-side schedule (order of connects and sends) is what a replay can control
EmitB == (\A c \in Clients : cst[c] \in {"sent", "handling", "replied", "closed"}) =>
            PrintT("B " \o ToJson(sched))
=============================================================================
