--------------------------- MODULE AttestFlowProps ---------------------------
(***************************************************************************)
(* C15 - attestations gathered from a genuine device verify end to end;    *)
(* any alteration makes gathering or verification fail.                    *)
(*                                                                         *)
(* Constants-free part, shared by the model (AttestFlow) and by the trace  *)
(* specification (TraceAttestFlow) that judges what the real commands did: *)
(*   - symbolic cryptography (DESIGN.md 3.3),                              *)
(*   - the observation record and what a genuine device obliges a verifier *)
(*     to print (Expect),                                                  *)
(*   - the property clauses.                                               *)
(*                                                                         *)
(* An observation o is what can be seen from outside one end-to-end run:   *)
(*   plat      "ledger" | "sgx"                                            *)
(*   alt       "none" for a genuine run, otherwise the site of THE altered *)
(*             thing (a signed field, a signature, a certificate, a page,  *)
(*             the root of trust)                                          *)
(*   dev       ground truth of the device (values as the verifier must     *)
(*             print them; "" = not applicable on this platform/framing)   *)
(*   g_onboard, g_attest   "ok" | "fail" | "na": the gathering commands    *)
(*   gather    "ok" iff every gathering command returned and wrote its file*)
(*   file0/reload0  the certificate written by onboarding, and the same    *)
(*             after load ; save (Ledger)                                  *)
(*   file/reload    the gathered certificate, and after load ; save        *)
(*   reload_ok "ok" | "fail" | "na"                                        *)
(*   verify, printed    outcome of the verify command on `file`, and the   *)
(*             values it printed;   verify2, printed2: same on `reload`    *)
(*                                                                         *)
(* and of the network the tools talk to:                                   *)
(*   udsrc     "hex": the operator typed the user-defined (UD) value;      *)
(*             "node": it is the hash of the best block of a Rootstock     *)
(*             node (two JSON-RPC POSTs: eth_blockNumber, then             *)
(*             eth_getBlockByNumber [number, false])                       *)
(*   node, node_at   what that node does (ProperNode, or a misbehaviour    *)
(*             at call node_at); node_n: the block number it reports, as   *)
(*             a JSON-RPC quantity; node_url: where it lives               *)
(*   rootvia   "file" | "url": where SGX verification takes the root of    *)
(*             trust from; root_url                                        *)
(*   http      every HTTP request the tools made, in order                 *)
(*   ud_sent   the UD value the device was handed ("" = none)              *)
(*   att_file  "yes" iff the attestation command left an output file       *)
(*   contacted "yes" iff the attestation command opened the device link    *)
(*   hist      the history: "single", or two attestation runs (see         *)
(*             AttestFlow); everything above describes the SECOND run and  *)
(*             the file it wrote; prev_ok: the first run succeeded;        *)
(*             dev_prev: the device's values in the first run;             *)
(*             earlier_before / earlier_after: the files of the first run  *)
(*             (and of onboarding) that the second run was not to write    *)
(*             to, before and after it; verify_prev, printed_prev: the     *)
(*             verify command on the first run's file, after the second    *)
(*   tz        the time zone of the machine the verify command ran on       *)
(*   when_who, when_kind   the certificate of the SGX chain one edge of     *)
(*             whose validity period lies within hours of the clock, and    *)
(*             which ("far": none); expired1h / notyet1h are out of period  *)
(*             (then alt = "period": the chain must be refused)             *)
(*   digsite, digclass   which digest of the genuine device was ground to   *)
(*             which class (z1 / z2: ends in one / two zero bytes, lz:     *)
(*             starts with one, sp / nl: ends in a blank / line feed)      *)
(*   sigsite, sigclass   which signature(s) of the genuine device were     *)
(*             ground to which "<r class>/<s class>" shape ("none", "any") *)
(*   g_err, v_err   "none" | "AdminError" | "raw": how the attestation /   *)
(*             verify command ended (raw = any other exception class)      *)
(***************************************************************************)
EXTENDS Naturals, Sequences, TLC

(***************************************************************************)
(* Symbolic cryptography: a signature names its key, tweak and message.    *)
(* Messages are sequences of field ids; hashes are ids of what was hashed. *)
(***************************************************************************)
NoSig == [by |-> "nobody", tw |-> "none", over |-> <<>>]
Sign(k, tw, m) == [by |-> k, tw |-> tw, over |-> m]
Verifies(s, k, tw, m) == s.by = k /\ s.tw = tw /\ s.over = m

(***************************************************************************)
(* Printed values.                                                         *)
(***************************************************************************)
PrintFields == {"ui_ud", "ui_pub", "ui_shash", "ui_iter", "ui_hash", "ui_ver", "keys", "pkhash",
                "s_hash", "s_ver", "s_plat", "s_ud", "s_best", "s_ltx", "s_ts", "mrenclave", "mrsigner"}
NoPrinted == [ui_ud |-> "", ui_pub |-> "", ui_shash |-> "", ui_iter |-> "", ui_hash |-> "",
              ui_ver |-> "", keys |-> <<>>, pkhash |-> "", s_hash |-> "", s_ver |-> "", s_plat |-> "",
              s_ud |-> "", s_best |-> "", s_ltx |-> "", s_ts |-> "", mrenclave |-> "", mrsigner |-> ""]
Printed(p) == [f \in PrintFields |-> p[f]]

\* What the matching verify command must print for a device whose ground truth is d
\* (docs/attestation.md, "Tooling": UI block + signer block on Ledger, powHSM block on SGX; a legacy
\* signer message carries the public keys hash only).
Expect(d) ==
    IF d.plat = "ledger" THEN
        [ui_ud |-> d.ud, ui_pub |-> d.btc_c, ui_shash |-> d.auth_hash, ui_iter |-> d.iter,
         ui_hash |-> d.ui_hash, ui_ver |-> d.ui_ver, keys |-> d.keys, pkhash |-> d.pkhash,
         s_hash |-> d.signer_hash, s_ver |-> d.s_ver,
         s_plat |-> IF d.framing = "legacy" THEN "" ELSE d.platform,
         s_ud   |-> IF d.framing = "legacy" THEN "" ELSE d.ud,
         s_best |-> IF d.framing = "legacy" THEN "" ELSE d.best,
         s_ltx  |-> IF d.framing = "legacy" THEN "" ELSE d.ltx,
         s_ts   |-> IF d.framing = "legacy" THEN "" ELSE d.ts,
         mrenclave |-> "", mrsigner |-> ""]
    ELSE
        [ui_ud |-> "", ui_pub |-> "", ui_shash |-> "", ui_iter |-> "", ui_hash |-> "", ui_ver |-> "",
         keys |-> d.keys, pkhash |-> d.pkhash, s_hash |-> "", s_ver |-> d.s_ver, s_plat |-> d.platform,
         s_ud |-> d.ud, s_best |-> d.best, s_ltx |-> d.ltx, s_ts |-> d.ts,
         mrenclave |-> d.mrenclave, mrsigner |-> d.mrsigner]

(***************************************************************************)
(* C15 on observations.                                                    *)
(***************************************************************************)
ProperNode == {"ok", "grew", "reorg"}
\* node misbehaviours after which get_ud_value_for_attestation, as it is coded today, lets a KeyError /
\* TypeError / ValueError escape instead of raising AdminError (block without hash, null block, hash
\* of the wrong length, not hex, without 0x).  The tool still stops (adm_* prints the text, exit 4).
RawAsCoded == {"nohash", "nullblock", "hashlen", "hashnothex", "hashnoprefix"}
NodeSane(o) == o.udsrc = "hex" \/ o.node \in ProperNode
\* nothing was altered and the network behaved
Genuine(o) == o.alt = "none" /\ NodeSane(o)

\* the shape the featured signature(s) of the run were ground to ("any": left to the nonce)
CompClasses == {"h32", "l32", "b31h", "b31l", "b30", "any"}
ShapeClasses == {a \o "/" \o b : a \in CompClasses, b \in CompClasses}
WellFormedP(o) ==
    /\ o.plat \in {"ledger", "sgx"}
    /\ o.hist \in {"single", "reattest", "inplace", "sameout", "reuse0", "two"}
    /\ o.tz \in {"UTC0", "PST8", "JST-9", "<+14>-14", "<-12>12"}
    /\ o.when_kind \in {"far", "issued1h", "expires1h", "expired1h", "notyet1h"}
    /\ (o.when_kind \in {"expired1h", "notyet1h"}) => o.alt # "none"      \* out of period is not genuine
    /\ o.sigclass \in (ShapeClasses \cup {"any"})
    /\ o.digclass \in {"ord", "z1", "z2", "lz", "sp", "nl"} /\ ((o.digsite = "none") <=> (o.digclass = "ord"))
    /\ ((o.sigsite = "none") <=> (o.sigclass = "any"))
    /\ o.gather \in {"ok", "fail"} /\ o.verify \in {"ok", "fail", "na"}
    /\ o.g_onboard \in {"ok", "fail", "na"} /\ o.g_attest \in {"ok", "fail", "na"}
    /\ (o.gather = "ok") <=> (o.g_attest = "ok" /\ (o.plat = "ledger" => o.g_onboard = "ok"))
    /\ (o.gather = "fail") => o.verify = "na"
    /\ (o.gather = "ok") => o.verify # "na"

\* a genuine device: both gathering commands succeed ...
GenuineGathersP(o) == Genuine(o) => o.gather = "ok"
\* ... and the matching verify command accepts what they wrote, with exactly the device's values
GenuineVerifiesP(o) == (Genuine(o) /\ o.gather = "ok") =>
                          (o.verify = "ok" /\ Printed(o.printed) = Expect(o.dev))
\* any alteration: gathering or verification fails
AlteredFailsP(o) == (~Genuine(o)) => (o.gather = "fail" \/ o.verify = "fail")
\* the files written load back without loss (load ; save gives the same document) ...
LosslessP(o) == /\ (o.g_onboard = "ok") => o.reload0 = o.file0
                /\ (o.gather = "ok") => (o.reload_ok = "ok" /\ o.reload = o.file)
\* ... and what was loaded back is judged exactly like the original
ReloadedSameVerdictP(o) == (o.gather = "ok" /\ o.reload_ok = "ok") =>
                              (o.verify2 = o.verify /\ Printed(o.printed2) = Printed(o.printed))

(***************************************************************************)
(* The network side.                                                       *)
(***************************************************************************)
Posts(o) == SelectSeq(o.http, LAMBDA c : c.verb = "post")
Gets(o)  == SelectSeq(o.http, LAMBDA c : c.verb = "get")
RpcCall(o, m, ps) == [verb |-> "post", url |-> o.node_url, ctype |-> "application/json",
                      version |-> "2.0", idkind |-> "int", method |-> m, params |-> ps]
Call(c) == [f \in {"verb", "url", "ctype", "version", "idkind", "method", "params"} |-> c[f]]
ExpectedPosts(o) == IF o.udsrc = "hex" \/ o.g_onboard = "fail" THEN 0
                    ELSE IF o.node \notin ProperNode /\ o.node_at = 1 THEN 1 ELSE 2
\* the node is asked exactly what the protocol says: the best block number, then THAT block
NodeProtocolP(o) ==
    LET ps == Posts(o) IN
    /\ Len(ps) = ExpectedPosts(o)
    /\ (Len(ps) >= 1) => Call(ps[1]) = RpcCall(o, "eth_blockNumber", <<>>)
    /\ (Len(ps) >= 2) => Call(ps[2]) = RpcCall(o, "eth_getBlockByNumber", <<o.node_n, "false">>)
\* whatever the source, the device is handed exactly the intended UD value (for a node: the hash it
\* reported for that block at the second call, which is o.dev.ud)
UdDeliveredP(o) == (o.gather = "ok") => o.ud_sent = o.dev.ud
\* a misbehaving node: the attestation command stops with an error before touching the device and
\* leaves no file
NodeBadP(o) == (o.udsrc = "node" /\ o.node \notin ProperNode /\ o.g_onboard # "fail") =>
                  /\ o.g_attest = "fail" /\ o.att_file = "no" /\ o.contacted = "no"
                  /\ (o.g_err = "AdminError" \/ (o.g_err = "raw" /\ o.node \in RawAsCoded))
\* the strict form (what one would like): always an AdminError.  Violated by the code as it is for
\* exactly RawAsCoded (configuration Known2_AttestFlow).
NodeBadStrictP(o) == (o.udsrc = "node" /\ o.node \notin ProperNode /\ o.g_onboard # "fail") =>
                        o.g_err = "AdminError"
\* root of trust by URL: one GET of that URL per verification, none otherwise; a verification that
\* fails does so with an AdminError, never with another exception class
VerifyRuns(o) == (IF o.verify = "na" THEN 0 ELSE 1) + (IF o.verify2 = "na" THEN 0 ELSE 1)
                 + (IF o.verify_prev = "na" THEN 0 ELSE 1)
RootFetchP(o) ==
    LET gs == Gets(o) IN
    /\ Len(gs) = (IF o.rootvia = "url" THEN VerifyRuns(o) ELSE 0)
    /\ \A i \in 1..Len(gs) : gs[i].url = o.root_url
    /\ (o.rootvia = "url" /\ o.verify = "fail") => o.v_err = "AdminError"

(***************************************************************************)
(* Histories: state across runs.                                           *)
(***************************************************************************)
HistKinds == {"single", "reattest", "inplace", "sameout", "reuse0", "two"}
\* the first run of a history is a genuine one and must have succeeded
FirstRunGathersP(o) == (o.hist # "single" /\ o.g_onboard # "fail") => o.prev_ok = "ok"
\* earlier files stay as they were
EarlierKeptP(o) == o.earlier_after = o.earlier_before
\* and the first run's own file still verifies with the values of THAT run
\* (a wrong root of trust or an out-of-period chain certificate spoil the first run's file as well)
PrevKeptP(o) == (o.hist \in {"reattest", "reuse0", "two"} /\ o.gather = "ok" /\ o.alt \notin {"root", "period"}) =>
                   (o.verify_prev = "ok" /\ Printed(o.printed_prev) = Expect(o.dev_prev))

Clauses(o) == <<
    <<"WellFormed", WellFormedP(o)>>,
    <<"FirstRunGathers", FirstRunGathersP(o)>>,
    <<"NodeBad", NodeBadP(o)>>,
    <<"NodeProtocol", NodeProtocolP(o)>>,
    <<"UdDelivered", UdDeliveredP(o)>>,
    <<"RootFetch", RootFetchP(o)>>,
    <<"GenuineGathers", GenuineGathersP(o)>>,
    <<"GenuineVerifies", GenuineVerifiesP(o)>>,
    <<"AlteredFails", AlteredFailsP(o)>>,
    <<"Lossless", LosslessP(o)>>,
    <<"ReloadedSameVerdict", ReloadedSameVerdictP(o)>>,
    <<"EarlierKept", EarlierKeptP(o)>>,
    <<"PrevKept", PrevKeptP(o)>> >>
=============================================================================
