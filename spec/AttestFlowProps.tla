--------------------------- MODULE AttestFlowProps ---------------------------
(***************************************************************************)
(* C15 - attestations gathered from a genuine device verify end to end;    *)
(* any alteration makes gathering or verification fail.                    *)
(*                                                                         *)
(* Constants-free part, shared by the model (AttestFlow) and by the trace  *)
(* specification (TraceAttestFlow) that judges what the real commands did: *)
(*   - symbolic cryptography (DESIGN.md 3.3),                              *)
(*   - the observation record and what a genuine device obliges a verifier *)
(*     to print (Expect),                                                  *)
(*   - the property clauses.                                               *)
(*                                                                         *)
(* An observation o is what can be seen from outside one end-to-end run:   *)
(*   plat      "ledger" | "sgx"                                            *)
(*   alt       "none" for a genuine run, otherwise the site of THE altered *)
(*             thing (a signed field, a signature, a certificate, a page,  *)
(*             the root of trust)                                          *)
(*   dev       ground truth of the device (values as the verifier must     *)
(*             print them; "" = not applicable on this platform/framing)   *)
(*   g_onboard, g_attest   "ok" | "fail" | "na": the gathering commands    *)
(*   gather    "ok" iff every gathering command returned and wrote its file*)
(*   file0/reload0  the certificate written by onboarding, and the same    *)
(*             after load ; save (Ledger)                                  *)
(*   file/reload    the gathered certificate, and after load ; save        *)
(*   reload_ok "ok" | "fail" | "na"                                        *)
(*   verify, printed    outcome of the verify command on `file`, and the   *)
(*             values it printed;   verify2, printed2: same on `reload`    *)
(***************************************************************************)
EXTENDS Naturals, Sequences, TLC

(***************************************************************************)
(* Symbolic cryptography: a signature names its key, tweak and message.    *)
(* Messages are sequences of field ids; hashes are ids of what was hashed. *)
(***************************************************************************)
NoSig == [by |-> "nobody", tw |-> "none", over |-> <<>>]
Sign(k, tw, m) == [by |-> k, tw |-> tw, over |-> m]
Verifies(s, k, tw, m) == s.by = k /\ s.tw = tw /\ s.over = m

(***************************************************************************)
(* Printed values.                                                         *)
(***************************************************************************)
PrintFields == {"ui_ud", "ui_pub", "ui_shash", "ui_iter", "ui_hash", "ui_ver", "keys", "pkhash",
                "s_hash", "s_ver", "s_plat", "s_ud", "s_best", "s_ltx", "s_ts", "mrenclave", "mrsigner"}
NoPrinted == [ui_ud |-> "", ui_pub |-> "", ui_shash |-> "", ui_iter |-> "", ui_hash |-> "",
              ui_ver |-> "", keys |-> <<>>, pkhash |-> "", s_hash |-> "", s_ver |-> "", s_plat |-> "",
              s_ud |-> "", s_best |-> "", s_ltx |-> "", s_ts |-> "", mrenclave |-> "", mrsigner |-> ""]
Printed(p) == [f \in PrintFields |-> p[f]]

\* What the matching verify command must print for a device whose ground truth is d
\* (docs/attestation.md, "Tooling": UI block + signer block on Ledger, powHSM block on SGX; a legacy
\* signer message carries the public keys hash only).
Expect(d) ==
    IF d.plat = "ledger" THEN
        [ui_ud |-> d.ud, ui_pub |-> d.btc_c, ui_shash |-> d.auth_hash, ui_iter |-> d.iter,
         ui_hash |-> d.ui_hash, ui_ver |-> d.ui_ver, keys |-> d.keys, pkhash |-> d.pkhash,
         s_hash |-> d.signer_hash, s_ver |-> d.s_ver,
         s_plat |-> IF d.framing = "legacy" THEN "" ELSE d.platform,
         s_ud   |-> IF d.framing = "legacy" THEN "" ELSE d.ud,
         s_best |-> IF d.framing = "legacy" THEN "" ELSE d.best,
         s_ltx  |-> IF d.framing = "legacy" THEN "" ELSE d.ltx,
         s_ts   |-> IF d.framing = "legacy" THEN "" ELSE d.ts,
         mrenclave |-> "", mrsigner |-> ""]
    ELSE
        [ui_ud |-> "", ui_pub |-> "", ui_shash |-> "", ui_iter |-> "", ui_hash |-> "", ui_ver |-> "",
         keys |-> d.keys, pkhash |-> d.pkhash, s_hash |-> "", s_ver |-> d.s_ver, s_plat |-> d.platform,
         s_ud |-> d.ud, s_best |-> d.best, s_ltx |-> d.ltx, s_ts |-> d.ts,
         mrenclave |-> d.mrenclave, mrsigner |-> d.mrsigner]

(***************************************************************************)
(* C15 on observations.                                                    *)
(***************************************************************************)
Genuine(o) == o.alt = "none"

WellFormedP(o) ==
    /\ o.plat \in {"ledger", "sgx"}
    /\ o.gather \in {"ok", "fail"} /\ o.verify \in {"ok", "fail", "na"}
    /\ o.g_onboard \in {"ok", "fail", "na"} /\ o.g_attest \in {"ok", "fail", "na"}
    /\ (o.gather = "ok") <=> (o.g_attest = "ok" /\ (o.plat = "ledger" => o.g_onboard = "ok"))
    /\ (o.gather = "fail") => o.verify = "na"
    /\ (o.gather = "ok") => o.verify # "na"

\* a genuine device: both gathering commands succeed ...
GenuineGathersP(o) == Genuine(o) => o.gather = "ok"
\* ... and the matching verify command accepts what they wrote, with exactly the device's values
GenuineVerifiesP(o) == (Genuine(o) /\ o.gather = "ok") =>
                          (o.verify = "ok" /\ Printed(o.printed) = Expect(o.dev))
\* any alteration: gathering or verification fails
AlteredFailsP(o) == (~Genuine(o)) => (o.gather = "fail" \/ o.verify = "fail")
\* the files written load back without loss (load ; save gives the same document) ...
LosslessP(o) == /\ (o.g_onboard = "ok") => o.reload0 = o.file0
                /\ (o.gather = "ok") => (o.reload_ok = "ok" /\ o.reload = o.file)
\* ... and what was loaded back is judged exactly like the original
ReloadedSameVerdictP(o) == (o.gather = "ok" /\ o.reload_ok = "ok") =>
                              (o.verify2 = o.verify /\ Printed(o.printed2) = Printed(o.printed))

Clauses(o) == <<
    <<"WellFormed", WellFormedP(o)>>,
    <<"GenuineGathers", GenuineGathersP(o)>>,
    <<"GenuineVerifies", GenuineVerifiesP(o)>>,
    <<"AlteredFails", AlteredFailsP(o)>>,
    <<"Lossless", LosslessP(o)>>,
    <<"ReloadedSameVerdict", ReloadedSameVerdictP(o)>> >>
=============================================================================
