SPECIFICATION Spec
CONSTANTS
  N = 3
  K = 1
  Handlers = 1
INVARIANT NoViolation
INVARIANT EmitB
CHECK_DEADLOCK FALSE
