------------------------------ MODULE CertChain ------------------------------
(***************************************************************************)
(* C06.  Env: a version-1 certificate over Names - who signs whom, which   *)
(* elements exist, tweaks, and at most MaxCorr corruptions - chosen LAZILY:*)
(* a fact about an element is decided at the moment the program reads it   *)
(* (existence and `signed_by` during _parse, signature / message / tweak   *)
(* during validation, the root key when the topmost element is checked).   *)
(* Every complete certificate therefore corresponds to exactly one         *)
(* behaviour (its projection on what was read); what is never read is left *)
(* open and filled with seeded random content by the harness.              *)
(* Sys: HSMCertificate._parse (target existence, path-to-root walk with a  *)
(* `visited` list) and validate_and_get_values (chain built target -> top, *)
(* validated top -> leaf), one action per loop iteration.                  *)
(* Properties: the walk's verdicts equal the reference semantics of        *)
(* CertChainProps on the final certificate; verdicts never change once     *)
(* given; load fails iff some target has no cycle-free path to the root;   *)
(* termination.                                                            *)
(***************************************************************************)
EXTENDS CertChainProps

CONSTANTS Names,        \* {"device", "attestation", "ui", "signer"}
          MaxTargets,   \* length of the target list
          MaxCorr,      \* corruption budget
          CorrKinds,    \* enabled corruption kinds
          TweakChoice   \* subset of {"plain", "tweaked"}: how an element may be honestly signed

Ghost  == "ghost"        \* a name that is never an element
Absent == "absent"

VARIABLES targets, by, link, rootkey, used, swap,                  \* Env
          phase, sub, ti, cur, visited, chain, certifier, result, steps   \* Sys
envv == <<targets, by, link, rootkey, used, swap>>
sysv == <<phase, sub, ti, cur, visited, chain, certifier, result, steps>>
vars == <<envv, sysv>>

K(n) == "k_" \o n
M(n) == "m_" \o n
T(n) == "t_" \o n
SignerKey(s) == IF s = Root THEN "k_root" ELSE K(s)

Honest(n) == [signer |-> by[n], tw |-> NoTweak, corr |-> "ok", partner |-> NoName]
LinkOf(n) == IF n \in DOMAIN link THEN link[n] ELSE Honest(n)

\* the symbolic element that the decisions about n describe
Elem(n) ==
    LET l    == LinkOf(n)
        mx   == M(n) \o "_x"
        base == [by |-> by[n], key |-> K(n), msg |-> M(n), val |-> M(n),
                 sig |-> [by |-> <<SignerKey(l.signer), l.tw>>, over |-> M(n)], tweak |-> l.tw]
    IN CASE l.corr = "sigOtherKey"  -> [base EXCEPT !.sig = [by |-> <<"k_x", l.tw>>, over |-> M(n)]]
         [] l.corr = "sigFlip"      -> [base EXCEPT !.sig = [by |-> <<"k_none", NoTweak>>, over |-> "m_none"]]
         [] l.corr \in {"sigSwap", "swapped"}
                                    -> [base EXCEPT !.sig = [by |-> <<"k_swap", NoTweak>>, over |-> M(l.partner)]]
         [] l.corr = "msgFlipKey"   -> [base EXCEPT !.msg = mx, !.val = mx, !.key = "k_bad"]
         [] l.corr = "msgFlipOther" -> [base EXCEPT !.msg = mx]
         [] l.corr = "keySubst"     -> [base EXCEPT !.msg = mx, !.val = mx, !.key = "k_x",
                                                    !.sig = [by |-> <<SignerKey(l.signer), l.tw>>, over |-> mx]]
         [] l.corr = "tweakFlip"    -> [base EXCEPT !.tweak = "t_x"]
         [] l.corr = "tweakRemove"  -> [base EXCEPT !.tweak = NoTweak]
         [] l.corr = "tweakAdd"     -> [base EXCEPT !.tweak = "t_x"]
         [] OTHER                   -> base           \* "ok", "reparent" (signer # by)

PresentNames == {n \in DOMAIN by : by[n] # Absent}
Cert == [n \in PresentNames |-> Elem(n)]
RK   == IF rootkey = "?" THEN "k_root" ELSE rootkey

TargetSeqs == UNION {[1..k -> Names \cup {Ghost}] : k \in 0..MaxTargets}

Init == /\ targets \in TargetSeqs
        /\ by = (Ghost :> Absent) /\ link = <<>> /\ rootkey = "?" /\ used = 0 /\ swap = <<>>
        /\ phase = "parse" /\ sub = "enter" /\ ti = 1 /\ cur = NoName /\ visited = {}
        /\ chain = <<>> /\ certifier = Root /\ result = <<>> /\ steps = 0

(***************************************************************************)
(* Env: lazy decisions                                                     *)
(***************************************************************************)
NeedBy == IF phase = "parse" /\ sub = "enter" /\ ti <= Len(targets) THEN targets[ti]
          ELSE IF phase = "parse" /\ sub = "walk" /\ cur \notin visited /\ by[cur] # Root THEN by[cur]
          ELSE NoName

DecideBy == /\ NeedBy # NoName /\ NeedBy \notin DOMAIN by
            /\ \E p \in Names \cup {Root, Ghost, Absent} :
                 /\ (p = Absent) => ~(swap # <<>> /\ swap[2] = NeedBy)
                 /\ by' = (NeedBy :> p) @@ by
            /\ UNCHANGED <<targets, link, rootkey, used, swap, sysv>>

NeedLink == IF phase = "validate" /\ sub = "check" THEN cur ELSE NoName

TwOf(n) == (IF "plain" \in TweakChoice THEN {NoTweak} ELSE {}) \cup
           (IF "tweaked" \in TweakChoice THEN {T(n)} ELSE {})

LocalKinds(n, tw) ==
    ({"sigOtherKey", "sigFlip", "msgFlipKey", "keySubst"}
     \cup (IF n \in {"device", "attestation"} THEN {"msgFlipOther"} ELSE {})
     \cup (IF tw # NoTweak THEN {"tweakFlip", "tweakRemove"} ELSE {"tweakAdd"})) \cap CorrKinds

DecideLink ==
    /\ NeedLink # NoName /\ NeedLink \notin DOMAIN link
    /\ LET n == NeedLink IN
       \E tw \in TwOf(n) :
         IF swap # <<>> /\ swap[2] = n
         THEN /\ link' = (n :> [signer |-> by[n], tw |-> tw, corr |-> "swapped", partner |-> swap[1]]) @@ link
              /\ UNCHANGED <<used, swap>>
         ELSE \/ /\ link' = (n :> [signer |-> by[n], tw |-> tw, corr |-> "ok", partner |-> NoName]) @@ link
                 /\ UNCHANGED <<used, swap>>
              \/ /\ used < MaxCorr
                 /\ \E k \in LocalKinds(n, tw) :
                      link' = (n :> [signer |-> by[n], tw |-> tw, corr |-> k, partner |-> NoName]) @@ link
                 /\ used' = used + 1 /\ UNCHANGED swap
              \/ /\ used < MaxCorr /\ "reparent" \in CorrKinds
                 /\ \E s \in (Names \cup {Root}) \ {by[n]} :
                      link' = (n :> [signer |-> s, tw |-> tw, corr |-> "reparent", partner |-> NoName]) @@ link
                 /\ used' = used + 1 /\ UNCHANGED swap
              \/ /\ used < MaxCorr /\ "sigSwap" \in CorrKinds /\ swap = <<>>
                 /\ \E m \in Names \ {n} :
                      /\ m \notin DOMAIN link
                      /\ (m \in DOMAIN by => by[m] # Absent)
                      /\ link' = (n :> [signer |-> by[n], tw |-> tw, corr |-> "sigSwap", partner |-> m]) @@ link
                      /\ swap' = <<n, m>>
                 /\ used' = used + 1
    /\ UNCHANGED <<targets, by, rootkey, sysv>>

DecideRoot == /\ phase = "validate" /\ sub = "check" /\ certifier = Root /\ rootkey = "?"
              /\ \/ rootkey' = "k_root" /\ UNCHANGED used
                 \/ /\ used < MaxCorr /\ "wrongRoot" \in CorrKinds
                    /\ rootkey' = "k_x" /\ used' = used + 1
              /\ UNCHANGED <<targets, by, link, swap, sysv>>

(***************************************************************************)
(* Sys: _parse                                                             *)
(***************************************************************************)
Tick == steps' = steps + 1

PEnter == /\ phase = "parse" /\ sub = "enter"
          /\ IF ti > Len(targets)
             THEN /\ phase' = "validate" /\ ti' = 1 /\ UNCHANGED <<sub, cur, visited>>
             ELSE /\ targets[ti] \in DOMAIN by
                  /\ IF by[targets[ti]] = Absent
                     THEN phase' = "error" /\ UNCHANGED <<sub, ti, cur, visited>>
                     ELSE /\ cur' = targets[ti] /\ visited' = {} /\ sub' = "walk"
                          /\ UNCHANGED <<phase, ti>>
          /\ Tick /\ UNCHANGED <<envv, chain, certifier, result>>

PStep == /\ phase = "parse" /\ sub = "walk"
         /\ IF cur \in visited THEN phase' = "error" /\ UNCHANGED <<sub, ti, cur, visited>>
            ELSE IF by[cur] = Root THEN ti' = ti + 1 /\ sub' = "enter" /\ UNCHANGED <<phase, cur, visited>>
            ELSE /\ by[cur] \in DOMAIN by
                 /\ IF by[by[cur]] = Absent THEN phase' = "error" /\ UNCHANGED <<sub, ti, cur, visited>>
                    ELSE /\ visited' = visited \cup {cur} /\ cur' = by[cur]
                         /\ UNCHANGED <<phase, sub, ti>>
         /\ Tick /\ UNCHANGED <<envv, chain, certifier, result>>

(***************************************************************************)
(* Sys: validate_and_get_values                                            *)
(***************************************************************************)
VEnter == /\ phase = "validate" /\ sub = "enter"
          /\ IF ti > Len(targets) THEN phase' = "done" /\ UNCHANGED <<sub, cur, chain>>
             ELSE cur' = targets[ti] /\ chain' = <<>> /\ sub' = "build" /\ UNCHANGED phase
          /\ Tick /\ UNCHANGED <<envv, ti, visited, certifier, result>>

VBuild == /\ phase = "validate" /\ sub = "build"
          /\ IF by[cur] = Root THEN sub' = "check" /\ certifier' = Root /\ UNCHANGED <<cur, chain>>
             ELSE chain' = Append(chain, cur) /\ cur' = by[cur] /\ UNCHANGED <<sub, certifier>>
          /\ Tick /\ UNCHANGED <<envv, phase, ti, visited, result>>

CertifierKeyNow == IF certifier = Root THEN rootkey ELSE Elem(certifier).key

VCheck == /\ phase = "validate" /\ sub = "check"
          /\ cur \in DOMAIN link /\ (certifier = Root => rootkey # "?")
          /\ LET t == targets[ti]
                 e == Elem(cur) IN
             IF ~ElemValid(e, CertifierKeyNow)
             THEN /\ result' = (t :> [valid |-> FALSE, name |-> cur, value |-> NoVal, tweak |-> NoTweak]) @@ result
                  /\ ti' = ti + 1 /\ sub' = "enter" /\ UNCHANGED <<cur, chain, certifier>>
             ELSE IF chain = <<>>
             THEN /\ result' = (t :> [valid |-> TRUE, name |-> NoName, value |-> e.val, tweak |-> e.tweak]) @@ result
                  /\ ti' = ti + 1 /\ sub' = "enter" /\ UNCHANGED <<cur, chain, certifier>>
             ELSE /\ certifier' = cur /\ cur' = chain[Len(chain)]
                  /\ chain' = SubSeq(chain, 1, Len(chain) - 1)
                  /\ UNCHANGED <<result, ti, sub>>
          /\ Tick /\ UNCHANGED <<envv, phase, visited>>

EnvNext == DecideBy \/ DecideLink \/ DecideRoot
SysNext == PEnter \/ PStep \/ VEnter \/ VBuild \/ VCheck
Next == EnvNext \/ SysNext
Spec == Init /\ [][Next]_vars
FairSpec == Spec /\ WF_vars(Next)

(***************************************************************************)
(* Properties                                                              *)
(***************************************************************************)
Done == phase \in {"error", "done"}
Agree == phase = "done" =>
            \A i \in 1..Len(targets) :
               /\ targets[i] \in DOMAIN result
               /\ result[targets[i]] = SpecVerdict(Cert, RK, targets[i])
AgreeJudge == phase = "done" =>
            \A i \in 1..Len(targets) : JudgeTarget(Cert, RK, targets[i], result[targets[i]]) = ""
LoadIffWellFormed == /\ phase = "error" => ~WellFormed(Cert, targets)
                     /\ phase \in {"validate", "done"} => WellFormed(Cert, targets)
\* a verdict, once given, is never changed by anything decided or computed later
Stable == [][\A x \in DOMAIN result : x \in DOMAIN result' /\ result'[x] = result[x]]_vars
Bounded == steps <= Len(targets) * (3 * Cardinality(Names) + 3) + 2
BudgetOk == used <= MaxCorr
Terminates == <>Done

\* vacuity guards (negative configuration: each must be VIOLATED)
NeverValid   == \A x \in DOMAIN result : ~result[x].valid
NeverInvalidBelowTop == \A x \in DOMAIN result : result[x].valid \/ Cert[result[x].name].by = Root
NeverError   == phase # "error"
=============================================================================
