------------------------------ MODULE CertChain ------------------------------
(***************************************************************************)
(* C06.  Env: a version-1 certificate over Names - who signs whom, which   *)
(* elements exist, tweaks, and at most MaxCorr corruptions - chosen LAZILY:*)
(* a fact about an element is decided at the moment the program reads it   *)
(* (existence and `signed_by` during _parse, signature / message / tweak   *)
(* during validation, the root key when the topmost element is checked).   *)
(* Every complete certificate therefore corresponds to exactly one         *)
(* behaviour (its projection on what was read); what is never read is left *)
(* open and filled with seeded random content by the harness.              *)
(* Sys: HSMCertificate._parse (target existence, path-to-root walk with a  *)
(* `visited` list) and validate_and_get_values (chain built target -> top, *)
(* validated top -> leaf), one action per loop iteration.                  *)
(* Properties: the walk's verdicts equal the reference semantics of        *)
(* CertChainProps on the final certificate; verdicts never change once     *)
(* given; load fails iff some target has no cycle-free path to the root;   *)
(* termination.                                                            *)
(***************************************************************************)
EXTENDS CertChainProps

CONSTANTS Names,        \* {"device", "attestation", "ui", "signer"}
          MaxTargets,   \* length of the target list
          MaxCorr,      \* corruption budget
          CorrKinds,    \* enabled corruption kinds
          TweakChoice,  \* subset of {"plain", "tweaked"}: how an element may be honestly signed
          Shapes,       \* enabled non-canonical message shapes (see KeyOfShape)
          MaxShape,     \* how many elements may have a non-canonical message shape
          ShapeWithCorr,\* may the SAME element have a non-canonical shape and a corrupted link
          MaxOps,       \* histories: how many further operations follow on the SAME object (0 = none)
          OpKinds,      \* enabled operation kinds, subset of {"validate", "passive", "clear", "addtarget", "addel"}
          Origins       \* subset of {"loaded", "built"}: from a file / empty object filled step by step

Ghost  == "ghost"        \* a name that is never an element
Absent == "absent"

VARIABLES targets, by, link, rootkey, used, swap, shape, spell, ops, gen, log,   \* Env
          phase, sub, ti, cur, visited, chain, certifier, result, steps   \* Sys
envv == <<targets, by, link, rootkey, used, swap, shape, spell, ops, gen, log>>
sysv == <<phase, sub, ti, cur, visited, chain, certifier, result, steps>>
vars == <<envv, sysv>>

K(n) == "k_" \o n
\* gen: the names whose element was put (again) by add_element: a re-issued element for the same key
M(n) == IF n \in gen THEN "m_" \o n \o "_b" ELSE "m_" \o n
T(n) == "t_" \o n
SignerKey(s) == IF s = Root THEN "k_root" ELSE K(s)

(***************************************************************************)
(* Message shape: WHAT the honestly signed message of an element carries.  *)
(* The value of an element is the part of its message that the format      *)
(* defines (device: the last 65 bytes; attestation: all but the first      *)
(* byte; ui, signer: everything), and the element certifies with the key   *)
(* that its WHOLE value is - nothing is stripped, sliced or searched:      *)
(*   canon     value = the 65-byte (uncompressed) key                      *)
(*   comp      value = the 33-byte compressed key (accepted as it is)      *)
(*   longTail  extra bytes, then the key: value longer than a key, key at  *)
(*             its tail.  Only for a device this IS the key (last 65)      *)
(*   longHead  the key, then extra bytes                                   *)
(*   short     a truncated key / coordinates without the format byte       *)
(*   sliced    padding, key, padding                                       *)
(* In every shape the element's children are signed by the element's real  *)
(* key K(n), and the element itself is correctly signed by its certifier.  *)
(***************************************************************************)
KeyOfShape(n, sh) == IF sh \in {"canon", "comp"} \/ (n = "device" /\ sh = "longTail") THEN K(n) ELSE "k_bad"

\* decided when the element's key is first read, i.e. when something it certifies is checked; the shape
\* of an element that certifies nothing that is checked stays open (any shape will do)
ShapeOf(n) == IF n \in DOMAIN shape THEN shape[n] ELSE "canon"
Shaped == Cardinality({n \in DOMAIN shape : shape[n] # "canon"})

Honest(n) == [signer |-> by[n], tw |-> NoTweak, corr |-> "ok", partner |-> NoName]
LinkOf(n) == IF n \in DOMAIN link THEN link[n] ELSE Honest(n)

\* the symbolic element that the decisions about n describe
Elem(n) ==
    LET l    == LinkOf(n)
        mx   == M(n) \o "_x"
        base == [by |-> by[n], key |-> KeyOfShape(n, ShapeOf(n)), msg |-> M(n), val |-> M(n),
                 sig |-> [by |-> <<SignerKey(l.signer), l.tw>>, over |-> M(n)], tweak |-> l.tw]
    IN CASE l.corr = "sigOtherKey"  -> [base EXCEPT !.sig = [by |-> <<"k_x", l.tw>>, over |-> M(n)]]
         [] l.corr = "sigFlip"      -> [base EXCEPT !.sig = [by |-> <<"k_none", NoTweak>>, over |-> "m_none"]]
         [] l.corr \in {"sigSwap", "swapped"}
                                    -> [base EXCEPT !.sig = [by |-> <<"k_swap", NoTweak>>, over |-> M(l.partner)]]
         [] l.corr = "msgFlipKey"   -> [base EXCEPT !.msg = mx, !.val = mx, !.key = "k_bad"]
         [] l.corr = "msgFlipOther" -> [base EXCEPT !.msg = mx]
         [] l.corr = "keySubst"     -> [base EXCEPT !.msg = mx, !.val = mx, !.key = "k_x",
                                                    !.sig = [by |-> <<SignerKey(l.signer), l.tw>>, over |-> mx]]
         [] l.corr = "tweakFlip"    -> [base EXCEPT !.tweak = "t_x"]
         [] l.corr = "tweakRemove"  -> [base EXCEPT !.tweak = NoTweak]
         [] l.corr = "tweakAdd"     -> [base EXCEPT !.tweak = "t_x"]
         [] OTHER                   -> base           \* "ok", "reparent" (signer # by)

PresentNames == {n \in DOMAIN by : by[n] # Absent}
Cert == [n \in PresentNames |-> Elem(n)]
RK   == IF rootkey = "?" THEN "k_root" ELSE rootkey

TargetSeqs == UNION {[1..k -> Names \cup {Ghost}] : k \in 0..MaxTargets}

\* spell: how the hex fields of the file are written.  "ok" stands for every accepted spelling of the
\* same bytes (canonical or not: the harness renders them all, the behaviour must be the same);
\* "refused" = some field of some element - on or off any target's path - is written in a way the loader
\* refuses: the elements are built before any target is looked at, so nothing else is read.
\* log (histories only): every decision and every operation in the order they happened, so that the
\* harness can rebuild the object's content at each moment
HistOn == MaxOps > 0
E(k, n, a) == [k |-> k, n |-> n, a |-> a, tw |-> "", corr |-> "", partner |-> ""]
Logged(e) == log' = IF HistOn THEN Append(log, e) ELSE log

Init == /\ \/ /\ "loaded" \in Origins /\ targets \in TargetSeqs /\ spell \in {"ok", "refused"}
              /\ phase = "parse"
              /\ log = IF HistOn THEN [i \in 1..Len(targets) |-> E("target0", targets[i], "")] ELSE <<>>
           \/ /\ "built" \in Origins /\ HistOn /\ targets = <<>> /\ spell = "ok"
              /\ phase = "done" /\ log = <<E("origin", "", "built")>>       \* HSMCertificate(), nothing in it
        /\ by = (Ghost :> Absent) /\ link = <<>> /\ rootkey = "?" /\ used = 0 /\ swap = <<>> /\ shape = <<>>
        /\ ops = 0 /\ gen = {}
        /\ sub = "enter" /\ ti = 1 /\ cur = NoName /\ visited = {}
        /\ chain = <<>> /\ certifier = Root /\ result = <<>> /\ steps = 0

(***************************************************************************)
(* Env: lazy decisions                                                     *)
(***************************************************************************)
NeedBy == IF spell = "refused" THEN NoName
          ELSE IF phase = "parse" /\ sub = "enter" /\ ti <= Len(targets) THEN targets[ti]
          ELSE IF phase = "parse" /\ sub = "walk" /\ cur \notin visited /\ by[cur] # Root THEN by[cur]
          ELSE NoName

DecideBy == /\ NeedBy # NoName /\ NeedBy \notin DOMAIN by
            /\ \E p \in Names \cup {Root, Ghost, Absent} :
                 /\ (p = Absent) => ~(swap # <<>> /\ swap[2] = NeedBy)
                 /\ by' = (NeedBy :> p) @@ by
                 /\ Logged(E("by", NeedBy, p))
            /\ UNCHANGED <<targets, link, rootkey, used, swap, shape, spell, ops, gen, sysv>>

NeedLink == IF phase = "validate" /\ sub = "check" THEN cur ELSE NoName

TwOf(n) == (IF "plain" \in TweakChoice THEN {NoTweak} ELSE {}) \cup
           (IF "tweaked" \in TweakChoice THEN {T(n)} ELSE {})

LocalKinds(n, tw) ==
    ({"sigOtherKey", "sigFlip", "msgFlipKey", "keySubst"}
     \cup (IF n \in {"device", "attestation"} THEN {"msgFlipOther"} ELSE {})
     \cup (IF tw # NoTweak THEN {"tweakFlip", "tweakRemove"} ELSE {"tweakAdd"})) \cap CorrKinds

\* with no non-canonical shape enabled there is nothing to decide (every message is canonical)
ShapesOn   == MaxShape > 0 /\ Shapes # {}
ShapeKnown == (ShapesOn /\ certifier # Root) => certifier \in DOMAIN shape

DecideLink ==
    /\ NeedLink # NoName /\ NeedLink \notin DOMAIN link
    \* (fixed order of independent decisions: the certifier's side - root key or shape - first)
    /\ (certifier = Root => rootkey # "?") /\ ShapeKnown
    /\ LET n == NeedLink
           L(s, tw, c, m) == (n :> [signer |-> s, tw |-> tw, corr |-> c, partner |-> m]) @@ link
           Lg(s, tw, c, m) == Logged([k |-> "link", n |-> n, a |-> s, tw |-> tw, corr |-> c, partner |-> m])
       IN
       \E tw \in TwOf(n) :
         IF swap # <<>> /\ swap[2] = n
         THEN /\ link' = L(by[n], tw, "swapped", swap[1]) /\ Lg(by[n], tw, "swapped", swap[1])
              /\ UNCHANGED <<used, swap>>
         ELSE \/ /\ link' = L(by[n], tw, "ok", NoName) /\ Lg(by[n], tw, "ok", NoName)
                 /\ UNCHANGED <<used, swap>>
              \/ /\ used < MaxCorr
                 /\ \E k \in LocalKinds(n, tw) : link' = L(by[n], tw, k, NoName) /\ Lg(by[n], tw, k, NoName)
                 /\ used' = used + 1 /\ UNCHANGED swap
              \/ /\ used < MaxCorr /\ "reparent" \in CorrKinds
                 /\ \E s \in (Names \cup {Root}) \ {by[n]} :
                      link' = L(s, tw, "reparent", NoName) /\ Lg(s, tw, "reparent", NoName)
                 /\ used' = used + 1 /\ UNCHANGED swap
              \/ /\ used < MaxCorr /\ "sigSwap" \in CorrKinds /\ swap = <<>>
                 /\ \E m \in Names \ {n} :
                      /\ m \notin DOMAIN link
                      /\ (m \in DOMAIN by => by[m] # Absent)
                      /\ link' = L(by[n], tw, "sigSwap", m) /\ Lg(by[n], tw, "sigSwap", m)
                      /\ swap' = <<n, m>>
                 /\ used' = used + 1
    /\ UNCHANGED <<targets, by, rootkey, shape, spell, ops, gen, sysv>>

\* the message shape of an element, decided when the element is first used as a certifier (it has been
\* checked itself by then).  Corruptions of the message are only combined with the canonical shape;
\* with ShapeWithCorr = FALSE neither are the other corruptions
NeedShape == IF phase = "validate" /\ sub = "check" /\ certifier # Root THEN certifier ELSE NoName
DecideShape ==
    /\ ShapesOn /\ NeedShape # NoName /\ NeedShape \notin DOMAIN shape
    /\ LET n == NeedShape
           c == LinkOf(n).corr
           free == /\ Shaped < MaxShape
                   /\ c \notin {"msgFlipKey", "msgFlipOther", "keySubst"}
                   /\ (ShapeWithCorr \/ c \in {"ok", "swapped"})
       IN \E sh \in {"canon"} \cup (IF free THEN Shapes ELSE {}) :
            shape' = (n :> sh) @@ shape /\ Logged(E("shape", n, sh))
    /\ UNCHANGED <<targets, by, link, rootkey, used, swap, spell, ops, gen, sysv>>

DecideRoot == /\ phase = "validate" /\ sub = "check" /\ certifier = Root /\ rootkey = "?"
              /\ \/ rootkey' = "k_root" /\ UNCHANGED used
                 \/ /\ used < MaxCorr /\ "wrongRoot" \in CorrKinds
                    /\ rootkey' = "k_x" /\ used' = used + 1
              /\ Logged(E("root", "", rootkey'))
              /\ UNCHANGED <<targets, by, link, swap, shape, spell, ops, gen, sysv>>

(***************************************************************************)
(* Sys: _parse                                                             *)
(***************************************************************************)
Tick == steps' = steps + 1

PEnter == /\ phase = "parse" /\ sub = "enter"
          /\ IF spell = "refused" THEN phase' = "error" /\ UNCHANGED <<sub, ti, cur, visited>>
             ELSE IF ti > Len(targets)
             THEN /\ phase' = "validate" /\ ti' = 1 /\ UNCHANGED <<sub, cur, visited>>
             ELSE /\ targets[ti] \in DOMAIN by
                  /\ IF by[targets[ti]] = Absent
                     THEN phase' = "error" /\ UNCHANGED <<sub, ti, cur, visited>>
                     ELSE /\ cur' = targets[ti] /\ visited' = {} /\ sub' = "walk"
                          /\ UNCHANGED <<phase, ti>>
          /\ Tick /\ UNCHANGED <<envv, chain, certifier, result>>

PStep == /\ phase = "parse" /\ sub = "walk"
         /\ IF cur \in visited THEN phase' = "error" /\ UNCHANGED <<sub, ti, cur, visited>>
            ELSE IF by[cur] = Root THEN ti' = ti + 1 /\ sub' = "enter" /\ UNCHANGED <<phase, cur, visited>>
            ELSE /\ by[cur] \in DOMAIN by
                 /\ IF by[by[cur]] = Absent THEN phase' = "error" /\ UNCHANGED <<sub, ti, cur, visited>>
                    ELSE /\ visited' = visited \cup {cur} /\ cur' = by[cur]
                         /\ UNCHANGED <<phase, sub, ti>>
         /\ Tick /\ UNCHANGED <<envv, chain, certifier, result>>

(***************************************************************************)
(* Sys: validate_and_get_values                                            *)
(***************************************************************************)
VEnter == /\ phase = "validate" /\ sub = "enter"
          /\ IF ti > Len(targets) THEN phase' = "done" /\ UNCHANGED <<sub, cur, chain>>
             ELSE cur' = targets[ti] /\ chain' = <<>> /\ sub' = "build" /\ UNCHANGED phase
          /\ Tick /\ UNCHANGED <<envv, ti, visited, certifier, result>>

VBuild == /\ phase = "validate" /\ sub = "build"
          /\ IF by[cur] = Root THEN sub' = "check" /\ certifier' = Root /\ UNCHANGED <<cur, chain>>
             ELSE chain' = Append(chain, cur) /\ cur' = by[cur] /\ UNCHANGED <<sub, certifier>>
          /\ Tick /\ UNCHANGED <<envv, phase, ti, visited, result>>

CertifierKeyNow == IF certifier = Root THEN rootkey ELSE Elem(certifier).key

VCheck == /\ phase = "validate" /\ sub = "check"
          /\ cur \in DOMAIN link /\ (certifier = Root => rootkey # "?")
          /\ ShapeKnown
          /\ LET t == targets[ti]
                 e == Elem(cur) IN
             IF ~ElemValid(e, CertifierKeyNow)
             THEN /\ result' = (t :> [valid |-> FALSE, name |-> cur, value |-> NoVal, tweak |-> NoTweak]) @@ result
                  /\ ti' = ti + 1 /\ sub' = "enter" /\ UNCHANGED <<cur, chain, certifier>>
             ELSE IF chain = <<>>
             THEN /\ result' = (t :> [valid |-> TRUE, name |-> NoName, value |-> e.val, tweak |-> e.tweak]) @@ result
                  /\ ti' = ti + 1 /\ sub' = "enter" /\ UNCHANGED <<cur, chain, certifier>>
             ELSE /\ certifier' = cur /\ cur' = chain[Len(chain)]
                  /\ chain' = SubSeq(chain, 1, Len(chain) - 1)
                  /\ UNCHANGED <<result, ti, sub>>
          /\ Tick /\ UNCHANGED <<envv, phase, visited>>

(***************************************************************************)
(* Env: histories.  After a validation, up to MaxOps further operations on *)
(* the SAME object.  Every validate is a new run of the same program on    *)
(* the object's CURRENT content and the root it is given: its verdicts     *)
(* must be SpecVerdict of exactly that (Agree), whatever happened before.  *)
(*   validate(r)   r = the right root or another one                       *)
(*   passive       to_dict / save + load into a new object: no effect      *)
(*   clear         clear_targets                                           *)
(*   addtarget(t)  add_target of an element that has a path to the root    *)
(*   addel(n, p)   add_element: a new element, or a re-issued one for the  *)
(*                 same key replacing n - new message, parent, signature   *)
(*                 and tweak, decided afresh when next read.  add_element  *)
(*                 performs no sanity check, so the environment keeps      *)
(*                 every target's path to the root intact                  *)
(***************************************************************************)
RECURSIVE ByPathOk(_, _, _)
ByPathOk(b, n, seen) == /\ n \in DOMAIN b /\ b[n] # Absent /\ n \notin seen
                        /\ (b[n] = Root \/ ByPathOk(b, b[n], seen \cup {n}))
Drop(f, n) == [m \in DOMAIN f \ {n} |-> f[m]]
Revalidate(r) == /\ rootkey' = r /\ phase' = "validate" /\ ti' = 1 /\ sub' = "enter" /\ result' = <<>>

NextOp ==
    /\ HistOn /\ phase = "done" /\ ops < MaxOps
    /\ ops' = ops + 1
    /\ \/ /\ "validate" \in OpKinds
          /\ \E r \in {"k_root", "k_x"} : Revalidate(r) /\ Logged(E("op:validate", "", r))
          /\ UNCHANGED <<targets, by, link, shape, gen>>
       \/ /\ "passive" \in OpKinds /\ Logged(E("op:passive", "", ""))
          /\ UNCHANGED <<targets, by, link, shape, gen, rootkey, phase, ti, sub, result>>
       \/ /\ "clear" \in OpKinds /\ targets # <<>> /\ targets' = <<>> /\ Logged(E("op:clear", "", ""))
          /\ result' = <<>>          \* (verdicts given so far are about what the object was)
          /\ UNCHANGED <<by, link, shape, gen, rootkey, phase, ti, sub>>
       \/ /\ "addtarget" \in OpKinds /\ Len(targets) <= MaxTargets
          /\ \E t \in PresentNames : /\ ByPathOk(by, t, {})
                                      /\ targets' = Append(targets, t) /\ Logged(E("op:addtarget", t, ""))
          /\ result' = <<>>
          /\ UNCHANGED <<by, link, shape, gen, rootkey, phase, ti, sub>>
       \/ /\ "addel" \in OpKinds
          /\ \E n \in Names, p \in Names \cup {Root} :
               LET b2 == (n :> p) @@ by IN
               /\ (swap # <<>> => n \notin {swap[1], swap[2]})
               /\ \A i \in 1..Len(targets) : ByPathOk(b2, targets[i], {})
               /\ by' = b2 /\ link' = Drop(link, n) /\ shape' = Drop(shape, n)
               /\ gen' = IF n \in PresentNames THEN gen \cup {n} ELSE gen
               /\ Logged(E("op:addel", n, p))
          /\ result' = <<>>
          /\ UNCHANGED <<targets, rootkey, phase, ti, sub>>
    /\ UNCHANGED <<used, swap, spell, cur, visited, chain, certifier, steps>>

EnvNext == DecideBy \/ DecideLink \/ DecideRoot \/ DecideShape \/ NextOp
SysNext == PEnter \/ PStep \/ VEnter \/ VBuild \/ VCheck
Next == EnvNext \/ SysNext
Spec == Init /\ [][Next]_vars
FairSpec == Spec /\ WF_vars(Next)

(***************************************************************************)
(* Properties                                                              *)
(***************************************************************************)
Done == phase = "error" \/ (phase = "done" /\ (~HistOn \/ ops = MaxOps))
\* (an empty result with targets present = nothing was validated since the content last changed)
Judged == phase = "done" /\ (result # <<>> \/ targets = <<>>)
Agree == Judged =>
            \A i \in 1..Len(targets) :
               /\ targets[i] \in DOMAIN result
               /\ result[targets[i]] = SpecVerdict(Cert, RK, targets[i])
AgreeJudge == Judged =>
            \A i \in 1..Len(targets) : JudgeTarget(Cert, RK, targets[i], result[targets[i]]) = ""
SpellNow == IF spell = "refused" THEN "odd" ELSE ""      \* (any refused member / any accepted one)
LoadIffWellFormed == /\ phase = "error" => ~Loadable(Cert, targets, SpellNow)
                     /\ phase \in {"validate", "done"} => Loadable(Cert, targets, SpellNow)
\* a verdict, once given, is never changed by anything decided or computed later
Stable == [][ops' # ops \/ \A x \in DOMAIN result : x \in DOMAIN result' /\ result'[x] = result[x]]_vars
Bounded == steps <= (MaxOps + 1) * ((MaxTargets + 2) * (3 * Cardinality(Names) + 3) + 2)
BudgetOk == used <= MaxCorr /\ Shaped <= MaxShape
Terminates == <>Done

\* vacuity guards (negative configuration: each must be VIOLATED)
NeverValid   == \A x \in DOMAIN result : ~result[x].valid
NeverInvalidBelowTop == \A x \in DOMAIN result : result[x].valid \/ Cert[result[x].name].by = Root
NeverError   == phase # "error"
\* histories: a second validation of an unchanged object that ends valid (the chain was walked twice)
NeverValidTwice == ~(phase = "done" /\ ops >= 1 /\ \E x \in DOMAIN result : result[x].valid
                     /\ \E i \in 1..Len(log) : log[i].k = "op:validate")
\* a child of an element whose value is longer than a key is refused although everything is well signed
NeverRefusedForShape == ~(\E x \in DOMAIN result : /\ ~result[x].valid /\ used = 0 /\ rootkey = "k_root"
                                                     /\ LinkOf(result[x].name).corr = "ok")
=============================================================================
