------------------------------ MODULE CertLoad ------------------------------
(***************************************************************************)
(* C16.  Env: a JSON document shaped like an attestation certificate,      *)
(* decided LAZILY in the order the loader reads it: version class, targets *)
(* class and list, elements class, then the items one by one (name class,  *)
(* field-defect / payload class), `signed_by` of an item when the          *)
(* path-to-root walk first reads it, validity of a link when the validator *)
(* first checks it.  A defect ends the behaviour (error), so every         *)
(* complete document corresponds to exactly one behaviour.                 *)
(* Sys: HSMCertificate.from_jsonfile -> _parse (version, targets, elements *)
(* loop with last-wins names, per-target walk with `visited`), then        *)
(* validate_and_get_values (chain target -> top, check top -> leaf), then  *)
(* save_to_jsonfile (one element per name, first-occurrence order), load   *)
(* again, validate again.  One action per loop iteration.                  *)
(***************************************************************************)
EXTENDS CertLoadProps

(* The reserved name of the root of trust ("root" / "sgx_root") may itself be  *)
(* carried by an element: put Root into Pool.  Both walks of the program test  *)
(* `signed_by = Root` BEFORE looking the signer up among the elements, so such *)
(* an element is never followed - whether it is self-signed, mutually signed   *)
(* with an element on a target's path, signed by a normal element, off-path,   *)
(* or a target itself - and the certificate stays acyclic in the sense of      *)
(* CertLoadProps (a path ends at the first `signed_by = Root`).                *)
(* Names are JSON VALUES: a pool name stands for a string or for a number, a    *)
(* boolean or null (the harness renders all of them, as `name`, `signed_by` and *)
(* target alike; two values are the same name iff they are the same dictionary  *)
(* key).  Nothing here depends on which it is.                                  *)
CONSTANTS Stretching,   \* BOOLEAN: may one edge of a walked path stand for a long run of elements
          Pool,         \* element names, e.g. {"a", "b", "c", "root"}
          MaxItems, MaxTargets,
          MaxOdd        \* how many items may carry an unusual-but-loadable payload

Root  == "root"
Ghost == "ghost"         \* any name / value that is no element
VerClasses  == {"ok", "swapped", "unsupported", "missing", "mistyped"}
TgtClasses  == {"missing", "nonlist", "list"}
ElsClasses  == {"missing", "noniter", "emptyiter", "baditer", "list"}
NameClasses == Pool \cup {"missing", "bad", "nondict"}
V1Only == {"tweak_invalid"}                      \* defects that only a version-1 element can have
V2Only == {"type_missing", "type_unknown"}       \* ... only a version-2 element
\* spell_same / spell_refused: ONE hex-valued field of the item (v1: message, signature, tweak; v2:
\* message, custom_data, key, auth_data, signature) is written in a non-canonical spelling: a member of
\* SpellAccepted (the loader reads the same bytes: the item loads, and what loads must survive
\* save ; load with the same verdicts and values) or of SpellRefused (the loader refuses the document)
DefectFlds == {"by_missing", "pay_missing", "pay_invalid", "spell_refused"} \cup V1Only \cup V2Only
OddFlds    == {"long", "short", "odd", "extra", "spell_same"}
BenignFlds == {"ok"}

VARIABLES flavour, ver, tgtc, elsc, targets, items, iby, linkok, odd, stretch,  \* Env
          phase, round, eff, order, doc2, k, ti, sub, cur, visited, chain,      \* Sys
          res1, res2, wsteps, steps
envv == <<flavour, ver, tgtc, elsc, targets, items, iby, linkok, odd, stretch>>
sysv == <<phase, round, eff, order, doc2, k, ti, sub, cur, visited, chain, res1, res2, wsteps, steps>>
vars == <<envv, sysv>>

TargetSeqs == UNION {[1..n -> Pool \cup {Ghost}] : n \in 0..MaxTargets}

\* flavour: "any" = the document exists in a version-1 and in a version-2 rendering (the harness runs
\* both); a flavour-specific defect pins it
Init == /\ flavour = "any"
        /\ ver = "?" /\ tgtc = "?" /\ elsc = "?" /\ targets = <<>> /\ items = <<>>
        /\ iby = <<>> /\ linkok = <<>> /\ odd = 0 /\ stretch = [edge |-> 0, cls |-> "?"]
        /\ phase = "ver" /\ round = 1 /\ eff = <<>> /\ order = <<>> /\ doc2 = <<>> /\ k = 1
        /\ ti = 1 /\ sub = "enter" /\ cur = 0 /\ visited = {} /\ chain = <<>>
        /\ res1 = <<>> /\ res2 = <<>> /\ wsteps = 0 /\ steps = 0

Tick == steps' = steps + 1
Err  == phase' = IF round = 1 THEN "error" ELSE "error2"

\* ---- from_jsonfile / _parse: version, targets, elements ------------------------------------
CheckVer == /\ phase = "ver"
            /\ \E v \in VerClasses :
                 /\ ver' = v
                 /\ phase' = IF v \in {"ok", "swapped"} THEN "tgt" ELSE "error"
            /\ Tick
            /\ UNCHANGED <<stretch, flavour, tgtc, elsc, targets, items, iby, linkok, odd, round, eff, order,
                           doc2, k, ti, sub, cur, visited, chain, res1, res2, wsteps>>

CheckTgt == /\ phase = "tgt"
            /\ \E c \in TgtClasses :
                 /\ tgtc' = c
                 /\ IF c = "list" THEN \E ts \in TargetSeqs : targets' = ts /\ phase' = "els"
                    ELSE phase' = "error" /\ UNCHANGED targets
            /\ Tick
            /\ UNCHANGED <<stretch, flavour, ver, elsc, items, iby, linkok, odd, round, eff, order,
                           doc2, k, ti, sub, cur, visited, chain, res1, res2, wsteps>>

CheckEls == /\ phase = "els"
            /\ \E c \in ElsClasses :
                 /\ elsc' = c
                 /\ phase' = IF c = "list" THEN "items" ELSE IF c = "emptyiter" THEN "walk" ELSE "error"
            /\ Tick
            /\ UNCHANGED <<stretch, flavour, ver, tgtc, targets, items, iby, linkok, odd, round, eff, order,
                           doc2, k, ti, sub, cur, visited, chain, res1, res2, wsteps>>

Register(nm, idx) == /\ eff' = (nm :> idx) @@ eff                      \* last wins
                     /\ order' = IF nm \in DOMAIN eff THEN order ELSE Append(order, nm)

\* round 1: the environment offers the next item, or ends the list
Item1 == /\ phase = "items" /\ round = 1
         /\ \/ /\ phase' = "walk" /\ UNCHANGED <<items, odd, eff, order, flavour>>
            \/ /\ Len(items) < MaxItems
               /\ \E nm \in NameClasses :
                  \E f \in (IF nm \in Pool
                            THEN BenignFlds \cup DefectFlds \cup (IF odd < MaxOdd THEN OddFlds ELSE {})
                            ELSE {"ok"}) :
                    /\ items' = Append(items, [name |-> nm, fld |-> f])
                    /\ odd' = IF f \in OddFlds THEN odd + 1 ELSE odd
                    /\ flavour' = IF f \in V1Only THEN "v1" ELSE IF f \in V2Only THEN "v2" ELSE flavour
                    /\ IF nm \in Pool /\ f \in BenignFlds \cup OddFlds /\ ver = "ok"
                       THEN Register(nm, Len(items) + 1) /\ UNCHANGED phase
                       ELSE Err /\ UNCHANGED <<eff, order>>
         /\ Tick
         /\ UNCHANGED <<stretch, ver, tgtc, elsc, targets, iby, linkok, round, doc2, k, ti, sub, cur,
                        visited, chain, res1, res2, wsteps>>

\* round 2: the items are those that were saved
Item2 == /\ phase = "items" /\ round = 2
         /\ IF k > Len(doc2) THEN phase' = "walk" /\ UNCHANGED <<eff, order, k>>
            ELSE Register(items[doc2[k]].name, doc2[k]) /\ k' = k + 1 /\ UNCHANGED phase
         /\ Tick
         /\ UNCHANGED <<envv, round, doc2, ti, sub, cur, visited, chain, res1, res2, wsteps>>

\* ---- _parse: every target needs a path to the root -------------------------------------------
WEnter == /\ phase = "walk" /\ sub = "enter"
          /\ IF ti > Len(targets) THEN phase' = "validate" /\ ti' = 1 /\ UNCHANGED <<sub, cur, visited, wsteps>>
             ELSE IF targets[ti] \notin DOMAIN eff THEN Err /\ UNCHANGED <<ti, sub, cur, visited, wsteps>>
             ELSE /\ cur' = eff[targets[ti]] /\ visited' = {} /\ wsteps' = 0 /\ sub' = "step"
                  /\ UNCHANGED <<phase, ti>>
          /\ Tick
          /\ UNCHANGED <<envv, round, eff, order, doc2, k, chain, res1, res2>>

ByChoices(idx) == IF idx \in DOMAIN iby THEN {iby[idx]} ELSE Pool \cup {Root, Ghost}

\* PATH LENGTH.  The small item bound does not bound the documents: ONE edge of a walked path (from an item
\* to the element that signs it) may stand for a RUN of further elements, each signed by the next, as long as
\* one likes (the harness makes it 5 ... 3000 elements long).  The run is
\*   "ok"     well formed and every link in it verifies,
\*   "bad"    well formed, one link in it (near its top / middle / bottom) does not verify,
\*   "cycle"  its last element is signed by the item again instead of by the item's certifier.
\* The program walks it element by element; here it is one step, whatever its length: nothing the loader
\* or the validator does may depend on how long a path is.
StretchChoices(idx) == IF stretch.cls = "?" /\ Stretching THEN {"none", "ok", "bad", "cycle"} ELSE {"none"}

WStep == /\ phase = "walk" /\ sub = "step"
         /\ LET nm == items[cur].name IN
            IF nm \in visited THEN Err /\ UNCHANGED <<iby, ti, sub, cur, visited, stretch>>
            ELSE \E p \in ByChoices(cur) :
                   /\ iby' = (cur :> p) @@ iby
                   /\ IF p = Root THEN ti' = ti + 1 /\ sub' = "enter" /\ UNCHANGED <<phase, cur, visited, stretch>>
                      ELSE IF p \notin DOMAIN eff THEN Err /\ UNCHANGED <<ti, sub, cur, visited, stretch>>
                      ELSE \E c \in (IF cur \in DOMAIN iby THEN {"none"} ELSE StretchChoices(cur)) :
                           /\ stretch' = IF c = "none" THEN stretch ELSE [edge |-> cur, cls |-> c]
                           /\ IF c = "cycle" \/ (stretch.edge = cur /\ stretch.cls = "cycle")
                              THEN Err /\ UNCHANGED <<ti, sub, cur, visited>>       \* a name of the run comes again
                              ELSE /\ visited' = visited \cup {nm} /\ cur' = eff[p]
                                   /\ UNCHANGED <<phase, ti, sub>>
         /\ wsteps' = wsteps + 1 /\ Tick
         /\ UNCHANGED <<flavour, ver, tgtc, elsc, targets, items, linkok, odd, round, eff, order, doc2, k,
                        chain, res1, res2>>

\* ---- validate_and_get_values ---------------------------------------------------------------------
VEnter == /\ phase = "validate" /\ sub = "enter"
          /\ IF ti > Len(targets)
             THEN phase' = (IF round = 1 THEN "save" ELSE "done") /\ UNCHANGED <<sub, cur, chain>>
             ELSE cur' = eff[targets[ti]] /\ chain' = <<>> /\ sub' = "build" /\ UNCHANGED phase
          /\ Tick
          /\ UNCHANGED <<envv, round, eff, order, doc2, k, ti, visited, res1, res2, wsteps>>

VBuild == /\ phase = "validate" /\ sub = "build"
          /\ IF iby[cur] = Root THEN sub' = "check" /\ UNCHANGED <<cur, chain>>
             ELSE chain' = Append(chain, cur) /\ cur' = eff[iby[cur]] /\ UNCHANGED sub
          /\ Tick
          /\ UNCHANGED <<envv, phase, round, eff, order, doc2, k, ti, visited, res1, res2, wsteps>>

OkChoices(idx) == IF idx \in DOMAIN linkok THEN {linkok[idx]} ELSE BOOLEAN
Put(v) == IF round = 1 THEN res1' = (targets[ti] :> v) @@ res1 /\ UNCHANGED res2
          ELSE res2' = (targets[ti] :> v) @@ res2 /\ UNCHANGED res1

VCheck == /\ phase = "validate" /\ sub = "check"
          /\ \E ok \in OkChoices(cur) :
               /\ linkok' = (cur :> ok) @@ linkok
               /\ IF stretch.edge = cur /\ stretch.cls = "bad"
                  \* the run hangs between cur's certifier (checked just before) and cur: its bad link comes first
                  THEN /\ Put([valid |-> FALSE, what |-> "an element of the run"])
                       /\ ti' = ti + 1 /\ sub' = "enter" /\ UNCHANGED <<cur, chain>>
                  ELSE IF ~ok
                  THEN /\ Put([valid |-> FALSE, what |-> items[cur].name])
                       /\ ti' = ti + 1 /\ sub' = "enter" /\ UNCHANGED <<cur, chain>>
                  ELSE IF chain = <<>>
                  THEN /\ Put([valid |-> TRUE, what |-> "value of item " \o ToString(cur)])
                       /\ ti' = ti + 1 /\ sub' = "enter" /\ UNCHANGED <<cur, chain>>
                  ELSE /\ cur' = chain[Len(chain)] /\ chain' = SubSeq(chain, 1, Len(chain) - 1)
                       /\ UNCHANGED <<res1, res2, ti, sub>>
          /\ Tick
          /\ UNCHANGED <<stretch, flavour, ver, tgtc, elsc, targets, items, iby, odd, phase, round, eff, order, doc2, k,
                         visited, wsteps>>

\* ---- save_to_jsonfile ; from_jsonfile --------------------------------------------------------------
Save == /\ phase = "save"
        /\ doc2' = [j \in 1..Len(order) |-> eff[order[j]]]
        /\ round' = 2 /\ phase' = "items" /\ eff' = <<>> /\ order' = <<>> /\ k' = 1
        /\ ti' = 1 /\ sub' = "enter" /\ wsteps' = 0 /\ chain' = <<>> /\ Tick
        /\ UNCHANGED <<envv, cur, visited, res1, res2>>

Next == CheckVer \/ CheckTgt \/ CheckEls \/ Item1 \/ Item2 \/ WEnter \/ WStep \/ VEnter \/ VBuild
        \/ VCheck \/ Save
Spec == Init /\ [][Next]_vars
FairSpec == Spec /\ WF_vars(Next)

(***************************************************************************)
(* Properties                                                              *)
(***************************************************************************)
Done == phase \in {"error", "error2", "done"}
Graph == [n \in DOMAIN eff |-> [by |-> IF eff[n] \in DOMAIN iby THEN iby[eff[n]] ELSE "?"]]
Loaded == phase \in {"validate", "save", "done"}

LoadedImpliesAcyclic == Loaded => AcyclicP(Graph, Root, targets)
\* the walk of one target makes at most one step per element, plus the one that detects a cycle
WalkBound == wsteps <= Cardinality(DOMAIN eff) + 1
ChainBound == Len(chain) <= Cardinality(DOMAIN eff)
StepBound == steps <= 2 * (MaxItems + MaxTargets * (3 * MaxItems + 5) + 8)
\* a verdict for every target once validation is over
Covers == phase \in {"save", "done"} =>
             /\ DOMAIN res1 = TargetSet(targets)
             /\ phase = "done" => DOMAIN res2 = TargetSet(targets)
RoundTrip == /\ phase # "error2"
             /\ phase = "done" => res2 = res1
Terminates == <>Done

\* vacuity guards: each must be VIOLATED by the model
NeverDone      == phase # "done"
NeverDupWins   == ~(phase = "done" /\ Len(items) > Cardinality(DOMAIN eff) /\ res1 # <<>>)
NeverRootNamed == ~(phase = "done" /\ Root \in DOMAIN eff /\ res1 # <<>>
                     /\ \E n \in DOMAIN eff : n # Root /\ eff[n] \in DOMAIN iby /\ iby[eff[n]] = Root
                     /\ eff[Root] \in DOMAIN iby)     \* an element named like the root, walked as a target
NeverCycle     == ~(phase = "error" /\ sub = "step" /\ items[cur].name \in visited)
=============================================================================
