SPECIFICATION Spec
CONSTANTS
  Images <- ImagesSmall
  R = 2
  ExtraEla = 1
  Contents <- Contents3
  ImgLists <- Lists3x2
  PubPaths = {1, 2}
  MaxRuns = 2
  Modes = {"sign"}
  Iters = {1, 2}
  OutPaths = {0, 1, 2}
  MaxSteps = 2
  SizeClasses <- AllSizes
  UnitLens <- UnitLensSmall
  Setups <- QuietSetups
  AuthSetups <- AuthSetupsDef
  Forms <- FormsDef
  AltForm <- AltFormDef
  Scales <- ScalesDef
  Variant = "verbose"
INVARIANT SigVerifies
CHECK_DEADLOCK FALSE
