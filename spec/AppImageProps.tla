--------------------------- MODULE AppImageProps ---------------------------
(***************************************************************************)
(* C19 -- app hashing and one-time signing bind to the application's code. *)
(*                                                                         *)
(* Constants-free definitions shared by the model (AppImage) and by the    *)
(* validation of executions recorded from the real code (TraceAppImage):   *)
(*   1. images, Intel-HEX files as record sequences, the ledgerblue parser *)
(*      as a pure left fold (one step per record), the hash input;         *)
(*   2. the observables of a one-time signing run and the C19 predicates.  *)
(*                                                                         *)
(* Addresses are pairs (z, o): z = 16-bit upper half selected by a type-04 *)
(* record, o = 16-bit offset carried by a data record.  (z << 16) + o does *)
(* not fit TLC's 32-bit integers for z >= 0x8000, and since o < 65536 the  *)
(* lexicographic order on (z, o) is exactly the order of (z << 16) + o.    *)
(***************************************************************************)
EXTENDS Naturals, Sequences, FiniteSets, TLC

ZoneSize == 65536
NoA      == 70000          \* "None" for the parser's startZone / startFirst / current

Before(a, b) == a.z < b.z \/ (a.z = b.z /\ a.o < b.o)

(***************************************************************************)
(* 1a. Reference semantics, written from the property text: an image is a  *)
(* set of disjoint areas [z, o, d] (d may run over a zone boundary); what  *)
(* must be hashed is the data of the areas by ascending start address.     *)
(***************************************************************************)
RECURSIVE ConcatSorted(_)
ConcatSorted(S) ==
    IF S = {} THEN <<>>
    ELSE LET m == CHOOSE x \in S : \A y \in S : (x = y) \/ Before(x, y)
         IN  m.d \o ConcatSorted(S \ {m})

RangeOf(s) == {s[i] : i \in DOMAIN s}

(***************************************************************************)
(* 1b. Files.  A record is [t, z, a, d]:                                   *)
(*   t = "ela"  type 04, z = the upper 16 address bits it selects          *)
(*   t = "data" type 00, a = 16-bit address, d = the bytes                 *)
(*   t = "eof"  type 01                                                    *)
(*   t = "sla"  type 05 (start linear address; carries no image data)      *)
(* unused fields are 0 / <<>> so that all records have one shape.          *)
(***************************************************************************)
Ela(z)     == [t |-> "ela",  z |-> z, a |-> 0, d |-> <<>>]
Data(a, d) == [t |-> "data", z |-> 0, a |-> a, d |-> d]
Eof        == [t |-> "eof",  z |-> 0, a |-> 0, d |-> <<>>]
Sla        == [t |-> "sla",  z |-> 0, a |-> 0, d |-> <<>>]

(***************************************************************************)
(* 1c. ledgerblue's IntelHexParser as a state machine, one step per record *)
(* (hexParser.py: the loop body of __init__), areas kept as the list that  *)
(* insertAreaSorted maintains (stable: a new area goes after equal starts).*)
(***************************************************************************)
PInit == [zone |-> NoA, first |-> NoA, cur |-> NoA, data |-> <<>>, areas |-> <<>>, err |-> FALSE]

RECURSIVE InsAt(_, _, _)
InsAt(as, a, i) ==      \* first index i whose start is greater than a's
    IF i > Len(as) \/ Before(a, as[i])
    THEN SubSeq(as, 1, i - 1) \o <<a>> \o SubSeq(as, i, Len(as))
    ELSE InsAt(as, a, i + 1)
InsertSorted(as, a) == InsAt(as, a, 1)

AddArea(p) == InsertSorted(p.areas, [z |-> p.zone, o |-> p.first, d |-> p.data])

CloseZone(p) ==            \* what type 01 and type 04 do before anything else
    IF p.data # <<>>
    THEN [p EXCEPT !.areas = AddArea(p), !.data = <<>>, !.zone = NoA, !.first = NoA, !.cur = NoA]
    ELSE p

PStep(p, r) ==
    IF p.err THEN p
    ELSE IF r.t = "data" THEN
        IF p.zone = NoA THEN [p EXCEPT !.err = TRUE]       \* "Data record but no zone defined"
        ELSE LET q  == IF p.first = NoA THEN [p EXCEPT !.first = r.a, !.cur = r.a] ELSE p
                 q2 == IF r.a # q.cur
                       THEN [q EXCEPT !.areas = AddArea(q), !.data = <<>>, !.first = r.a, !.cur = r.a]
                       ELSE q
             IN  [q2 EXCEPT !.data = @ \o r.d, !.cur = @ + Len(r.d)]
    ELSE IF r.t = "eof" THEN CloseZone(p)
    ELSE IF r.t = "ela" THEN [CloseZone(p) EXCEPT !.zone = r.z]
    ELSE p                                                  \* type 05: boot address only

RECURSIVE PFold(_, _)
PFold(p, file) == IF file = <<>> THEN p ELSE PFold(PStep(p, Head(file)), Tail(file))

\* "tail add of the last zone", then getAreas()
PAreas(p) == IF p.data # <<>> THEN AddArea(p) ELSE p.areas

RECURSIVE ConcatData(_)
ConcatData(as) == IF as = <<>> THEN <<>> ELSE Head(as).d \o ConcatData(Tail(as))

\* compute_app_hash: sha256 updated with the data of parser.getAreas() in list order
HashInputP(p)      == ConcatData(PAreas(p))
HashInputOf(file)  == HashInputP(PFold(PInit, file))
ParseOk(file)      == ~PFold(PInit, file).err

\* what a tool hashing "in file order" would feed (used by the negative configuration)
RECURSIVE FileOrderInput(_)
FileOrderInput(file) == IF file = <<>> THEN <<>>
                        ELSE (IF Head(file).t = "data" THEN Head(file).d ELSE <<>>)
                             \o FileOrderInput(Tail(file))

(***************************************************************************)
(* C19, hash half.  areas: the image; hin: bytes fed to SHA-256; a report  *)
(* is [via, ok, digest]: ok = a hash was reported, digest = Seq(0..255).   *)
(***************************************************************************)
HashInputOkP(areas, hin)      == hin = ConcatSorted(areas)
\* the number of bytes hashed is the size of the image (judged on images of every size; the byte
\* comparison above only on images small enough to travel to TLC)
HashedLengthP(total, n)       == n = total

(***************************************************************************)
(* Size classes.  In the model a "byte" of an area is a unit; a size class *)
(* gives every unit its real length, so that area lengths land on, below   *)
(* and above the block / page / zone sizes code may treat specially.  ulen *)
(* = sequence indexed by unit id.                                          *)
(***************************************************************************)
RECURSIVE WLen(_, _)
WLen(units, ulen) == IF units = <<>> THEN 0 ELSE ulen[Head(units)] + WLen(Tail(units), ulen)
RECURSIVE ImageLen(_, _)
ImageLen(areas, ulen) == IF areas = {} THEN 0
                         ELSE LET a == CHOOSE x \in areas : TRUE
                              IN  WLen(a.d, ulen) + ImageLen(areas \ {a}, ulen)
DigestOkP(expected, report)   == report.ok => report.digest = expected

(***************************************************************************)
(* 2. One-time signing.  Symbolic cryptography: a key is a number > 0      *)
(* (0 = none / not a known key); a hash is the content class it is the     *)
(* SHA-256 of (0 = anything else); a signature is [by, over].              *)
(*                                                                         *)
(* What can be seen of one run from outside:                               *)
(*   imgs  : Seq(image id)        the -a list                              *)
(*   pub   : path                 the -p argument                          *)
(*   gens  : Seq(key)             keys handed out by SigningKey.generate   *)
(*                                during the run, in order                 *)
(*   exit  : exit code                                                     *)
(*   files : set of [path, kind, key, by, over, leak, w]                   *)
(*           every file in the working directory (or opened for writing    *)
(*           anywhere) after the run; kind "pub" (key = whose), "sig"      *)
(*           (DER signature by/over), "image", "other"; leak = some        *)
(*           encoding of a generated private scalar occurs in it;          *)
(*           w = opened for writing during this run                        *)
(*   outleak : the same for everything printed                             *)
(* A path is [k, n]: k = "pub" / "sig" / "img" / "other".                  *)
(* obs (fold over the earlier runs): keys = every key generated or         *)
(* published by an earlier run.                                            *)
(***************************************************************************)
InitObs == [keys |-> {}, runs |-> 0]

PubPath(n) == [k |-> "pub", n |-> n]
SigPath(i) == [k |-> "sig", n |-> i]
ImgPath(i) == [k |-> "img", n |-> i]

FilesAt(run, p)  == {f \in run.files : f.path = p}
PubsWritten(run) == {f \in run.files : f.w /\ f.kind = "pub"}
\* the key published by the run: the one in the file at the -p path (0 if that is not a public key)
PubKeyOf(run) == IF \E f \in FilesAt(run, run.pub) : f.kind = "pub"
                 THEN (CHOOSE f \in FilesAt(run, run.pub) : f.kind = "pub").key
                 ELSE 0

ObserveRun(o, run) ==
    [keys |-> o.keys \cup RangeOf(run.gens) \cup ({PubKeyOf(run)} \ {0}), runs |-> o.runs + 1]

\* contents[i] = content class of image i; the hash of image i is the class itself
CompletedP(run)       == run.exit = 0
SinglePubP(run)       == /\ Cardinality(PubsWritten(run)) = 1
                         /\ \A f \in PubsWritten(run) : f.path = run.pub
SigVerifiesP(run, contents, i) ==
    LET pk == PubKeyOf(run) IN
    /\ pk # 0
    /\ \E f \in FilesAt(run, SigPath(run.imgs[i])) :
          /\ f.kind = "sig" /\ f.w
          /\ f.by = pk
          /\ f.over = contents[run.imgs[i]]
AllSigsVerifyP(run, contents) == \A i \in DOMAIN run.imgs : SigVerifiesP(run, contents, i)
PrivNotWrittenP(run)  == (\A f \in run.files : ~f.leak) /\ ~run.outleak
\* generated afresh: a generation happened in this run, the published key is one of this run's,
\* and no earlier run generated or published it
KeyFreshPerRunP(o, run) ==
    /\ run.gens # <<>>
    /\ PubKeyOf(run) \in RangeOf(run.gens)
    /\ RangeOf(run.gens) \cap o.keys = {}
    /\ PubKeyOf(run) \notin o.keys

RunClauses(o, run, contents) == <<
    <<"Completed",       CompletedP(run)>>,
    <<"PrivNotWritten",  PrivNotWrittenP(run)>>,
    <<"SinglePub",       SinglePubP(run)>>,
    <<"KeyFreshPerRun",  KeyFreshPerRunP(o, run)>>,
    <<"SigVerifies",     AllSigsVerifyP(run, contents)>> >>

(***************************************************************************)
(* 3. Authorization messages (`signapp message`), invoked repeatedly, the  *)
(* -o path possibly holding an authorization from an earlier invocation    *)
(* (for another image / iteration).  What can be seen of one invocation:   *)
(*   img, iter : the image and the iteration asked for                     *)
(*   out       : 0 = printed, n > 0 = the n-th output path (-o)            *)
(*   exit      : exit code                                                 *)
(*   found     : after the invocation an authorization message is there    *)
(*               (printed / readable at the -o path)                       *)
(*   hash, gotiter : the hash and the iteration it embeds                  *)
(* want = the hash of the image given to THIS invocation.                  *)
(***************************************************************************)
NoAuth == [found |-> FALSE, hash |-> 0, gotiter |-> 0]
AuthBindsP(step, want) == step.found /\ step.hash = want /\ step.gotiter = step.iter
AuthClauses(step, want) == <<
    <<"AuthCompleted", step.exit = 0>>,
    <<"AuthBinds",     AuthBindsP(step, want)>> >>
=============================================================================
