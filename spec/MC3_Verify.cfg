SPECIFICATION Spec
CONSTANTS
  Platforms = {"ledger", "sgx"}
  MaxDev = 3
  MaxFileMut = 2
  Sep = TRUE
  FullExt = 2
  Wildcard = FALSE
INVARIANT ReturnIffOk
INVARIANT PrintedSigned
INVARIANT ModelConsistent
CHECK_DEADLOCK FALSE
