-------------------------- MODULE TraceSignerAuth --------------------------
(* Validates event logs recorded from the real code (SignerVersion /        *)
(* SignerAuthorization, signapp, do_authorize_signer / authorize_signer     *)
(* against the UI simulator) with the definitions of SignerAuthProps, on    *)
(* 32-byte hashes.  One trace = [id, ev : Seq(event)]; every event is       *)
(* judged in the observable state folded from the events before it.         *)
EXTENDS SignerAuthProps, TraceLib

VARIABLES tid, l, obs, bad
tvars == <<tid, l, obs, bad>>

HL == 32
T == Traces[tid]

TInit == /\ tid \in 1..Len(Traces) /\ l = 1 /\ obs = InitObs /\ bad = ""

Step == /\ bad = "" /\ l <= Len(T.ev)
        /\ bad' = Judge(obs, T.ev[l], HL)
        /\ obs' = Observe(obs, T.ev[l], HL)
        /\ l' = l + 1 /\ UNCHANGED tid

TNext == Step
TSpec == TInit /\ [][TNext]_tvars

\* obs is a function of (tid, l): states are told apart by the position in the trace alone, so TLC does
\* not fingerprint the (possibly thousands of signatures of the) observable state at every step
TView == <<tid, l, bad>>
Monitor == /\ (bad # "") => Verdict(T.id, FALSE, bad, l - 1)
           /\ (bad = "" /\ l = Len(T.ev) + 1) => Verdict(T.id, TRUE, "", l - 1)
=============================================================================
