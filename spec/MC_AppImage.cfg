SPECIFICATION Spec
CONSTANTS
  Images <- ImagesSmall
  R = 2
  ExtraEla = 1
  Contents <- Contents3
  ImgLists <- Lists3x2
  PubPaths = {1, 2}
  MaxRuns = 2
  Modes = {"image", "sign", "auth"}
  Iters = {1, 2}
  OutPaths = {0, 1, 2}
  MaxSteps = 3
  SizeClasses <- AllSizes
  UnitLens <- UnitLensSmall
  Setups <- SetupsQuick
  AuthSetups <- AuthSetupsQuick
  Forms <- FormsDef
  AltForm <- AltFormDef
  Scales <- ScalesDef
  Variant = "ok"
INVARIANT HashInputOk
INVARIANT HashedLength
INVARIANT SinglePub
INVARIANT SigVerifies
INVARIANT PrivNotWritten
INVARIANT KeyFreshPerRun
INVARIANT AuthBinds
INVARIANT AuthFiles
CHECK_DEADLOCK FALSE
