SPECIFICATION Spec
CONSTANTS
  K = 2
  V1 = FALSE
CHECK_DEADLOCK FALSE
INVARIANT Within
INVARIANT EmitB
