SPECIFICATION Spec
CONSTANTS
  BlockLens <- BL2
  BroLens <- BR2
  MaxReq = 2
  Advance = TRUE
CHECK_DEADLOCK FALSE
INVARIANT Relay
INVARIANT FinalVerdict
INVARIANT EmitB
