SPECIFICATION Spec
CONSTANTS
  Pool = {"a", "b", "c", "root"}
  MaxItems = 2
  MaxTargets = 2
  MaxOdd = 1
  Stretching = FALSE
INVARIANT LoadedImpliesAcyclic
INVARIANT WalkBound
INVARIANT ChainBound
INVARIANT StepBound
INVARIANT Covers
INVARIANT RoundTrip
CHECK_DEADLOCK FALSE
