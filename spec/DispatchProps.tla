--------------------------- MODULE DispatchProps ---------------------------
(***************************************************************************)
(* C02: which verdicts docs/protocol.md (docs/protocol-v1.md) allow for an *)
(* abstract request.  A request is a record of *field classes*; every      *)
(* class is tagged                                                          *)
(*    W     well-formed                                                    *)
(*    R(c)  must be rejected, with one of the codes c                      *)
(*    U(c)  left open by the documents: accepting, or rejecting with c     *)
(* (DESIGN.md Appendix B).  Allowed verdicts: the codes of the generic     *)
(* (envelope) defects if there is a generic R defect; else the codes of    *)
(* all field defects if there is an R field defect; else Accept plus the   *)
(* codes of the U defects.  Accept = the command's device exchange may     *)
(* start (or, for `version`, success).  v1 mode maps every code to -2 and  *)
(* wrong version to -666.                                                  *)
(***************************************************************************)
EXTENDS Integers, FiniteSets, TLC

Accept == 0

V5Cmds == {"version", "sign", "getPubKey", "advanceBlockchain", "updateAncestorBlock",
           "resetAdvanceBlockchain", "blockchainState", "blockchainParameters", "signerHeartbeat",
           "uiHeartbeat"}
V1Cmds == {"version", "sign", "getPubKey"}
CmdsOf(v1) == IF v1 THEN V1Cmds ELSE V5Cmds

R(c) == <<"R", c>>
U(c) == <<"U", c>>

\* ---- generic envelope
GenericDefs(r, v1) ==
    (IF r.shape # "object" THEN {R({-901, -902})} ELSE {})
    \cup (IF r.shape = "object" /\ r.cmd = "missing" THEN {R({-902})} ELSE {})
    \cup (IF r.shape = "object" /\ r.cmd = "nonstr" THEN {R({-901, -902, -903})} ELSE {})
    \cup (IF r.shape = "object" /\ r.cmd \notin {"missing", "nonstr"} /\ r.cmd \notin CmdsOf(v1)
          THEN {R({-903})} ELSE {})
    \cup (IF r.shape = "object" /\ r.ver = "absent" /\ r.cmd # "version" THEN {R({-902, -904})} ELSE {})
    \cup (IF r.shape = "object" /\ r.ver = "otherint" THEN {R({-904})} ELSE {})
    \cup (IF r.shape = "object" /\ r.ver \in {"string", "bool", "null", "list"} THEN {R({-904, -902})} ELSE {})
    \cup (IF r.shape = "object" /\ r.ver = "float" THEN {U({-904})} ELSE {})

\* ---- per-command fields
KeyDefs(r) == IF r.keyId \in {"auth", "noauth"} THEN {}
              ELSE IF r.keyId = "otherWF" THEN {U({-103})} ELSE {R({-103})}

AuthDefs(r) == CASE r.auth = "ok" -> IF r.kind = "hash" THEN {U({-101, -102})} ELSE {}
                 [] r.auth = "absent" -> IF r.kind = "hash" THEN {} ELSE {R({-101})}
                 \* an empty receipt / proof list / proof node: "hex string" without a minimum length
                 [] r.auth \in {"rcpt_empty", "proof_emptylist", "proof_emptyelem"} ->
                        IF r.kind = "hash" THEN {U({-101, -102})} ELSE {U({-101})}
                 [] OTHER -> {R({-101})}

MsgDefs(r) ==
    CASE r.kind \in {"absent", "nonobj", "both", "neither"} -> {R({-102})}
      [] r.kind = "hash" -> (IF r.hash = "ok" THEN {} ELSE IF r.hash = "extra" THEN {U({-102})} ELSE {R({-102})})
      [] r.kind = "tx" ->
           (IF r.tx = "ok" THEN {} ELSE IF r.tx \in {"empty", "undecodable"} THEN {U({-102})} ELSE {R({-102})})
           \cup (IF r.inp \in {"zero", "k", "max"} THEN {} ELSE {R({-102})})
           \cup (IF r.mode \in {"legacy", "segwit"} THEN {} ELSE {R({-102})})
           \cup (IF r.mode = "segwit"
                 THEN (IF r.ws = "ok" THEN {} ELSE IF r.ws = "empty" THEN {U({-102})} ELSE {R({-102})})
                      \cup (IF r.ov \in {"one", "max"} THEN {} ELSE IF r.ov = "zero" THEN {U({-102})} ELSE {R({-102})})
                 ELSE IF r.mode = "legacy" /\ (r.ws # "absent" \/ r.ov # "absent") THEN {U({-102})} ELSE {})
           \cup (IF r.extra = "yes" THEN {U({-102})} ELSE {})

BlocksDefs(r) == CASE r.blocks = "ok" -> {}
                   [] r.blocks \in {"nonhex", "notheader"} -> {U({-204})}
                   [] OTHER -> {R({-204})}
BrothersDefs(r) == CASE r.brothers = "ok" -> {}
                     [] r.brothers = "bro_notheader" -> {U({-205, -204})}
                     [] OTHER -> {R({-205})}
UdDefs(r) == IF r.ud = "ok" THEN {} ELSE {R({-301})}
V1MsgDefs(r) == IF r.v1msg = "ok" THEN {} ELSE {R({-102})}

FieldDefs(r, v1) ==
    CASE r.cmd = "getPubKey" -> KeyDefs(r)
      [] r.cmd = "sign" /\ v1 -> KeyDefs(r) \cup V1MsgDefs(r)
      [] r.cmd = "sign" -> KeyDefs(r) \cup AuthDefs(r) \cup MsgDefs(r)
      [] r.cmd = "advanceBlockchain" -> BlocksDefs(r) \cup BrothersDefs(r)
      [] r.cmd = "updateAncestorBlock" -> BlocksDefs(r)
      [] r.cmd \in {"signerHeartbeat", "uiHeartbeat"} -> UdDefs(r)
      [] OTHER -> {}

Codes(S) == UNION {d[2] : d \in S}
HasR(S) == \E d \in S : d[1] = "R"
V1Code(c) == IF c = Accept THEN Accept ELSE IF c = -904 THEN -666 ELSE -2

AllowedV5(r, v1) ==
    LET G == GenericDefs(r, v1)
        F == FieldDefs(r, v1) IN
    IF HasR(G) THEN Codes(G)
    ELSE IF HasR(F) THEN Codes(F) \cup Codes(G)
    ELSE {Accept} \cup Codes(F) \cup Codes(G)
Allowed(r, v1) == IF v1 THEN {V1Code(c) : c \in AllowedV5(r, v1)} ELSE AllowedV5(r, v1)

\* observation: reply code, whether the device was contacted at all
ObservedVerdict(code, contacted) == IF contacted \/ code >= 0 THEN Accept ELSE code
Clauses(r, v1, code, hascode, contacted) == <<
    <<"ReplyWithoutErrorCode", hascode>>,
    <<"DeviceContactedForRejectedRequest", contacted => Accept \in Allowed(r, v1)>>,
    <<"VerdictNotAllowed", ObservedVerdict(code, contacted) \in Allowed(r, v1)>> >>
=============================================================================
