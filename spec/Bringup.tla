------------------------------ MODULE Bringup ------------------------------
(***************************************************************************)
(* Env (device, answers chosen lazily) || Sys (the manager's bring-up, one *)
(* action per device exchange).  Observables and properties come from      *)
(* BringupProps, shared with the trace specification.                      *)
(***************************************************************************)
EXTENDS BringupProps

CONSTANTS Platforms,     \* subset of {"ledger", "sgx", "tcp"}
          Majors, Minors, Patches,   \* version grid
          RetrySet       \* retries the device may report

Modes   == {"boot", "signer", "uihb", "unknown", "other"}
Vers    == {<<a, b, c>> : a \in Majors, b \in Minors, c \in Patches}

(***************************************************************************)
(* Model: Env (device, lazily chosen) || Sys (the manager).                *)
(***************************************************************************)
VARIABLES pc, plat, dev, needchg, obs, outcome, hist, env
vars == <<pc, plat, dev, needchg, obs, outcome, hist, env>>

Dev0 == [onb |-> "?", mode |-> "?", ver |-> NoVer, retries |-> NoRetry]

Init == /\ pc = "connect" /\ plat \in Platforms /\ needchg \in {"t", "f"}
        /\ dev = Dev0 /\ obs = InitObs /\ outcome = "none" /\ hist = <<>>
        /\ env = [onb |-> "?", mode1 |-> "?", uiver |-> NoVer, echo |-> "?", retries |-> NoRetry,
                  unlock |-> "?", newpin |-> "?", mode2 |-> "?", appver |-> NoVer]

Emit(es) == /\ obs' = ObserveAll(obs, es)
            /\ hist' = hist \o [i \in 1..Len(es) |-> es[i].cls]
Stop(kind) == pc' = "stopped" /\ outcome' = "stop"
Go(p) == pc' = p /\ UNCHANGED outcome

Connect == /\ pc = "connect" /\ Go("onb") /\ UNCHANGED <<plat, dev, needchg, obs, env>>
           /\ hist' = Append(hist, "open")

\* is_onboarded(): answer error => interrupt; "no" => error
AskOnb == /\ pc = "onb"
          /\ \E a \in {"yes", "no", "err"} :
               LET d == [dev EXCEPT !.onb = a] IN
               /\ dev' = d
               /\ Emit(<<Ev("is_onboard", d, "na")>>) /\ env' = [env EXCEPT !.onb = a]
               /\ IF a = "yes" THEN Go("mode") ELSE Stop(a)
          /\ UNCHANGED <<plat, needchg>>

\* get_current_mode(): "other" = a mode byte the enum does not know (ValueError escapes)
AskMode == /\ pc = "mode"
           /\ \E m \in Modes :
                LET d == [dev EXCEPT !.mode = m] IN
                /\ dev' = d
                /\ Emit(<<Ev("get_mode", d, "na")>>) /\ env' = [env EXCEPT !.mode1 = m]
                /\ IF m = "boot" THEN Go("uiver")
                   ELSE IF m = "signer" THEN Go("appver")
                   ELSE Stop(m)
           /\ UNCHANGED <<plat, needchg>>

AskUiVer == /\ pc = "uiver"
            /\ \E v \in Vers :
                 LET d == [dev EXCEPT !.ver = v] IN
                 /\ dev' = d
                 /\ Emit(<<Ev("is_onboard", d, "na")>>) /\ env' = [env EXCEPT !.uiver = v]
                 /\ IF Supports(MW, v) THEN Go("echo") ELSE Stop("uiver")
            /\ UNCHANGED <<plat, needchg>>

Echo == /\ pc = "echo"
        /\ \E ok \in {"t", "f"} :
             /\ Emit(<<Ev("echo", dev, ok)>>) /\ env' = [env EXCEPT !.echo = ok]
             /\ IF ok = "t" THEN Go("retries") ELSE Stop("echo")
        /\ UNCHANGED <<plat, dev, needchg>>

\* get_retries(): 999 = the query itself fails
AskRetries == /\ pc = "retries"
              /\ \E r \in RetrySet \cup {999} :
                   LET d == [dev EXCEPT !.retries = IF r = 999 THEN NoRetry ELSE r] IN
                   /\ dev' = d
                   /\ Emit(<<Ev("retries", d, IF r = 999 THEN "f" ELSE "t")>>)
                   /\ env' = [env EXCEPT !.retries = r]
                   /\ IF r # 999 /\ r >= 2 THEN Go("unlock") ELSE Stop("retries")
              /\ UNCHANGED <<plat, needchg>>

PinBytes(n, d) == [i \in 1..n |-> Ev("pin_byte", d, "na")]

\* unlock(pin): ledger = 8 x SEND_PIN + UNLOCK; sgx = one SGX_UNLOCK; tcp = no PIN object
Unlock == /\ pc = "unlock"
          /\ IF plat = "tcp"
             THEN /\ Stop("nopin") /\ UNCHANGED <<dev, obs, hist, env>>
             ELSE \E ok \in {"t", "f"} :
                   LET d == IF ok = "f" THEN [dev EXCEPT !.retries = @ - 1] ELSE dev IN
                   /\ Emit((IF plat = "ledger" THEN PinBytes(8, dev) ELSE <<>>)
                           \o <<Ev("unlock", dev, ok)>>)
                   /\ dev' = d /\ env' = [env EXCEPT !.unlock = ok]
                   /\ IF ok = "f" THEN Stop("pin")
                      ELSE IF needchg = "t" THEN Go("newpin") ELSE Go("exit")
          /\ UNCHANGED <<plat, needchg>>

\* new_pin(): ledger = 9 x SEND_PIN + CHANGE_PIN; sgx = one SGX_CHANGE_PASSWORD; always stops after
NewPin == /\ pc = "newpin"
          /\ \E r \in {"ack", "refuse", "err"} :
               /\ env' = [env EXCEPT !.newpin = r]
               /\ Emit((IF plat = "ledger" THEN PinBytes(9, dev) ELSE <<>>)
                    \o <<Ev("change_pin", dev, IF r = "ack" THEN "t" ELSE "f")>>)
          /\ Stop("pinchange") /\ UNCHANGED <<plat, dev, needchg>>

\* exit_menu + _wait_and_reconnect: the device lands in whatever mode the environment likes
ExitMenu == /\ pc = "exit"
            /\ \E m \in Modes :
                 /\ dev' = [dev EXCEPT !.mode = m, !.ver = NoVer] /\ env' = [env EXCEPT !.mode2 = m]
                 /\ Emit(<<Ev("exit", dev, "na")>>)
            /\ Go("mode2") /\ UNCHANGED <<plat, needchg>>

AskMode2 == /\ pc = "mode2"
            /\ Emit(<<Ev("close", dev, "na"), Ev("open", dev, "na"), Ev("get_mode", dev, "na")>>)
            /\ IF dev.mode = "signer" THEN Go("appver") ELSE Stop(dev.mode)
            /\ UNCHANGED <<plat, dev, needchg, env>>

AskAppVer == /\ pc = "appver"
             /\ \E v \in Vers :
                  LET d == [dev EXCEPT !.ver = v] IN
                  /\ dev' = d
                  /\ Emit(<<Ev("is_onboard", d, "na")>>) /\ env' = [env EXCEPT !.appver = v]
                  /\ IF Supports(MW, v) THEN Go("params") ELSE Stop("appver")
             /\ UNCHANGED <<plat, needchg>>

Params == /\ pc = "params" /\ Emit(<<Ev("params", dev, "na")>>)
          /\ pc' = "serving" /\ outcome' = "serve" /\ UNCHANGED <<plat, dev, needchg, env>>

Next == Connect \/ AskOnb \/ AskMode \/ AskUiVer \/ Echo \/ AskRetries \/ Unlock \/ NewPin
        \/ ExitMenu \/ AskMode2 \/ AskAppVer \/ Params
Spec == Init /\ [][Next]_vars

Terminal == pc \in {"serving", "stopped"}
Fin == [onb |-> dev.onb, mode |-> dev.mode, ver |-> dev.ver]

AtMostOneUnlock  == AtMostOneUnlockP(obs)
UnlockOnlyIfSafe == UnlockOnlyIfSafeP(obs)
ServeIff         == Terminal => ServeIffP(obs, Fin, needchg, outcome)
\* vacuity guards: these must be *violated* (checked by the negative configuration)
NeverServes      == pc # "serving"
NeverUnlocks     == obs.unlocks = 0

View == <<pc, plat, dev, needchg, obs, outcome>>
=============================================================================
