----------------------------- MODULE StatusMap -----------------------------
(***************************************************************************)
(* Sys = the middleware's own translation pipeline, transcribed from       *)
(* ledger/hsm2dongle.py (_send_command classification, per-step `except    *)
(* HSM2DongleErrorResult` tables) and ledger/protocol.py (handlers and     *)
(* _translate_* tables), checked cell by cell against StatusMapProps.      *)
(* One state per cell (cmd, step, kind, sw).                               *)
(***************************************************************************)
EXTENDS StatusMapProps
CONSTANTS SWs       \* status words to enumerate (all 0..65535 in the thorough configuration)

Cmds == {"getPubKey", "sign_hash", "sign_legacy", "sign_segwit", "advanceBlockchain",
         "updateAncestorBlock", "resetAdvanceBlockchain", "blockchainState", "blockchainParameters",
         "signerHeartbeat", "uiHeartbeat"}
StepsOf(cmd) ==
    CASE cmd = "getPubKey" -> {"pubkey"} [] cmd = "sign_hash" -> {"path"}
      [] cmd \in {"sign_legacy", "sign_segwit"} -> {"path", "btc", "receipt", "merkle"}
      [] cmd = "advanceBlockchain" -> {"init", "meta", "chunk", "brolist", "brometa", "brochunk"}
      [] cmd = "updateAncestorBlock" -> {"init", "meta", "chunk"}
      [] cmd = "resetAdvanceBlockchain" -> {"reset"}
      [] cmd = "blockchainState" -> {"hash", "diff", "flags"}
      [] cmd = "blockchainParameters" -> {"params"}
      [] cmd = "signerHeartbeat" -> {"hbt"}
      [] cmd = "uiHeartbeat" -> {"mode", "exit", "hbt"}
Kinds == {"sw", "timeout", "write", "read", "wrongop"}

\* ---- the middleware's pipeline.  Result: [code, hascode, shutdown]
R(code) == [code |-> code, hascode |-> TRUE, shutdown |-> FALSE]
StopUnknown == [code |-> -906, hascode |-> TRUE, shutdown |-> TRUE]   \* HSM2ProtocolError path

\* sign: ERROR_PATH -103, ERROR_BTC_TX -102, receipt / merkle -101, ERROR_HASH -102, unexpected -905
SignAuthSw(step, sw) ==
    CASE step = "path"    /\ sw \in {27271, 27279, 27280, 27281} -> -103
      [] step = "btc"     /\ sw \in {27272, 27271, 27277, 27278, 27287, 27288} -> -102
      [] step = "receipt" /\ sw \in {27273, 27274, 27275, 27276, 27271} -> -101
      [] step = "merkle"  /\ sw \in {27271, 27273, 27282, 27283, 27284, 27285, 27286} -> -101
      [] OTHER -> -905
SignHashSw(sw) == CASE sw \in {27271, 27281} -> -102 [] sw \in {27279, 27280} -> -103 [] OTHER -> -905
AdvanceChunkSw(sw) ==
    CASE sw \in {27545, 27543, 27544, 27528, 27530, 27531, 27535, 27536, 27537, 27534, 27533, 27529, 27539} -> -204
      [] sw \in {27541, 27538, 27542, 27540, 27549} -> -202
      [] sw \in {27550, 27551, 27552, 27553} -> -205
      [] sw = 27546 -> -201 [] sw = 27547 -> -204 [] sw = 27527 -> -905
      [] OTHER -> -906
AncestorChunkSw(sw) ==
    CASE sw \in {27545, 27528, 27530, 27531, 27532, 27536, 27533, 27529, 27539} -> -204
      [] sw = 27548 -> -203 [] sw = 27546 -> -201 [] sw = 27527 -> -905
      [] OTHER -> -906

\* status word inside the device range (=> HSM2DongleErrorResult)
OnErrorResult(cmd, step, sw) ==
    CASE cmd = "getPubKey" -> R(-103)
      [] cmd = "sign_hash" -> R(SignHashSw(sw))
      [] cmd \in {"sign_legacy", "sign_segwit"} -> R(SignAuthSw(step, sw))
      [] cmd = "advanceBlockchain" /\ step = "init" -> R(IF sw = 27527 THEN -905 ELSE -906)
      [] cmd = "advanceBlockchain" /\ step \in {"meta", "brometa"} -> R(IF sw = 27527 THEN -905 ELSE -906)
      [] cmd = "advanceBlockchain" /\ step = "brolist" -> R(IF sw \in {27527, 27550} THEN -205 ELSE -906)
      [] cmd = "advanceBlockchain" -> R(AdvanceChunkSw(sw))
      [] cmd = "updateAncestorBlock" /\ step \in {"init", "meta"} -> R(IF sw = 27527 THEN -905 ELSE -906)
      [] cmd = "updateAncestorBlock" -> R(AncestorChunkSw(sw))
      [] cmd \in {"signerHeartbeat", "uiHeartbeat"} /\ step = "hbt" -> R(-905)
      [] OTHER -> R(-905)       \* state, reset, parameters, uiHeartbeat mode/exit
\* any other CommException status (=> HSM2DongleError)
OnDongleError(cmd, step) ==
    CASE cmd \in {"getPubKey", "sign_hash", "sign_legacy", "sign_segwit"} -> StopUnknown
      [] cmd = "uiHeartbeat" /\ step = "mode" -> R(-905)    \* get_current_mode swallows it: UNKNOWN mode
      [] OTHER -> R(-905)
OnWrongOp(cmd, step) ==
    CASE cmd = "getPubKey" -> R(0)     \* the answer is the key itself, there is no opcode to check
      [] cmd = "sign_hash" -> R(-905)
      [] cmd \in {"sign_legacy", "sign_segwit"} -> R(-905)
      [] cmd \in {"advanceBlockchain", "updateAncestorBlock"} -> R(-906)
      [] OTHER -> R(-905)

Sys(cmd, step, kind, sw) ==
    IF kind = "sw" THEN (IF InDeviceRange(sw) THEN OnErrorResult(cmd, step, sw)
                         ELSE OnDongleError(cmd, step))
    ELSE IF kind \in {"timeout", "write", "read"} THEN R(-905)
    ELSE OnWrongOp(cmd, step)

AllSW == 0..65535
VARIABLES cell
Init == \E c \in Cmds : \E s \in StepsOf(c) : \E k \in Kinds :
           \/ (k = "sw" /\ \E w \in SWs : ~PassThrough(w) /\ cell = [cmd |-> c, step |-> s, kind |-> k, sw |-> w])
           \/ (k # "sw" /\ cell = [cmd |-> c, step |-> s, kind |-> k, sw |-> 0])
Next == UNCHANGED cell
Spec == Init /\ [][Next]_cell

Judged == LET r == Sys(cell.cmd, cell.step, cell.kind, cell.sw) IN
          [v1 |-> FALSE, cmd |-> cell.cmd, step |-> cell.step, kind |-> cell.kind, sw |-> cell.sw,
           code |-> r.code, hascode |-> r.hascode, shutdown |-> r.shutdown]
\* wrong opcode on getPubKey is not a failure the host can see (no opcode in that answer)
TableWithinAllowed == (cell.kind = "wrongop" /\ cell.cmd = "getPubKey") \/ FirstFailS(Clauses(Judged)) = ""
=============================================================================
