SPECIFICATION Spec
CONSTANTS
  Names = {"device", "attestation", "ui", "signer"}
  MaxTargets = 1
  MaxCorr = 1
  CorrKinds = {"sigOtherKey", "sigFlip", "sigSwap", "msgFlipKey", "msgFlipOther", "keySubst", "tweakFlip", "tweakRemove", "tweakAdd", "reparent", "wrongRoot"}
  Shapes = {"comp", "longTail", "longHead", "short", "sliced"}
  MaxShape = 1
  ShapeWithCorr = TRUE
  MaxOps = 0
  OpKinds = {}
  Origins = {"loaded"}
  TweakChoice = {"plain", "tweaked"}
INVARIANT Agree
INVARIANT EmitB
CHECK_DEADLOCK FALSE
