SPECIFICATION Spec
CONSTANTS
  MaxReqs = 5
  V1 = FALSE
CHECK_DEADLOCK FALSE
INVARIANT NoViolation
VIEW View
