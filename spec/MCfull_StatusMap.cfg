SPECIFICATION Spec
CONSTANTS
  SWs <- AllSW
INVARIANT TableWithinAllowed
CHECK_DEADLOCK FALSE
