SPECIFICATION Spec
CONSTANTS
  Names = {"device", "attestation", "ui", "signer"}
  MaxTargets = 1
  MaxCorr = 1
  CorrKinds = {"sigOtherKey", "sigFlip", "sigSwap", "msgFlipKey", "msgFlipOther", "keySubst", "tweakFlip", "tweakRemove", "tweakAdd", "reparent", "wrongRoot"}
  Shapes = {"longTail", "longHead"}
  MaxShape = 1
  ShapeWithCorr = FALSE
  MaxOps = 0
  OpKinds = {}
  Origins = {"loaded"}
  TweakChoice = {"plain", "tweaked"}
INVARIANT NeverValid
CHECK_DEADLOCK FALSE
