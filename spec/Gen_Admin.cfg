SPECIFICATION Spec
CONSTANTS
  Ops = {"onboard", "unlock", "changepin", "pubkeys"}
  Platforms = {"ledger", "sgx"}
INVARIANT OnboardSafe
INVARIANT SeedFresh
INVARIANT UnlockSafe
INVARIANT PinPolicy
INVARIANT PinHeld
INVARIANT Carried
INVARIANT PubkeysWritten
INVARIANT WriteError
INVARIANT InputError
INVARIANT EmitB
CHECK_DEADLOCK FALSE
