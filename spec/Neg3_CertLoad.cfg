SPECIFICATION Spec
CONSTANTS
  Pool = {"a", "b", "c", "d", "root"}
  MaxItems = 3
  MaxTargets = 1
  MaxOdd = 0
  Stretching = FALSE
INVARIANT NeverRootNamed
CHECK_DEADLOCK FALSE
