SPECIFICATION Spec
CONSTANTS
  MaxSigs = 1
  Spaced = TRUE
  Tools = {"none"}
INVARIANT RefusesMalformed
VIEW View
CHECK_DEADLOCK FALSE
