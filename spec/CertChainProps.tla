--------------------------- MODULE CertChainProps ---------------------------
(***************************************************************************)
(* C06 - reference semantics of a version-1 (Ledger) attestation           *)
(* certificate under symbolic cryptography (DESIGN 3.3).  Constants-free:  *)
(* the same definitions judge the model (CertChain) and every recorded     *)
(* execution of the real code (TraceCertChain).                            *)
(*                                                                         *)
(* A certificate is a function  name -> element  with                      *)
(*   by     the declared certifier ("root" for the topmost element)        *)
(*   key    id of the public key embedded in the element's message         *)
(*   msg    id of the message;  val: the value the message carries         *)
(*   sig    [by |-> <<key id, tweak id>>, over |-> message id]             *)
(*   tweak  declared tweak id ("none" = no tweak)                          *)
(* Keys, messages and tweaks are ids: two ids are equal iff the objects    *)
(* are (perfect cryptography: no forgery, no collision).  No signature is  *)
(* ever made by "k_bad" (bytes that are not a curve point) or "k_none".    *)
(***************************************************************************)
EXTENDS Naturals, Sequences, FiniteSets, TLC

Root    == "root"
NoTweak == "none"
NoVal   == ""
NoName  == ""

\* verification key: certifier key k tweaked by t (HMAC-SHA256(t, k) added to k); t = "none": k itself
VKey(k, t) == <<k, t>>
Verifies(sig, vk, m) == sig.by = vk /\ sig.over = m
\* "element e carries a valid signature over its message by the (tweaked) key ck"
ElemValid(e, ck) == Verifies(e.sig, VKey(ck, e.tweak), e.msg)

(***************************************************************************)
(* Paths.  PathUp: the names from n upwards; ends in "!" iff there is no   *)
(* finite cycle-free path to the root inside the certificate.              *)
(***************************************************************************)
RECURSIVE PathUp(_, _, _)
PathUp(c, n, seen) ==
    IF n \notin DOMAIN c \/ n \in seen THEN <<"!">>
    ELSE IF c[n].by = Root THEN <<n>>
    ELSE <<n>> \o PathUp(c, c[n].by, seen \cup {n})

HasPath(c, x) == LET p == PathUp(c, x, {}) IN p[Len(p)] # "!"
WellFormed(c, targets) == \A i \in 1..Len(targets) : HasPath(c, targets[i])

Rev(s) == [i \in 1..Len(s) |-> s[Len(s) + 1 - i]]
PathDown(c, x) == Rev(PathUp(c, x, {}))           \* topmost element first

CertifierKey(c, rk, n) == IF c[n].by = Root THEN rk ELSE c[c[n].by].key
LinkOk(c, rk, n) == ElemValid(c[n], CertifierKey(c, rk, n))

(***************************************************************************)
(* The property: valid iff every link on the path verifies; the value is   *)
(* the target's own signed value; otherwise the failing element is the     *)
(* first one from the root that does not verify.                           *)
(***************************************************************************)
SpecVerdict(c, rk, x) ==
    LET p   == PathDown(c, x)
        bad == {i \in 1..Len(p) : ~LinkOk(c, rk, p[i])}
    IN IF bad = {}
       THEN [valid |-> TRUE,  name |-> NoName, value |-> c[x].val, tweak |-> c[x].tweak]
       ELSE [valid |-> FALSE, name |-> p[CHOOSE i \in bad : \A j \in bad : i <= j],
             value |-> NoVal, tweak |-> NoTweak]

(***************************************************************************)
(* Spelling of a hex-valued field (message, signature, tweak).  The        *)
(* certificate IS its bytes: a spelling that the loader accepts must give  *)
(* exactly the verdicts and values of the canonical spelling of the same   *)
(* bytes.  What the unchanged loader does with each member was established *)
(* by running it (same result for every hex field):                        *)
(*   read as the same bytes: lower case, upper case, mixed case, leading / *)
(*     trailing blank(s), blanks / tabs / line breaks between byte pairs,  *)
(*     trailing newline                                                    *)
(*   refused at load: blanks only, empty, "0x" prefix, odd number of       *)
(*     digits, non-ASCII digits, a blank inside a byte pair, a no-break    *)
(*     space                                                               *)
(* "" = every field in the canonical spelling.                             *)
(***************************************************************************)
SpellAccepted == {"", "lower", "upper", "mixed", "lead_blank", "trail_blank", "inner_blanks", "tabs",
                  "trail_newline"}
SpellRefused  == {"ws_only", "empty", "prefix_0x", "odd", "non_ascii", "split_pair", "nbsp"}
\* a document is a certificate (must load) iff its fields are readable and its targets reach the root
Loadable(c, targets, spell) == spell \in SpellAccepted /\ WellFormed(c, targets)

\* The root of trust is a KEY.  In which encoding it is handed over (04 X Y, or 02/03 X) is an environment
\* choice that the reference semantics does not see: rk below is the key id, the same for every encoding.
RootEncodings == {"uncompressed", "compressed"}

\* Judging one observed verdict o = [valid, name, value] for target x; "" = agrees
JudgeTarget(c, rk, x, o) ==
    IF ~HasPath(c, x)
    THEN IF o.valid THEN "ValidWithoutPathToRoot" ELSE ""
    ELSE LET v == SpecVerdict(c, rk, x) IN
         IF o.valid # v.valid THEN "ValidIffEveryLinkVerifies"
         ELSE IF v.valid /\ o.value # v.value THEN "ValueIsTargetsSignedMessage"
         ELSE IF ~v.valid /\ o.name # v.name THEN "FailingElementIsFirstFromRoot"
         ELSE ""
=============================================================================
