-------------------------------- MODULE Conc --------------------------------
(***************************************************************************)
(* Env || Sys for C12: N clients connect and send in any order; the kernel *)
(* queues connections (FIFO backlog); the server accepts the head of the   *)
(* backlog when it has a free handler, blocks in readline() until that     *)
(* client has sent, runs the command (K device exchanges) and replies.     *)
(* Handlers = 1 is socketserver.TCPServer (the code); Handlers = 2 is a    *)
(* threaded variant kept as the negative configuration.                    *)
(***************************************************************************)
EXTENDS ConcProps
CONSTANTS N, K, Handlers
Clients == 1..N
VARIABLES cst, backlog, active, done, obs, bad, sched
vars == <<cst, backlog, active, done, obs, bad, sched>>

Emit(e) == LET n == Observe(obs, e) IN
           /\ obs' = n /\ bad' = IF bad # "" THEN bad ELSE FirstFailC(Clauses(obs, n, e))
E0(k, r, t) == [k |-> k, r |-> r, t |-> t, m |-> 0]

Init == /\ cst = [c \in Clients |-> "idle"] /\ backlog = <<>> /\ active = {}
        /\ done = [c \in Clients |-> 0] /\ obs = InitObs /\ bad = "" /\ sched = <<>>

Connect(c) == /\ cst[c] = "idle" /\ cst' = [cst EXCEPT ![c] = "connected"]
              /\ backlog' = Append(backlog, c) /\ sched' = Append(sched, <<"connect", c>>)
              /\ UNCHANGED <<active, done, obs, bad>>
Send(c) == /\ cst[c] = "connected" /\ cst' = [cst EXCEPT ![c] = "sent"]
           /\ sched' = Append(sched, <<"send", c>>)
           /\ UNCHANGED <<backlog, active, done, obs, bad>>
\* accept(): one handler thread per accepted connection; thread id = client id here
Accept == /\ Cardinality(active) < Handlers /\ backlog # <<>>
          /\ active' = active \cup {Head(backlog)} /\ backlog' = Tail(backlog)
          /\ UNCHANGED <<cst, done, obs, bad, sched>>
\* readline() returned: handle_request begins
Begin(c) == /\ c \in active /\ cst[c] = "sent" /\ cst' = [cst EXCEPT ![c] = "handling"]
            /\ Emit(E0("begin", c, c)) /\ UNCHANGED <<backlog, active, done, sched>>
Exchange(c) == /\ c \in active /\ cst[c] = "handling" /\ done[c] < K
               /\ done' = [done EXCEPT ![c] = @ + 1]
               /\ Emit(E0("apdu", 0, c)) /\ UNCHANGED <<cst, backlog, active, sched>>
Reply(c) == /\ c \in active /\ cst[c] = "handling" /\ done[c] = K
            /\ cst' = [cst EXCEPT ![c] = "replied"] /\ active' = active \ {c}
            /\ Emit(E0("end", c, c)) /\ UNCHANGED <<backlog, done, sched>>
\* the reply is written to the connection's own socket
Got(c) == /\ cst[c] = "replied" /\ cst' = [cst EXCEPT ![c] = "closed"]
          /\ Emit([E0("got", c, 0) EXCEPT !.m = c]) /\ UNCHANGED <<backlog, active, done, sched>>
Next == \/ \E c \in Clients : Connect(c) \/ Send(c) \/ Begin(c) \/ Exchange(c) \/ Reply(c) \/ Got(c)
        \/ Accept
Spec == Init /\ [][Next]_vars
FairSpec == Spec /\ WF_vars(Next)

NoViolation == bad = ""
AllServed == <>(\A c \in Clients : cst[c] = "closed")
Finished == \A c \in Clients : cst[c] = "closed"
View == <<cst, backlog, active, done, obs, bad>>
=============================================================================
