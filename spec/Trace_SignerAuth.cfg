SPECIFICATION TSpec
INVARIANT Monitor
VIEW TView
CHECK_DEADLOCK FALSE
