SPECIFICATION Spec
CONSTANTS
  MaxRounds = 2
  MaxDepth = 3
  MaxDefects = 2
  MaxRenames = 1
  MaxWithRename = 2
  Spares = {"none", "fresh", "twin"}
  Embeds = {"none", "genuine", "foreign"}
INVARIANT Agree
INVARIANT ReportsTarget
INVARIANT OffPathIrrelevant
INVARIANT NamesFirstBad
INVARIANT NamesIrrelevant
INVARIANT LoadErrorIffNoPath
INVARIANT Bounded
PROPERTY Terminates
CHECK_DEADLOCK FALSE
