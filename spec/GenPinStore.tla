---------------------------- MODULE GenPinStore ----------------------------
EXTENDS PinStore, Json
EmitB == (pc \in {"dead", "serving"}) =>
            PrintT("B " \o ToJson([hist |-> hist, win |-> obs.win, lives |-> lives]))
=============================================================================
