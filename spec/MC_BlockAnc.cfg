SPECIFICATION Spec
CONSTANTS
  BlockLens <- BL3
  BroLens <- BR3
  MaxReq = 3
  Advance = FALSE
CHECK_DEADLOCK FALSE
INVARIANT Relay
INVARIANT FinalVerdict
VIEW View
