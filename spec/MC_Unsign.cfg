SPECIFICATION Spec
CONSTANTS
  MaxOps = 3
  Vers = {1, 2}
  NIns = 1
CHECK_DEADLOCK FALSE
INVARIANT Idempotent
INVARIANT SigIndependent
INVARIANT PreservesRest
