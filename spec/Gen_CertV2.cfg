SPECIFICATION GenSpec
CONSTANTS
  MaxDepth = 3
  MaxDefects = 2
  Spares = {"none", "fresh", "twin"}
  Embeds = {"none", "genuine", "foreign"}
INVARIANT Agree
INVARIANT ReportsTarget
INVARIANT EmitB
CHECK_DEADLOCK FALSE
