SPECIFICATION Spec
CONSTANTS
  Names = {"device", "attestation", "ui", "signer"}
  MaxTargets = 2
  MaxCorr = 2
  CorrKinds = {"sigOtherKey", "sigFlip", "sigSwap", "msgFlipKey", "msgFlipOther", "keySubst", "tweakFlip", "tweakRemove", "tweakAdd", "reparent", "wrongRoot"}
  Shapes = {"longTail"}
  MaxShape = 0
  ShapeWithCorr = FALSE
  MaxOps = 0
  OpKinds = {}
  Origins = {"loaded"}
  TweakChoice = {"plain", "tweaked"}
INVARIANT Agree
INVARIANT AgreeJudge
INVARIANT LoadIffWellFormed
INVARIANT Bounded
INVARIANT BudgetOk
PROPERTY Stable
CHECK_DEADLOCK FALSE
