------------------------ MODULE BlockExchangeProps ------------------------
(***************************************************************************)
(* C05 on observables (byte sequences).                                    *)
(*  t.advance   advanceBlockchain (TRUE) / updateAncestorBlock (FALSE)     *)
(*  t.count     BE32 of the number of blocks in the request                *)
(*  t.blocks    expected, per block in the client's order:                 *)
(*                hdr  the header bytes (ancestor: re-encoded without the  *)
(*                     merge-mining proof / coinbase fields)               *)
(*                meta BE16(merge-mining RLP payload length) ++ (advance)  *)
(*                     hash of the full coinbase transaction               *)
(*                bros that block's brothers [hdr, meta], ascending by     *)
(*                     block hash (oracle: harness RLP + Keccak)           *)
(*  t.got       what the device received: init payload; per block its      *)
(*              meta, the header bytes it consumed, whether it asked for   *)
(*              brothers, the brother-count payload, per brother meta+data *)
(*  t.dev       total | partial | failure | abandoned                      *)
(*  t.code / t.hascode   the reply;  t.coop  cooperative device            *)
(*  t.lost      the answer to one exchange of the command was lost         *)
(***************************************************************************)
EXTENDS Naturals, Sequences, SequencesExt, TLC

NG(t) == Len(t.got.blocks)
BlockOk(t, j) ==
    LET g == t.got.blocks[j]
        e == t.blocks[j] IN
    /\ g.meta = e.meta
    /\ IsPrefix(g.data, e.hdr)
BrosOk(t, j) ==
    LET g == t.got.blocks[j]
        e == t.blocks[j] IN
    IF ~g.asked THEN g.bros = <<>>
    \* (the device's request for brothers may be the very answer that was lost: then nothing about them was sent)
    ELSE IF t.lost /\ g.brocount = <<>> THEN g.bros = <<>>
    ELSE /\ g.brocount = <<Len(e.bros)>>
         /\ Len(g.bros) <= Len(e.bros)
         /\ \A k \in 1..Len(g.bros) : g.bros[k].meta = e.bros[k].meta /\ IsPrefix(g.bros[k].data, e.bros[k].hdr)
\* a block the device has finished with got every one of its brothers, each consumed entirely
BrosComplete(t, j) ==
    LET g == t.got.blocks[j]
        e == t.blocks[j] IN
    g.asked => /\ Len(g.bros) = Len(e.bros)
               /\ \A k \in 1..Len(e.bros) : g.bros[k].data = e.bros[k].hdr
Finished(t, j) == j < NG(t) \/ t.dev \in {"total", "partial"}

Clauses(t) == <<
    <<"WrongBlockCount", t.got.init = t.count>>,
    <<"MoreBlocksThanRequested", NG(t) <= Len(t.blocks)>>,
    <<"BlockDataOrMetadataAltered", \A j \in 1..NG(t) : j <= Len(t.blocks) => BlockOk(t, j)>>,
    <<"BrothersAltered", \A j \in 1..NG(t) : j <= Len(t.blocks) => BrosOk(t, j)>>,
    <<"BrothersMissing", \A j \in 1..NG(t) : (j <= Len(t.blocks) /\ Finished(t, j)) => BrosComplete(t, j)>>,
    \* (t.badblk: the first block of an advance request that carries no merge-mining proof / coinbase transaction:
    \* there is no metadata to hand over for it, so nothing of it may reach the device and the request fails)
    <<"BlockWithoutCoinbaseRelayed", t.badblk > 0 => (NG(t) < t.badblk /\ t.code \notin {0, 1})>>,
    <<"BrothersSentToAncestorUpdate", ~t.advance => \A j \in 1..NG(t) : ~t.got.blocks[j].asked>>,
    <<"ReplyWithoutErrorCode", t.hascode>>,
    \* (t.lost: the answer to one of the command's exchanges never arrived - the host cannot know what the device
    \* concluded, but it must still not claim a success the device did not report)
    <<"TotalSuccessMisreported", /\ (t.code = 0) => (t.dev = "total")
                                 /\ (t.dev = "total" /\ ~t.lost) => (t.code = 0)>>,
    <<"PartialSuccessMisreported", /\ (t.code = 1) => (t.dev = "partial")
                                   /\ (t.dev = "partial" /\ ~t.lost) => (t.code = 1)>>,
    <<"CooperativeDeviceNotServed", t.coop => t.code \in {0, 1}>> >>

RECURSIVE FirstFailB(_)
FirstFailB(cs) == IF cs = <<>> THEN ""
                  ELSE IF ~Head(cs)[2] THEN Head(cs)[1] ELSE FirstFailB(Tail(cs))
=============================================================================
