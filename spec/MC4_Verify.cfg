SPECIFICATION Spec
CONSTANTS
  Platforms = {"ledger", "sgx"}
  MaxDev = 4
  MaxFileMut = 2
  Sep = TRUE
  Wildcard = FALSE
INVARIANT ReturnIffOk
INVARIANT PrintedSigned
INVARIANT ModelConsistent
CHECK_DEADLOCK FALSE
