SPECIFICATION Spec
CONSTANTS
  Ops = {"onboard", "unlock", "changepin", "pubkeys"}
  Platforms = {"ledger", "sgx"}
INVARIANT OnboardSafe
INVARIANT SeedFresh
INVARIANT UnlockSafe
INVARIANT PinPolicy
INVARIANT PinHeld
INVARIANT Carried
INVARIANT PubkeysWritten
INVARIANT WriteError
INVARIANT InputError
VIEW View
CHECK_DEADLOCK FALSE
