SPECIFICATION Spec
CONSTANTS
  MaxReqs = 3
  V1 = FALSE
CHECK_DEADLOCK FALSE
INVARIANT NoViolation
INVARIANT EmitB
