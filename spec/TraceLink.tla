----------------------------- MODULE TraceLink -----------------------------
(* Judges transport logs recorded from the real manager against LinkProps. *)
(* trace = [id, ninit, deverr_abs, ev : Seq(event)]                          *)
EXTENDS LinkProps, TraceLib
VARIABLES tid, l, obs, bad
tvars == <<tid, l, obs, bad>>
T == Traces[tid]
EvOf(e) == [k |-> e.k, ok |-> e.ok, init |-> e.init, fault |-> e.fault, code |-> e.code,
            hascode |-> e.hascode, shutdown |-> e.shutdown]
TInit == tid \in 1..Len(Traces) /\ l = 1 /\ obs = InitObs /\ bad = ""
Step == /\ bad = "" /\ l <= Len(T.ev)
        /\ LET e == EvOf(T.ev[l])
               \* (the length of the bring-up this step belongs to, where the trace says so: a repair that finds
               \* the device locked in its bootloader has a longer bring-up than one that finds it in the signer)
               n == Observe(obs, e, IF T.ev[l].n > 0 THEN T.ev[l].n ELSE T.ninit) IN
             /\ obs' = n
             /\ bad' = FirstFailL(Clauses(obs, n, e, 0 - T.deverr_abs))
        /\ l' = l + 1 /\ UNCHANGED tid
TSpec == TInit /\ [][Step]_tvars
Monitor == /\ (bad # "") => Verdict(T.id, FALSE, bad, l - 1)
           /\ (bad = "" /\ l = Len(T.ev) + 1) => Verdict(T.id, TRUE, "", l - 1)
=============================================================================
