SPECIFICATION Spec
CONSTANTS
  MaxRounds = 2
  MaxDepth = 2
  MaxDefects = 1
  MaxRenames = 1
  MaxWithRename = 1
  Spares = {"none", "twin"}
  Embeds = {"none"}
INVARIANT NeverChanges
CHECK_DEADLOCK FALSE
