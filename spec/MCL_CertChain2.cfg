SPECIFICATION FairSpec
CONSTANTS
  Names = {"device", "attestation", "ui", "signer"}
  MaxTargets = 2
  MaxCorr = 1
  CorrKinds = {"sigFlip", "keySubst", "sigSwap", "wrongRoot"}
  Shapes = {"longTail"}
  MaxShape = 1
  ShapeWithCorr = FALSE
  TweakChoice = {"plain"}
INVARIANT Agree
INVARIANT AgreeJudge
INVARIANT LoadIffWellFormed
INVARIANT Bounded
INVARIANT BudgetOk
PROPERTY Stable
PROPERTY Terminates
CHECK_DEADLOCK FALSE
