SPECIFICATION FairSpec
CONSTANTS
  Names = {"device", "attestation", "ui", "signer"}
  MaxTargets = 1
  MaxCorr = 1
  CorrKinds = {"sigFlip"}
  Shapes = {}
  MaxShape = 0
  ShapeWithCorr = FALSE
  MaxOps = 4
  OpKinds = {"validate", "addtarget", "addel"}
  Origins = {"built"}
  TweakChoice = {"plain"}
INVARIANT Agree
INVARIANT AgreeJudge
INVARIANT Bounded
INVARIANT BudgetOk
PROPERTY Stable
PROPERTY Terminates
CHECK_DEADLOCK FALSE
