SPECIFICATION GenSpec
CONSTANTS
  MaxRounds = 2
  MaxDepth = 3
  MaxDefects = 2
  MaxRenames = 1
  MaxWithRename = 2
  Spares = {"none", "twin"}
  Embeds = {"none", "genuine", "foreign"}
INVARIANT Agree
INVARIANT ReportsTarget
INVARIANT OffPathIrrelevant
INVARIANT NamesFirstBad
INVARIANT NamesIrrelevant
INVARIANT LoadErrorIffNoPath
INVARIANT Bounded
INVARIANT EmitB
CHECK_DEADLOCK FALSE
