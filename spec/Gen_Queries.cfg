SPECIFICATION GSpec
INVARIANT UiHbBack
INVARIANT EmitB
CHECK_DEADLOCK FALSE
