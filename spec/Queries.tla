------------------------------- MODULE Queries -------------------------------
(***************************************************************************)
(* (1) Wiring: the middleware's tables (GST.HASH_VALUES, FLAG_OFFSET,      *)
(* parameter layout, heartbeat op -> reply field) composed with the        *)
(* firmware's must be the identity on names — checked on a device whose    *)
(* data are pairwise distinct tokens, so any cross-wiring is visible.      *)
(* (2) uiHeartbeat as a state machine: the environment chooses the mode    *)
(* the device lands in after each EXIT and how the heartbeat exchange ends.*)
(***************************************************************************)
EXTENDS QueriesProps

\* middleware tables (ledger/hsm2dongle.py)
MwHashId(name) == CASE name = "best_block" -> 1 [] name = "newest_valid_block" -> 2 [] name = "ancestor_block" -> 3
                    [] name = "ancestor_receipts_root" -> 5 [] name = "updating.best_block" -> 129
                    [] name = "updating.newest_valid_block" -> 130 [] name = "updating.next_expected_block" -> 132
MwFlagOffset(name) == CASE name = "updating.in_progress" -> 0 [] name = "updating.already_validated" -> 1
                        [] name = "updating.found_best_block" -> 2
\* heartbeat ops of hsm2dongle_cmds: GET 2 -> signature, GET_MESSAGE 3 -> message, APP_HASH 4 -> tweak, PUBKEY 5 -> pubKey
MwHbField(op) == CASE op = 2 -> "signature" [] op = 3 -> "message" [] op = 4 -> "tweak" [] op = 5 -> "pubKey"
FwHbDatum(op) == CASE op = 2 -> "sig" [] op = 3 -> "msg" [] op = 4 -> "hash" [] op = 5 -> "pub"
DocHbDatum(field) == CASE field = "signature" -> "sig" [] field = "message" -> "msg" [] field = "tweak" -> "hash"
                       [] field = "pubKey" -> "pub"

\* a device with pairwise distinct tokens: the datum of name n is the token <<n>>
Tok(n) == <<n>>
DevAnswerHash(id) == Tok(FwHashName(id))
DevFlags == [k \in 1..3 |-> Tok(FwFlagNames[k])]
ReplyHash(name) == DevAnswerHash(MwHashId(name))
ReplyFlag(name) == DevFlags[MwFlagOffset(name) + 1]

Wiring == /\ \A n \in StateNames : ReplyHash(n) = Tok(n)
          /\ \A k \in 1..3 : ReplyFlag(FwFlagNames[k]) = Tok(FwFlagNames[k])
          /\ \A op \in {2, 3, 4, 5} : DocHbDatum(MwHbField(op)) = FwHbDatum(op)

\* ---- uiHeartbeat
Modes == {"signer", "uihb", "boot", "unknown"}
HbEnds == {"ok", "errorresult", "dongleerror", "timeout"}
VARIABLES pc, mode, code, hb, kept
vars == <<pc, mode, code, hb, kept>>
\* kept: the device answered the last EXIT normally instead of dropping the link (both are tolerated)
Init == pc = "mode0" /\ mode = "signer" /\ code = 1 /\ hb = "none" /\ kept = FALSE
\* code 1 = not answered yet
Mode0 == /\ pc = "mode0" /\ pc' = "exit1" /\ UNCHANGED <<mode, code, hb, kept>>
Exit1 == /\ pc = "exit1" /\ \E m \in Modes : mode' = m
         /\ kept' \in BOOLEAN
         /\ pc' = "mode1" /\ UNCHANGED <<code, hb>>
Mode1 == /\ pc = "mode1"
         /\ IF mode = "uihb" THEN pc' = "hb" /\ UNCHANGED code ELSE pc' = "done" /\ code' = -905
         /\ UNCHANGED <<mode, hb, kept>>
Hb == /\ pc = "hb" /\ \E e \in HbEnds :
            /\ hb' = e
            /\ IF e \in {"dongleerror", "timeout"} THEN pc' = "done" /\ code' = -905    \* exception: no second exit
               ELSE pc' = "exit2" /\ UNCHANGED code
      /\ UNCHANGED <<mode, kept>>
Exit2 == /\ pc = "exit2" /\ \E m \in Modes : mode' = m
         /\ kept' \in BOOLEAN
         /\ pc' = "mode2" /\ UNCHANGED <<code, hb>>
Mode2 == /\ pc = "mode2"
         /\ code' = IF mode # "signer" THEN -905 ELSE IF hb = "ok" THEN 0 ELSE -905
         /\ pc' = "done" /\ UNCHANGED <<mode, hb, kept>>
Next == Mode0 \/ Exit1 \/ Mode1 \/ Hb \/ Exit2 \/ Mode2
Spec == Init /\ [][Next]_vars
UiHbBack == (pc = "done") => FirstFailQ(UiHbModeClauses([code |-> code, finalmode |-> mode])) = ""
NeverOk == code # 0
=============================================================================
