SPECIFICATION Spec
CONSTANTS
  Platforms = {"ledger", "sgx"}
  MaxDev = 3
  MaxFileMut = 2
  Sep = TRUE
  Wildcard = FALSE
INVARIANT ReturnIffOk
INVARIANT PrintedSigned
INVARIANT EmitB
CHECK_DEADLOCK FALSE
