-------------------------- MODULE TraceCertChain --------------------------
(* Judges executions of the real HSMCertificate (version 1) against the     *)
(* reference semantics of CertChainProps.  One trace =                      *)
(*   [id, rootkey, targets : Seq(name),                                      *)
(*    els : Seq([name, by, key, msg, val, sigk, sigt, sigover, tweak]),      *)
(*    spell : "" | member of SpellAccepted / SpellRefused (how the file      *)
(*            writes its hex fields; `els` always describes the bytes),      *)
(*    outcome : "loaded" | "error" | "hang",                                 *)
(*    res : Seq([target, valid, name, value])]                               *)
(* `els` is the symbolic description of the REAL certificate the harness     *)
(* built (ids are content-addressed); `res` is what the real                 *)
(* validate_and_get_values returned.  One step per target.                   *)
EXTENDS CertChainProps, TraceLib

VARIABLES tid, l, bad
tvars == <<tid, l, bad>>

T == Traces[tid]
ElNames == {T.els[i].name : i \in 1..Len(T.els)}
ElOf(n) == T.els[CHOOSE i \in 1..Len(T.els) : T.els[i].name = n]
C == [n \in ElNames |->
        LET e == ElOf(n) IN
        [by |-> e.by, key |-> e.key, msg |-> e.msg, val |-> e.val,
         sig |-> [by |-> <<e.sigk, e.sigt>>, over |-> e.sigover], tweak |-> e.tweak]]
Obs(x) == {T.res[i] : i \in {j \in 1..Len(T.res) : T.res[j].target = x}}

TInit == /\ tid \in 1..Len(Traces) /\ l = 0 /\ bad = ""

\* the load outcome
Load == /\ bad = "" /\ l = 0
        /\ bad' = IF T.outcome = "hang" THEN "Terminates"
                  ELSE IF T.outcome = "error" /\ Loadable(C, T.targets, T.spell) THEN "LoadsWellFormedCertificate"
                  ELSE ""
        /\ l' = 1 /\ UNCHANGED tid

\* one target of a loaded certificate
\* (a file with a refused spelling has no defined bytes: if it loads all the same, nothing is judged here)
Target == /\ bad = "" /\ l >= 1 /\ l <= Len(T.targets) /\ T.outcome = "loaded" /\ T.spell \in SpellAccepted
          /\ LET x == T.targets[l] IN
             bad' = IF Obs(x) = {} THEN "VerdictForEveryTarget"
                    ELSE LET js == {JudgeTarget(C, T.rootkey, x, o) : o \in Obs(x)} \ {""} IN
                         IF js = {} THEN "" ELSE CHOOSE j \in js : TRUE
          /\ l' = l + 1 /\ UNCHANGED tid

Last == IF T.outcome = "loaded" /\ T.spell \in SpellAccepted THEN Len(T.targets) + 1 ELSE 1
TNext == Load \/ Target
TSpec == TInit /\ [][TNext]_tvars

Monitor == /\ (bad # "") => Verdict(T.id, FALSE, bad, l - 1)
           /\ (bad = "" /\ l = Last) => Verdict(T.id, TRUE, "", l - 1)
=============================================================================
