------------------------- MODULE SignExchangeProps -------------------------
(***************************************************************************)
(* C01 on observables.  Everything is byte sequences (Seq(0..255)).        *)
(*   exp     what the device must end up holding, per part, computed by    *)
(*           the harness's independent encoders from the structure the     *)
(*           request was generated from:                                   *)
(*             path : key path (count + 5 x LE32) ++ input index LE32      *)
(*                    (authorised) or ++ the 32-byte hash (unauthorised)   *)
(*             btc  : LE32(7 + |tx'|) ++ mode ++ LE16(|extra|) ++ tx' ++   *)
(*                    extra, tx' = the transaction with every non-final    *)
(*                    script operation blanked, extra = varint(|ws|) ++ ws *)
(*                    ++ LE64(outpoint value) for segwit, empty for legacy *)
(*             rcpt : the receipt;  mp : count ++ (len_i ++ node_i)*       *)
(*   got     what the device reassembled, per part                         *)
(*   dev     how the device ended the exchange:                            *)
(*             "success" | "failure" (status word / unexpected opcode) |   *)
(*             "abandoned" (the host stopped sending)                      *)
(*   sigok   the signature the device returned is well-formed DER          *)
(*   rexp, sexp   r and s of that signature (harness's own DER split)      *)
(*   ok      the reply is successful (errorcode 0);  r, s: reply fields    *)
(*   after   exchanges the host issued after the device's failure answer   *)
(*   coop    the device was cooperative: it kept asking until it held      *)
(*           every part completely, never faulted, and then reported       *)
(*           success with a well-formed signature if it got that far       *)
(***************************************************************************)
EXTENDS Naturals, Sequences, SequencesExt, TLC

Parts(auth) == IF auth THEN <<"path", "btc", "rcpt", "mp">> ELSE <<"path">>
PartSet(auth) == IF auth THEN {"path", "btc", "rcpt", "mp"} ELSE {"path"}

PrefixP(t)   == \A p \in PartSet(t.auth) : IsPrefix(t.got[p], t.exp[p])
CompleteP(t) == \A p \in PartSet(t.auth) : t.got[p] = t.exp[p]

Clauses(t) == <<
    \* nothing added, dropped, reordered or altered on the way to the device
    <<"DeviceGotForeignBytes", PrefixP(t)>>,
    \* success is reported exactly when the device consumed everything, said success, with a usable signature
    <<"SuccessWithoutCompleteData", t.ok => CompleteP(t)>>,
    <<"SuccessWithoutDeviceSuccess", t.ok => (t.dev = "success" /\ t.sigok)>>,
    <<"FailureDespiteDeviceSuccess", (t.dev = "success" /\ t.sigok /\ CompleteP(t)) => t.ok>>,
    <<"WrongSignatureInReply", t.ok => (t.r = t.rexp /\ t.s = t.sexp)>>,
    <<"ExchangeContinuedAfterFailure", (t.dev = "failure") => t.after = 0>>,
    \* a well-formed request against a cooperative device must go through
    <<"CooperativeDeviceNotServed", t.coop => t.ok>> >>

RECURSIVE FirstFailX(_)
FirstFailX(cs) == IF cs = <<>> THEN ""
                  ELSE IF ~Head(cs)[2] THEN Head(cs)[1] ELSE FirstFailX(Tail(cs))
=============================================================================
