---------------------------- MODULE BlockExchange ----------------------------
(***************************************************************************)
(* Env || Sys model of advanceBlockchain / updateAncestorBlock:            *)
(* host = _do_block_operation / _send_block_header / _send_data_in_chunks  *)
(* (expect_full_data = False); device = firmware-like policy: chunk sizes, *)
(* stops asking for a header once satisfied, asks or not for brothers,     *)
(* consumes announced brothers entirely, ends after any block with partial *)
(* or total success, or fails (status word / unexpected opcode) anywhere.  *)
(* Host message and device answer are one action; `script` records the    *)
(* device's answers for replay.  Headers are sequences of abstract units.  *)
(***************************************************************************)
EXTENDS BlockExchangeProps
CONSTANTS BlockLens,   \* <<l1, l2, ...>> header lengths in units
          BroLens,     \* <<<<..>>, <<..>>>> brother header lengths per block
          MaxReq, Advance

NB == Len(BlockLens)
Hdr(i) == [k \in 1..BlockLens[i] |-> i * 100 + k]
Bro(i, j) == [k \in 1..BroLens[i][j] |-> i * 1000 + j * 100 + k]
Meta(i) == <<90, i>>
BMeta(i, j) == <<91, i, j>>

VARIABLES pc, bi, bj, off, req, res, dOp, dInit, dBlocks, script
vars == <<pc, bi, bj, off, req, res, dOp, dInit, dBlocks, script>>
\* dBlocks: Seq([meta, data, asked, brocount, bros : Seq([meta, data])])

Cur == IF bj = 0 THEN Hdr(bi) ELSE Bro(bi, bj)
Min2(a, b) == IF a < b THEN a ELSE b
Chunk == SubSeq(Cur, off + 1, Min2(Len(Cur), off + req))
Say(x) == script' = Append(script, x)
NBros(i) == IF Advance THEN Len(BroLens[i]) ELSE 0

Init == /\ pc = "init" /\ bi = 0 /\ bj = 0 /\ off = 0 /\ req = 0 /\ res = "none" /\ dOp = "none"
        /\ dInit = <<>> /\ dBlocks = <<>> /\ script = <<>>

Fail == /\ res' = "fail" /\ pc' = "done" /\ dOp' = "failure"
        /\ \E f \in {"sw", "op"} : Say(<<f>>)
        /\ UNCHANGED <<bi, bj, off, req>>

SendInit == /\ pc = "init" /\ dInit' = <<0, 0, 0, NB>>
            /\ \/ /\ dOp' = "hmeta" /\ pc' = "hmeta" /\ bi' = 1 /\ Say(<<"hmeta">>)
                  /\ UNCHANGED <<bj, off, req, res>>
               \/ Fail
            /\ UNCHANGED dBlocks

SendHMeta == /\ pc = "hmeta" /\ dOp = "hmeta"
             /\ dBlocks' = Append(dBlocks, [meta |-> Meta(bi), data |-> <<>>, asked |-> FALSE,
                                            brocount |-> <<>>, bros |-> <<>>])
             /\ \/ /\ \E n \in 1..MaxReq : req' = n /\ Say(<<"chunk", n>>)
                   /\ off' = 0 /\ bj' = 0 /\ dOp' = "hchunk" /\ pc' = "hchunk" /\ UNCHANGED <<bi, res>>
                \/ Fail
             /\ UNCHANGED dInit

\* what the device may say at the end of a block
EndOfBlock ==
    \/ /\ bi < NB /\ pc' = "hmeta" /\ dOp' = "hmeta" /\ bi' = bi + 1 /\ bj' = 0 /\ Say(<<"hmeta">>)
       /\ UNCHANGED <<res, req, off>>
    \/ /\ Advance /\ pc' = "done" /\ dOp' = "partial" /\ res' = "partial" /\ Say(<<"partial">>)
       /\ UNCHANGED <<bi, bj, req, off>>
    \/ /\ pc' = "done" /\ dOp' = "total" /\ res' = "total" /\ Say(<<"total">>)
       /\ UNCHANGED <<bi, bj, req, off>>

SendHChunk ==
    /\ pc = "hchunk" /\ dOp = "hchunk"
    /\ dBlocks' = [dBlocks EXCEPT ![bi].data = @ \o Chunk]
    /\ \/ /\ off + Len(Chunk) < Len(Cur)                  \* wants more of this header
          /\ off' = off + Len(Chunk)
          /\ \E n \in 1..MaxReq : req' = n /\ Say(<<"chunk", n>>)
          /\ UNCHANGED <<pc, dOp, res, bi, bj>>
       \/ /\ Advance /\ dOp' = "blmeta" /\ pc' = "blmeta" /\ Say(<<"bros">>)    \* satisfied: asks for brothers
          /\ off' = off + Len(Chunk) /\ UNCHANGED <<req, res, bi, bj>>
       \/ EndOfBlock                                       \* satisfied, no brothers
       \/ Fail
    /\ UNCHANGED dInit

SendBroListMeta ==
    /\ pc = "blmeta" /\ dOp = "blmeta"
    /\ dBlocks' = [dBlocks EXCEPT ![bi].asked = TRUE, ![bi].brocount = <<NBros(bi)>>]
    /\ IF NBros(bi) > 0
       THEN \/ /\ dOp' = "bmeta" /\ pc' = "bmeta" /\ bj' = 1 /\ Say(<<"bmeta">>) /\ UNCHANGED <<bi, res, off, req>>
            \/ Fail
       ELSE EndOfBlock \/ Fail
    /\ UNCHANGED dInit

SendBMeta == /\ pc = "bmeta" /\ dOp = "bmeta"
             /\ dBlocks' = [dBlocks EXCEPT ![bi].bros = Append(@, [meta |-> BMeta(bi, bj), data |-> <<>>])]
             /\ \/ /\ \E n \in 1..MaxReq : req' = n /\ Say(<<"chunk", n>>)
                   /\ off' = 0 /\ dOp' = "bchunk" /\ pc' = "bchunk" /\ UNCHANGED <<bi, bj, res>>
                \/ Fail
             /\ UNCHANGED dInit

SendBChunk ==
    /\ pc = "bchunk" /\ dOp = "bchunk"
    /\ dBlocks' = [dBlocks EXCEPT ![bi].bros[bj].data = @ \o Chunk]
    /\ \/ /\ off + Len(Chunk) < Len(Cur)                  \* brothers are consumed entirely
          /\ off' = off + Len(Chunk)
          /\ \E n \in 1..MaxReq : req' = n /\ Say(<<"chunk", n>>)
          /\ UNCHANGED <<pc, dOp, res, bi, bj>>
       \/ /\ off + Len(Chunk) = Len(Cur)
          /\ IF bj < NBros(bi)
             THEN dOp' = "bmeta" /\ pc' = "bmeta" /\ bj' = bj + 1 /\ Say(<<"bmeta">>) /\ UNCHANGED <<bi, res, req, off>>
             ELSE EndOfBlock
       \/ Fail
    /\ UNCHANGED dInit

Next == SendInit \/ SendHMeta \/ SendHChunk \/ SendBroListMeta \/ SendBMeta \/ SendBChunk
Spec == Init /\ [][Next]_vars

Done == pc = "done"
T == [advance |-> Advance, count |-> <<0, 0, 0, NB>>,
      blocks |-> [i \in 1..NB |-> [hdr |-> Hdr(i), meta |-> Meta(i),
                                    bros |-> [j \in 1..NBros(i) |-> [hdr |-> Bro(i, j), meta |-> BMeta(i, j)]]]],
      got |-> [init |-> dInit, blocks |-> dBlocks],
      dev |-> IF res = "total" THEN "total" ELSE IF res = "partial" THEN "partial"
              ELSE IF res = "fail" THEN "failure" ELSE "abandoned",
      code |-> IF res = "total" THEN 0 ELSE IF res = "partial" THEN 1 ELSE 2,   \* 2 stands for any error code
      hascode |-> TRUE, coop |-> res \in {"total", "partial"}, lost |-> FALSE, badblk |-> 0]
\* the relay clauses hold at every moment; the reply clauses at the end
Relay == LET t == T IN
         /\ (pc # "init" => t.got.init = t.count)
         /\ \A j \in 1..NG(t) : BlockOk(t, j) /\ BrosOk(t, j)
FinalVerdict == Done => FirstFailB(Clauses(T)) = ""
NeverTotal == res # "total"
NeverPartial == res # "partial"
View == <<pc, bi, bj, off, req, res, dOp, dInit, dBlocks>>
=============================================================================
