------------------------------ MODULE TraceLib ------------------------------
(* Shared plumbing of every trace specification: the batch of recorded       *)
(* executions is a JSON array read from the file named by TRACE_FILE; every  *)
(* trace spec prints exactly one total verdict per terminal branch.          *)
EXTENDS Naturals, Sequences, TLC, Json, IOUtils

Traces == JsonDeserialize(IOEnv.TRACE_FILE)

\* always TRUE; prints `"VERDICT {json}"`
Verdict(id, ok, clause, at) ==
    PrintT("VERDICT " \o ToJson([id |-> id, ok |-> ok, clause |-> clause, at |-> at]))

\* first failing clause name of a sequence of <<name, bool>> pairs, "" if none
RECURSIVE FirstFail(_)
FirstFail(cs) == IF cs = <<>> THEN ""
                 ELSE IF ~Head(cs)[2] THEN Head(cs)[1] ELSE FirstFail(Tail(cs))

Has(r, f) == f \in DOMAIN r
=============================================================================
