SPECIFICATION Spec
CONSTANTS
  Platforms = {"ledger", "sgx"}
  Framings = {"current", "legacy"}
  PageCounts = {1, 2, 3, 4}
  EnvPages = {1, 2, 99}
  QeAuthSizes = {0, 1, 32, 1000}
  PemCounts = {2, 3}
  MaxUiPages = 4
  EmptyAuthRefused = FALSE
  UdSources = {"hex", "node"}
  RootVias = {"file", "url"}
  Bug = "localtime"
INVARIANT AlteredFails
CHECK_DEADLOCK FALSE
