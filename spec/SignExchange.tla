---------------------------- MODULE SignExchange ----------------------------
(***************************************************************************)
(* Env || Sys model of the authorised / unauthorised sign exchange:        *)
(* host = sign_authorized (path message, then _send_data_in_chunks for the *)
(* BTC payload, the receipt and the merkle proof with expect_full_data) or *)
(* sign_unauthorized; device = an arbitrary chunk-request policy: asks     *)
(* 1..MaxReq units at a time (also past the end), moves to the next part   *)
(* early or on time, reports success with a signature of some class,       *)
(* answers a status word or an unexpected opcode at any step.              *)
(* Parts are sequences of abstract units; Exp is a constant.               *)
(***************************************************************************)
EXTENDS SignExchangeProps
CONSTANTS LBtc, LRcpt, LMp, MaxReq, MaxEmpty, Auth

Seg(tag, n) == [i \in 1..n |-> tag * 100 + i]     \* distinct unit values per part
Exp == [path |-> Seg(1, 2), btc |-> Seg(2, LBtc), rcpt |-> Seg(3, LRcpt), mp |-> Seg(4, LMp)]
NextOf(p) == IF p = "btc" THEN "rcpt" ELSE IF p = "rcpt" THEN "mp" ELSE "success"
SigClasses == {"der30", "der31", "trailing", "malformed"}

VARIABLES hPart, hOff, hReq, hRes, dGot, dSaid, turn, empties, sig, after, script
vars == <<hPart, hOff, hReq, hRes, dGot, dSaid, turn, empties, sig, after, script>>

Init == /\ hPart = "path" /\ hOff = 0 /\ hReq = 0 /\ hRes = "none"
        /\ dGot = [p \in {"path", "btc", "rcpt", "mp"} |-> <<>>]
        /\ dSaid = "none" /\ turn = "host" /\ empties = 0 /\ sig = "none" /\ after = 0 /\ script = <<>>

Min2(a, b) == IF a < b THEN a ELSE b
ChunkOf(p) == SubSeq(Exp[p], hOff + 1, Min2(Len(Exp[p]), hOff + hReq))
Say(x) == script' = Append(script, x)

HostSendPath == /\ turn = "host" /\ hPart = "path" /\ hRes = "none"
                /\ dGot' = [dGot EXCEPT !["path"] = Exp["path"]]
                /\ turn' = "dev" /\ UNCHANGED <<hPart, hOff, hReq, hRes, dSaid, empties, sig, after, script>>

\* the device answers the path message
DevAfterPath ==
    /\ turn = "dev" /\ hPart = "path"
    /\ IF Auth
       THEN \/ \E n \in 1..MaxReq : /\ hPart' = "btc" /\ hReq' = n /\ hOff' = 0 /\ dSaid' = "ask"
                                    /\ Say(<<"next", "btc", n>>) /\ UNCHANGED <<hRes, sig>>
            \/ /\ hRes' = "fail" /\ dSaid' = "failure" /\ Say(<<"sw">>) /\ UNCHANGED <<hPart, hReq, hOff, sig>>
            \/ /\ hRes' = "fail" /\ dSaid' = "failure" /\ Say(<<"op">>) /\ UNCHANGED <<hPart, hReq, hOff, sig>>
       ELSE \/ \E s \in SigClasses :
                 /\ sig' = s /\ dSaid' = "success" /\ Say(<<"success", s>>)
                 /\ hRes' = IF s = "malformed" THEN "fail" ELSE "ok"
                 /\ UNCHANGED <<hPart, hReq, hOff>>
            \/ /\ hRes' = "fail" /\ dSaid' = "failure" /\ Say(<<"sw">>) /\ UNCHANGED <<hPart, hReq, hOff, sig>>
            \/ /\ hRes' = "fail" /\ dSaid' = "failure" /\ Say(<<"op">>) /\ UNCHANGED <<hPart, hReq, hOff, sig>>
    /\ turn' = "host" /\ UNCHANGED <<dGot, empties, after>>

HostSendChunk == /\ turn = "host" /\ hPart \in {"btc", "rcpt", "mp"} /\ hRes = "none"
                 /\ dGot' = [dGot EXCEPT ![hPart] = @ \o ChunkOf(hPart)]
                 /\ hOff' = hOff + Len(ChunkOf(hPart))
                 /\ empties' = IF Len(ChunkOf(hPart)) = 0 THEN empties + 1 ELSE empties
                 /\ turn' = "dev" /\ UNCHANGED <<hPart, hReq, hRes, dSaid, sig, after, script>>

DevAnswerChunk ==
    /\ turn = "dev" /\ hPart \in {"btc", "rcpt", "mp"}
    /\ \/ \E n \in 1..MaxReq :                       \* same part, more (possibly past the end)
             /\ empties < MaxEmpty \/ hOff < Len(Exp[hPart])
             /\ hReq' = n /\ dSaid' = "more" /\ Say(<<"more", n>>) /\ UNCHANGED <<hPart, hOff, hRes, sig>>
       \/ /\ NextOf(hPart) # "success"               \* next part, early or on time
          /\ \E n \in 1..MaxReq :
             /\ Say(<<"next", NextOf(hPart), n>>)
             /\ IF hOff < Len(Exp[hPart])
                THEN hRes' = "fail" /\ dSaid' = "early" /\ UNCHANGED <<hPart, hOff, hReq, sig>>
                ELSE hPart' = NextOf(hPart) /\ hOff' = 0 /\ hReq' = n /\ dSaid' = "next" /\ UNCHANGED <<hRes, sig>>
       \/ /\ hPart = "mp"                            \* success with a signature
          /\ \E s \in SigClasses :
             /\ sig' = s /\ dSaid' = "success" /\ Say(<<"success", s>>)
             /\ hRes' = IF hOff < Len(Exp[hPart]) THEN "fail" ELSE IF s = "malformed" THEN "fail" ELSE "ok"
             /\ UNCHANGED <<hPart, hOff, hReq>>
       \/ /\ hRes' = "fail" /\ dSaid' = "failure" /\ Say(<<"sw">>) /\ UNCHANGED <<hPart, hOff, hReq, sig>>
       \/ /\ hRes' = "fail" /\ dSaid' = "failure" /\ Say(<<"op">>) /\ UNCHANGED <<hPart, hOff, hReq, sig>>
    /\ turn' = "host" /\ UNCHANGED <<dGot, empties, after>>

Next == HostSendPath \/ DevAfterPath \/ HostSendChunk \/ DevAnswerChunk
Spec == Init /\ [][Next]_vars

Done == hRes # "none"
T == [auth |-> Auth, exp |-> Exp, got |-> dGot,
      dev |-> IF dSaid = "success" THEN "success" ELSE IF dSaid \in {"failure"} THEN "failure" ELSE "abandoned",
      sigok |-> sig \in {"der30", "der31", "trailing"}, ok |-> hRes = "ok",
      r |-> <<>>, s |-> <<>>, rexp |-> <<>>, sexp |-> <<>>, after |-> after,
      coop |-> Done /\ dSaid = "success" /\ sig \in {"der30", "der31", "trailing"}
               /\ \A p \in PartSet(Auth) : dGot[p] = Exp[p]]
\* at every moment nothing foreign has reached the device; at the end the full verdict holds
DevPrefix  == PrefixP(T)
FinalVerdict == Done => FirstFailX(Clauses(T)) = ""
NeverOk == hRes # "ok"          \* negative configuration
View == <<hPart, hOff, hReq, hRes, dGot, dSaid, turn, empties, sig, after>>
=============================================================================
