---------------------------- MODULE GenCertLoad ----------------------------
(* Generation configuration of CertLoad: prints every complete behaviour    *)
(* (the document as far as the loader read it, and the model's outcome).    *)
(* by / ok are total over the items; "?" = never read (left open).          *)
EXTENDS CertLoad, Json
ByAll == [j \in 1..Len(items) |-> IF j \in DOMAIN iby THEN iby[j] ELSE "?"]
OkAll == [j \in 1..Len(items) |-> IF j \in DOMAIN linkok THEN (IF linkok[j] THEN "t" ELSE "f") ELSE "?"]
EmitB == Done => PrintT("B " \o ToJson([flavour |-> flavour, ver |-> ver, tgtc |-> tgtc, elsc |-> elsc,
                                          targets |-> targets, items |-> items, by |-> ByAll,
                                          ok |-> OkAll, stretch |-> stretch, phase |-> phase, res1 |-> res1]))
=============================================================================
