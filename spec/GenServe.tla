------------------------------ MODULE GenServe ------------------------------
EXTENDS Serve, Json
EmitB == (pc = "idle" /\ conns = MaxConns) => PrintT("B " \o ToJson(hist))
=============================================================================
