SPECIFICATION Spec
CONSTANTS
  Platforms = {"ledger", "sgx"}
  MaxDev = 2
  MaxFileMut = 1
  Sep = TRUE
  FullExt = 1
  Wildcard = FALSE
INVARIANT ReturnIffOk
INVARIANT PrintedSigned
INVARIANT EmitB
CHECK_DEADLOCK FALSE
