SPECIFICATION Spec
CONSTANTS
  Platforms = {"ledger", "sgx"}
  MaxDev = 2
  MaxFileMut = 1
  Sep = TRUE
  Wildcard = FALSE
INVARIANT ReturnIffOk
INVARIANT PrintedSigned
INVARIANT EmitB
CHECK_DEADLOCK FALSE
