SPECIFICATION Spec
CONSTANTS
  Ops = {"onboard", "unlock", "changepin", "pubkeys"}
  Platforms = {"ledger", "sgx"}
INVARIANT NeverOnboards
INVARIANT NeverUnlocks
INVARIANT NeverChanges
INVARIANT NeverWritesKeys
INVARIANT NeverAnyPin
INVARIANT NeverLinkFault
VIEW View
CHECK_DEADLOCK FALSE
