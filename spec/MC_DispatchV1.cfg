SPECIFICATION Spec
CONSTANTS
  K = 2
  V1 = TRUE
CHECK_DEADLOCK FALSE
INVARIANT Within
