------------------------------ MODULE AdminProps ------------------------------
(***************************************************************************)
(* C18 - admin commands (admin/onboard.py, unlock.py, changepin.py,        *)
(* pubkeys.py) touch seed and PIN only under their preconditions.          *)
(*                                                                         *)
(* One run of one command is a sequence of *events*: every device exchange *)
(* (with the device's ground truth at that moment), every line the         *)
(* operator typed, every draw from the randomness source.  The observable  *)
(* state `obs` is a pure fold (`Observe`) of the events; the properties    *)
(* are stated on `obs`, on the run's inputs `C` (what the operator was     *)
(* going to do, what the device was at the start) and on the outcome only. *)
(* The same definitions judge the model (Admin.tla) and event logs         *)
(* recorded from the real code (TraceAdmin.tla).                           *)
(*                                                                         *)
(* Constants-free: everything here is a definition.                        *)
(***************************************************************************)
EXTENDS Naturals, Sequences, FiniteSets, TLC

(***************************************************************************)
(* PIN policy, written from the property text: exactly 8 alphanumerics,    *)
(* at least one letter.  PINs are sequences of bytes.                      *)
(***************************************************************************)
Digit(b)  == b >= 48 /\ b <= 57
Letter(b) == (b >= 65 /\ b <= 90) \/ (b >= 97 /\ b <= 122)
Alnum(b)  == Digit(b) \/ Letter(b)
AlnumPin(p) == Len(p) > 0 /\ \A k \in 1..Len(p) : Alnum(p[k])
Policy(p) == /\ Len(p) = 8
             /\ \A k \in 1..Len(p) : Alnum(p[k])
             /\ \E k \in 1..Len(p) : Letter(p[k])

\* docs/protocol.md, "key ids"
DocPaths == {"m/44'/0'/0'/0/0", "m/44'/1'/0'/0/0", "m/44'/137'/0'/0/0",
             "m/44'/137'/1'/0/0", "m/44'/1'/1'/0/0", "m/44'/1'/2'/0/0"}

SeedLen == 32
BUF     == 48        \* reassembly buffer for SEND_PIN [i, b] (generous: nothing is truncated)
Unset   == 256       \* "no byte received at this index"

(***************************************************************************)
(* Events.                                                                 *)
(*   cls    get_mode is_onboard echo seed_byte pin_byte wipe sgx_onboard   *)
(*          unlock change_pin exit get_pubkey admin stdin getpass urandom  *)
(*          generated                                                      *)
(*          (anything else: ignored)                                       *)
(*   d_mode, d_onb   device ground truth when the event happened           *)
(*   ans    the answer where it matters (mode name / yes,no / path string  *)
(*          / operator's answer class yes,no,other)                        *)
(*   ok     "t" / "f" / "na": did the device answer positively; "x": the   *)
(*          link failed, the host got no answer                            *)
(*   i, b   index and byte of SEED / SEND_PIN                              *)
(*   data   payload bytes (SGX commands, the randomness drawn)             *)
(***************************************************************************)
Ev(cls, d, ans, ok, i, b, data) ==
    [cls |-> cls, d_mode |-> d.mode, d_onb |-> d.onb, ans |-> ans, ok |-> ok,
     i |-> i, b |-> b, data |-> data]

InitObs == [
    modeq    |-> "na",      \* last answer to GET_MODE
    onbq     |-> "na",      \* last answer to IS_ONBOARD
    echoed   |-> "na",      \* last echo verdict
    yes      |-> FALSE,     \* the operator typed an explicit yes
    no       |-> FALSE,     \* the operator typed no
    draws    |-> {},        \* byte strings drawn from the randomness source in this run
    seedbuf  |-> [k \in 1..SeedLen |-> Unset],
    seedover |-> FALSE,     \* a seed byte beyond index 31 was sent
    seed     |-> <<>>,      \* the seed the device was finally given
    pinbuf   |-> [k \in 1..BUF |-> 0],
    pinhi    |-> 0,         \* 1 + highest index written since the last terminator
    stage    |-> "a",       \* onboard: a = before WIPE, b = after; changepin: a = before UNLOCK
    onbsafe  |-> TRUE, seedok |-> TRUE, unlsafe |-> TRUE, pinpol |-> TRUE,
    destr    |-> 0,         \* SEED / onboarding PIN / WIPE / SGX_ONBOARD exchanges
    wipes    |-> 0, wipe_ok |-> "na",
    unlocks  |-> 0, unlock_ok |-> "na",
    changes  |-> 0, change_ok |-> "na",
    upin     |-> 0,         \* PIN bytes sent on behalf of an unlock
    keys     |-> {},        \* paths for which GET_PUBLIC_KEY was sent
    admin    |-> 0, exits |-> 0,
    pineof   |-> FALSE,     \* a PIN prompt met the end of the operator's input
    nacks    |-> 0,         \* negative / failed device answers (echo excepted)
    linkx    |-> 0]         \* exchanges on which the link failed (no answer reached the host)

(***************************************************************************)
(* Who owns a PIN byte: decided by the command and by how far it got.      *)
(***************************************************************************)
PinOwner(C, o) ==
    IF C.op = "onboard" THEN (IF o.stage = "a" THEN "onboard" ELSE "unlock")
    ELSE IF C.op = "changepin"
         THEN (IF (~C.no_unlock) /\ o.stage = "a" THEN "unlock" ELSE "change")
    ELSE "unlock"

\* onboarding may touch the device: everything asked, answered and true
OnbSafeNow(o, e) == /\ e.d_mode = "boot" /\ e.d_onb = "no"
                    /\ o.modeq = "boot" /\ o.onbq = "no" /\ o.echoed = "t"
                    /\ o.yes /\ ~o.no
\* an unlock PIN may be sent
UnlSafeNow(e) == e.d_mode = "boot" /\ e.d_onb = "yes"

PutPin(buf, i, b) == [k \in 1..BUF |-> IF k = i + 1 THEN b
                                       ELSE IF k = i + 2 THEN 0 ELSE buf[k]]
PinSent(o, from) == IF o.pinhi < from THEN <<>>
                    ELSE [k \in 1..(o.pinhi - from + 1) |-> o.pinbuf[k + from - 1]]
Max2(a, b) == IF a >= b THEN a ELSE b
\* "x": the link failed (time-out, read / write error) - no answer at all
NackOf(e) == IF (e.ok = "f" /\ e.cls # "echo") \/ e.ok = "x" THEN 1 ELSE 0

SeedGood(C, o, s) == /\ Len(s) = SeedLen
                     /\ \A k \in 1..Len(s) : s[k] < 256
                     /\ s \in o.draws
                     /\ s # C.prev_seed
                     /\ ~o.seedover

Observe(C, o0, e) ==
    LET o == [o0 EXCEPT !.nacks = @ + NackOf(e), !.linkx = @ + (IF e.ok = "x" THEN 1 ELSE 0)] IN
    IF e.cls = "get_mode" THEN [o EXCEPT !.modeq = e.ans]
    ELSE IF e.cls = "is_onboard" THEN [o EXCEPT !.onbq = e.ans]
    ELSE IF e.cls = "echo" THEN [o EXCEPT !.echoed = e.ok]
    ELSE IF e.cls = "stdin" THEN
        [o EXCEPT !.yes = @ \/ e.ans = "yes", !.no = @ \/ e.ans = "no"]
    ELSE IF e.cls = "getpass" THEN [o EXCEPT !.pineof = @ \/ e.ok = "f"]
    ELSE IF e.cls = "urandom" THEN [o EXCEPT !.draws = @ \cup {e.data}]
    ELSE IF e.cls = "seed_byte" THEN
        [o EXCEPT !.seedbuf = IF e.i < SeedLen THEN [@ EXCEPT ![e.i + 1] = e.b] ELSE @,
                  !.seedover = @ \/ e.i >= SeedLen,
                  !.destr = @ + 1,
                  !.onbsafe = @ /\ OnbSafeNow(o, e)]
    ELSE IF e.cls = "pin_byte" THEN
        LET who == PinOwner(C, o)
            o1  == [o EXCEPT !.pinbuf = IF e.i + 1 <= BUF THEN PutPin(@, e.i, e.b) ELSE @,
                             !.pinhi = Max2(@, IF e.i + 1 <= BUF THEN e.i + 1 ELSE @)] IN
        IF who = "onboard" THEN [o1 EXCEPT !.destr = @ + 1, !.onbsafe = @ /\ OnbSafeNow(o, e)]
        ELSE IF who = "unlock" THEN [o1 EXCEPT !.upin = @ + 1, !.unlsafe = @ /\ UnlSafeNow(e)]
        ELSE o1
    ELSE IF e.cls = "wipe" THEN
        LET s == o.seedbuf IN
        [o EXCEPT !.wipes = @ + 1, !.wipe_ok = e.ok, !.destr = @ + 1, !.stage = "b",
                  !.onbsafe = @ /\ OnbSafeNow(o, e),
                  !.seedok = @ /\ SeedGood(C, o, s),
                  !.seed = s,
                  !.pinpol = @ /\ (C.any_pin \/ Policy(PinSent(o, 2))),
                  !.pinhi = 0]
    ELSE IF e.cls = "sgx_onboard" THEN
        LET n == Len(e.data)
            s == IF n >= 1 + SeedLen THEN SubSeq(e.data, 2, 1 + SeedLen) ELSE <<>>
            p == IF n >= 2 + SeedLen THEN SubSeq(e.data, 2 + SeedLen, n) ELSE <<>> IN
        [o EXCEPT !.wipes = @ + 1, !.wipe_ok = e.ok, !.destr = @ + 1, !.stage = "b",
                  !.onbsafe = @ /\ OnbSafeNow(o, e),
                  !.seedok = @ /\ SeedGood(C, o, s) /\ n >= 1 /\ e.data[1] = 0,
                  !.seed = s,
                  !.pinpol = @ /\ (C.any_pin \/ Policy(p))]
    ELSE IF e.cls = "unlock" THEN
        [o EXCEPT !.unlocks = @ + 1, !.unlock_ok = e.ok,
                  !.unlsafe = @ /\ UnlSafeNow(e),
                  !.stage = IF C.op = "changepin" THEN "b" ELSE @,
                  !.pinhi = 0]
    ELSE IF e.cls = "change_pin" THEN
        LET p == IF C.plat = "sgx" THEN (IF Len(e.data) >= 1 THEN Tail(e.data) ELSE <<>>)
                 ELSE PinSent(o, 2) IN
        [o EXCEPT !.changes = @ + 1, !.change_ok = e.ok,
                  !.pinpol = @ /\ (C.any_pin \/ Policy(p)),
                  !.pinhi = 0]
    ELSE IF e.cls = "generated" THEN         \* a PIN produced by BasePin.generate_pin()
        [o EXCEPT !.pinpol = @ /\ Policy(e.data)]
    ELSE IF e.cls = "get_pubkey" THEN [o EXCEPT !.keys = @ \cup {e.ans}]
    ELSE IF e.cls = "admin" THEN [o EXCEPT !.admin = @ + 1]
    ELSE IF e.cls = "exit" THEN [o EXCEPT !.exits = @ + 1]
    ELSE o

RECURSIVE ObserveAll(_, _, _)
ObserveAll(C, o, es) == IF es = <<>> THEN o
                        ELSE ObserveAll(C, Observe(C, o, Head(es)), Tail(es))

(***************************************************************************)
(* C18 on observables - safety, re-evaluated after every event.            *)
(***************************************************************************)
\* SEED / onboarding PIN / WIPE / SGX_ONBOARD only to a device in bootloader mode, echoed
\* correctly, not onboarded, after an explicit yes - all asked and answered beforehand
OnboardSafeP(o) == o.onbsafe
\* the seed handed over is 32 bytes, equals a draw recorded in THIS run, differs from the
\* previous run's seed
SeedFreshP(o)   == o.seedok /\ ~o.seedover
\* unlock PINs only to an onboarded device in bootloader mode
UnlockSafeP(o)  == o.unlsafe
\* PINs sent by onboard / changepin are exactly 8 ASCII alphanumerics with at least one ASCII
\* letter unless any-PIN was allowed (generated PINs: always)
PinPolicyP(o)   == o.pinpol
\* ... and so is the PIN the device holds afterwards (ground truth: the device's view), once it
\* has acknowledged a WIPE / SGX_ONBOARD / CHANGE_PIN
PinHeldP(C, o, held) == ((~C.any_pin) /\ (o.wipe_ok = "t" \/ o.change_ok = "t")) => Policy(held)

(***************************************************************************)
(* Carried: when the preconditions hold the operation is carried out.      *)
(* C = [op, plat, any_pin, no_unlock, src, pins, upin, outfile, answers,   *)
(*      d0 : [mode, onb, echo], acc : [wipe, unlock, newpin], pre,         *)
(*      prev_seed]                                                         *)
(* d0.onb = "garbled": the device answers IS_ONBOARD with neither yes nor  *)
(* no - no precondition holds.                                             *)
(* "?" in d0 = the run never looked at that dimension (model only): it is  *)
(* read in favour of the precondition, which only strengthens the check.   *)
(* Where the property text leaves the precondition open (any-PIN allowed   *)
(* and a PIN outside the alphanumerics; onboarding with a PIN option that  *)
(* is not policy compliant) nothing is demanded; nor is anything demanded  *)
(* once the device has answered some exchange negatively (o.nacks > 0:     *)
(* wrong PIN, refused WIPE / CHANGE_PIN) or the link has failed            *)
(* (o.linkx > 0).                                                          *)
(***************************************************************************)
Is(x, v) == x = v \/ x = "?"
SaysYes(a) == \E k \in 1..Len(a) : a[k] = "yes" /\ \A j \in 1..(k - 1) : a[j] = "other"

OkPin(p, any)   == Policy(p) \/ (any /\ AlnumPin(p))
SomeOk(C, any)  == \E k \in 1..Len(C.pins) : OkPin(C.pins[k], any)
\* PIN to be set (onboard: a PIN given as an option is always held to the policy)
OnbPinOK(C)     == IF C.src = "opt" THEN Policy(C.pins[1]) ELSE SomeOk(C, C.any_pin)
NewPinOK(C)     == IF C.src = "opt" THEN OkPin(C.pins[1], C.any_pin) ELSE SomeOk(C, C.any_pin)
\* PIN to unlock with (a prompt takes any alphanumeric PIN)
UnlPinOK(C)     == IF C.src = "opt" THEN OkPin(C.pins[1], C.any_pin) ELSE SomeOk(C, TRUE)
UnlockPre(C)    == Is(C.d0.mode, "boot") /\ Is(C.d0.onb, "yes") /\ Is(C.d0.echo, "t")

\* acc = what the device is going to answer to a well-formed WIPE / UNLOCK / CHANGE_PIN carrying
\* the operator's PIN ("t" accepts, "f" refuses, "?" not known): ground truth of the environment.
\* Where it accepts, a refusal actually observed means the command did not hand over what the
\* operator supplied.  Fits: the device holds at most 8 PIN characters (firmware MAX_PIN_LENGTH).
Fits(C) == \A k \in 1..Len(C.pins) : Len(C.pins[k]) <= 8

\* C.pre = what already sits at the output path(s) when the command comes to write: "absent", left
\* by an earlier run against the "same" device, against an"other" device, the other device's files
\* with an "extra" entry / with "fewer" entries, "notjson" (garbage), "dir" (a directory at the
\* output path), "dirjson" (a directory where the JSON goes).  Only a directory makes the path
\* unwritable; everything else is simply replaced.
Writable(C) == C.pre \notin {"dir", "dirjson"}
Writes(C)   == C.outfile /\ (C.op = "pubkeys" \/ (C.op = "onboard" /\ C.plat = "ledger"))

\* the link never failed and the operator's input did not end at a PIN prompt
Intact(o) == o.linkx = 0 /\ ~o.pineof

CarriedOnboard(C, o, out) ==
    LET pre == /\ Is(C.d0.mode, "boot") /\ Is(C.d0.onb, "no") /\ Is(C.d0.echo, "t")
               /\ SaysYes(C.answers) /\ OnbPinOK(C)
               /\ (C.plat = "ledger" => (C.outfile /\ Writable(C))) IN
    pre => /\ (o.nacks = 0) => (o.wipes = 1 /\ o.seed # <<>> /\ out = "ok")
           /\ (C.acc.wipe = "t" /\ Fits(C) /\ Intact(o))
                 => (o.wipes = 1 /\ o.wipe_ok = "t" /\ o.nacks = 0 /\ out = "ok")

CarriedUnlock(C, o, out) ==
    (UnlockPre(C) /\ UnlPinOK(C))
        => /\ (o.nacks = 0) => (o.unlocks = 1 /\ out = "ok")
           /\ (C.acc.unlock = "t" /\ Fits(C) /\ Intact(o))
                 => (o.unlocks = 1 /\ o.unlock_ok = "t" /\ out = "ok")

CarriedChangepin(C, o, out) ==
    IF C.no_unlock
    THEN (NewPinOK(C) /\ Is(C.d0.onb, "yes")
            /\ Is(C.d0.mode, IF C.plat = "ledger" THEN "boot" ELSE "signer"))
            => /\ (o.nacks = 0) => (o.changes = 1 /\ out = "ok")
               /\ (C.acc.newpin = "t" /\ Fits(C) /\ Intact(o))
                     => (o.changes = 1 /\ o.change_ok = "t" /\ out = "ok")
    ELSE (NewPinOK(C) /\ UnlockPre(C) /\ Policy(C.upin))
            => /\ (o.nacks = 0) => (o.unlocks = 1 /\ o.changes = 1 /\ out = "ok")
               /\ (C.acc.unlock = "t" /\ Intact(o)) => (o.unlocks = 1 /\ o.unlock_ok = "t")
               /\ (C.acc.unlock = "t" /\ C.acc.newpin = "t" /\ Fits(C) /\ Intact(o))
                     => (o.changes = 1 /\ o.change_ok = "t" /\ out = "ok")

CarriedPubkeys(C, o, out) ==
    IF C.no_unlock
    THEN (Is(C.d0.mode, "signer") /\ o.nacks = 0)
            => (DocPaths \subseteq o.keys /\ ((Writes(C) => Writable(C)) => out = "ok"))
    ELSE (UnlockPre(C) /\ UnlPinOK(C))
            => /\ (o.nacks = 0) => (o.unlocks = 1)
               /\ (C.acc.unlock = "t" /\ Fits(C) /\ Intact(o)) => (o.unlocks = 1 /\ o.unlock_ok = "t")
               /\ (o.nacks = 0 /\ o.modeq = "signer")
                     => (DocPaths \subseteq o.keys /\ ((Writes(C) => Writable(C)) => out = "ok"))

CarriedP(C, o, out) ==
    IF C.op = "onboard" THEN CarriedOnboard(C, o, out)
    ELSE IF C.op = "unlock" THEN CarriedUnlock(C, o, out)
    ELSE IF C.op = "changepin" THEN CarriedChangepin(C, o, out)
    ELSE IF C.op = "pubkeys" THEN CarriedPubkeys(C, o, out)
    ELSE TRUE        \* "genpin": PINs drawn from BasePin.generate_pin(), judged by PinPolicy only

(***************************************************************************)
(* PubkeysWritten.  files = [txt, json : Seq(<<path, key>>)] as read back  *)
(* from disk; expect = Seq([path, c, u]): the device's keys (ground truth) *)
(* compressed / uncompressed by the harness' own encoder.  Exactly the     *)
(* device's CURRENT keys for the six documented paths and nothing else -   *)
(* whatever sat at the output paths before (C.pre).  WriteError: a run     *)
(* that cannot write its output reports an error.                          *)
(***************************************************************************)
Range(s) == {s[k] : k \in 1..Len(s)}
PubkeysWrittenP(C, out, files, expect) ==
    (C.op = "pubkeys" /\ out = "ok" /\ C.outfile) =>
        /\ {x.path : x \in Range(expect)} = DocPaths
        /\ Len(files.txt) = Cardinality(DocPaths)
        /\ Range(files.txt) = {<<x.path, x.c>> : x \in Range(expect)}
        /\ Len(files.json) = Cardinality(DocPaths)
        /\ Range(files.json) = {<<x.path, x.u>> : x \in Range(expect)}

\* an operation that cannot get the PIN it asks for (end of input at the prompt) reports an error
InputErrorP(o, out) == o.pineof => out = "err"

WriteErrorP(C, out) == (Writes(C) /\ ~Writable(C)) => out # "ok"

\* what TraceAdmin re-evaluates after every event
StepClauses(o) == <<
    <<"OnboardSafe", OnboardSafeP(o)>>,
    <<"SeedFresh", SeedFreshP(o)>>,
    <<"UnlockSafe", UnlockSafeP(o)>>,
    <<"PinPolicy", PinPolicyP(o)>> >>
=============================================================================
