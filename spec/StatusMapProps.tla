-------------------------- MODULE StatusMapProps --------------------------
(***************************************************************************)
(* C04: which result codes a client may receive for a device outcome at a  *)
(* given step of a command, and when the manager may stop.  The cause      *)
(* table is written from the firmware's error enums (powhsm/src/auth.h,    *)
(* bc_err.h, err.h, heartbeat.h), restricted to what each step kind can    *)
(* throw, and from docs/protocol.md's code lists — not from the            *)
(* middleware's mapping tables (DESIGN.md Appendix C).                     *)
(*                                                                         *)
(* A cell: cmd, step (kind of exchange), kind of outcome, sw (for "sw").   *)
(*   kind: none      device completed the command successfully             *)
(*         partial   device reported partial success (advanceBlockchain)   *)
(*         badanswer device reported success with a malformed answer       *)
(*         sw        status word `sw` at that step                         *)
(*         timeout / write / read  transport faults                        *)
(*         wrongop   unexpected opcode in a 0x9000 answer                  *)
(* v1: the legacy protocol (every error is -2).                            *)
(***************************************************************************)
EXTENDS Integers, Sequences, TLC

Generic == {-901, -902, -903, -904, -905, -906}
InDeviceRange(sw) == (sw >= 27040 /\ sw <= 27647) \/ sw = 27904      \* 0x69A0..0x6BFF, 0x6D00
\* status words the HID transport hands to the caller as ordinary answers
PassThrough(sw) == sw = 36864 \/ (sw >= 24832 /\ sw <= 25087) \/ (sw >= 27648 /\ sw <= 27903)

DocErrors(cmd) ==
    CASE cmd \in {"sign_hash", "sign_legacy", "sign_segwit"} -> {-101, -102, -103}
      [] cmd = "getPubKey"            -> {-103}
      [] cmd = "advanceBlockchain"    -> {-201, -202, -204, -205}
      [] cmd = "updateAncestorBlock"  -> {-201, -203, -204}
      [] cmd \in {"signerHeartbeat", "uiHeartbeat"} -> {-301}
      [] OTHER -> {}
Successes(cmd) == IF cmd = "advanceBlockchain" THEN {0, 1} ELSE {0}

\* ---- named causes: the codes that very cause must yield ({} = no documented cause at that step)
SignNamed(step, sw) ==
    CASE step = "path"    /\ sw = 27279 -> {-103}                               \* 6A8F invalid path
      [] step = "path"    /\ sw \in {27271, 27280, 27281} -> {-103, -102}        \* 6A87 6A90 6A91
      [] step = "btc"     /\ sw \in {27271, 27272, 27277, 27278, 27287, 27288} -> {-102}
      [] step = "receipt" /\ sw \in {27271, 27274, 27275} -> {-101}              \* 6A87 6A8A 6A8B
      [] step = "merkle"  /\ sw \in {27271, 27282, 27284, 27285, 27286} -> {-101}
      [] OTHER -> {}
BlockInvalid == {27528, 27529, 27530, 27531, 27533, 27534, 27535, 27536, 27537, 27543, 27544, 27545}
      \* 6B88 6B89 6B8A 6B8B 6B8D 6B8E 6B8F 6B90 6B91 6B97 6B98 6B99
PowInvalid   == {27540, 27541, 27542, 27549}       \* 6B94 6B95 6B96 6B9D
BrotherErr   == {27551, 27552, 27553}              \* 6B9F 6BA0 6BA1
AdvanceNamed(step, sw) ==
    CASE step = "chunk"    /\ sw = 27546 -> {-201}                                \* 6B9A
      [] step = "chunk"    /\ sw \in PowInvalid -> {-202}
      [] step = "chunk"    /\ sw = 27538 -> {-202, -204}                          \* 6B92
      [] step = "chunk"    /\ sw \in BlockInvalid -> {-204}
      [] step = "brolist"  /\ sw = 27550 -> {-205}                                \* 6B9E
      [] step = "brochunk" /\ sw \in BrotherErr -> {-205}
      [] step = "brochunk" /\ sw \in BlockInvalid -> {-204, -205}
      [] step = "brochunk" /\ sw \in PowInvalid \cup {27538} -> {-202, -204, -205}
      [] OTHER -> {}
AncestorInvalid == {27528, 27529, 27530, 27531, 27532, 27533, 27536, 27545}
      \* 6B88 6B89 6B8A 6B8B 6B8C 6B8D 6B90 6B99
AncestorNamed(step, sw) ==
    CASE step = "chunk" /\ sw = 27546 -> {-201}
      [] step = "chunk" /\ sw = 27548 -> {-203}                                   \* 6B9C
      [] step = "chunk" /\ sw \in AncestorInvalid -> {-204}
      [] OTHER -> {}
Named(cmd, step, sw) ==
    CASE cmd \in {"sign_legacy", "sign_segwit"} -> SignNamed(step, sw)
      [] cmd = "sign_hash" /\ step = "path" /\ sw = 27279 -> {-103}
      [] cmd = "sign_hash" /\ step = "path" /\ sw \in {27271, 27280, 27281} -> {-103, -102}
      [] cmd = "getPubKey" /\ sw \in {27271, 27279} -> {-103}
      [] cmd = "advanceBlockchain"   -> AdvanceNamed(step, sw)
      [] cmd = "updateAncestorBlock" -> AncestorNamed(step, sw)
      [] OTHER -> {}

IsFailure(kind, sw) == kind \in {"badanswer", "timeout", "write", "read", "wrongop"}
                       \/ (kind = "sw" /\ ~PassThrough(sw))

AllowedV5(cmd, step, kind, sw) ==
    IF kind = "none" THEN {0}
    ELSE IF kind = "partial" THEN {1}
    ELSE IF kind = "sw" /\ PassThrough(sw) THEN Successes(cmd) \cup DocErrors(cmd) \cup Generic
    ELSE IF kind = "sw" /\ InDeviceRange(sw) /\ Named(cmd, step, sw) # {} THEN Named(cmd, step, sw)
    ELSE DocErrors(cmd) \cup Generic

Allowed(v1, cmd, step, kind, sw) ==
    IF ~v1 THEN AllowedV5(cmd, step, kind, sw)
    ELSE IF kind = "none" THEN {0}
    ELSE IF kind = "sw" /\ PassThrough(sw) THEN {0, -2}
    ELSE {-2}

\* the manager must go on serving after: any status in the device's own range, time-outs, link faults
MustKeepRunning(kind, sw) == \/ kind \in {"none", "partial", "timeout", "write", "read"}
                             \/ (kind = "sw" /\ (InDeviceRange(sw) \/ PassThrough(sw)))

Clauses(c) == <<
    \* a malformed success answer is outside the property's quantifier: only "no success code" is demanded
    <<"ReplyHasNoErrorCode", (c.kind # "badanswer") => c.hascode>>,
    <<"CodeNotAllowed", c.hascode => c.code \in Allowed(c.v1, c.cmd, c.step, c.kind, c.sw)>>,
    <<"SuccessCodeOnFailure", (c.hascode /\ IsFailure(c.kind, c.sw)) => c.code \notin {0, 1}>>,
    <<"ManagerStopped", MustKeepRunning(c.kind, c.sw) => ~c.shutdown>> >>

RECURSIVE FirstFailS(_)
FirstFailS(cs) == IF cs = <<>> THEN ""
                  ELSE IF ~Head(cs)[2] THEN Head(cs)[1] ELSE FirstFailS(Tail(cs))
=============================================================================
