------------------------------- MODULE Admin -------------------------------
(***************************************************************************)
(* Env (device: mode x onboarded x echo x platform, answers chosen lazily; *)
(* operator: PIN class, PIN source, any_pin, no_unlock, answers, output    *)
(* file) || Sys (do_onboard / do_unlock / do_changepin / do_get_pubkeys as *)
(* state machines, one action per APDU class / operator interaction).      *)
(* Observables and properties come from AdminProps (shared with            *)
(* TraceAdmin).                                                            *)
(***************************************************************************)
EXTENDS AdminProps

CONSTANTS Ops,          \* subset of {"onboard", "unlock", "changepin", "pubkeys"}
          Platforms     \* subset of {"ledger", "sgx"}

Modes      == {"boot", "signer", "uihb", "unknown", "other"}
\* PIN *content* classes (an environment choice, made when the command first looks at the PIN).
\* The harness concretises every class with a list of boundary-first members
\* (harness/admin_ops.py PIN_MEMBERS); every member is run in the single-deviation behaviours.
\*   ok      compliant: mixed / upper only / lower only / a single letter first or last
\*   digits  8 digits, no letter
\*   len7, len9   alphanumeric with a letter, one character short / long
\*   ascii   8 bytes, one of them ASCII but not alphanumeric (punctuation, space, NUL, newline;
\*           inside or at either end)
\*   hi8     non-ASCII text whose UTF-8 encoding is exactly 8 bytes
\*   hiwide  8 characters, more than 8 bytes
\*   noise   a PIN wrapped in what terminals / pipes add: trailing CR, LF, CRLF, blank, tab, NUL,
\*           leading blank, BOM / zero-width characters in front (around compliant and other PINs)
PinClasses == {"ok", "digits", "len7", "len9", "ascii", "hi8", "hiwide", "noise"}

\* one concrete representative per class (the predicates work on bytes)
PinOf(c) == IF c = "digits" THEN <<49, 50, 51, 52, 53, 54, 55, 56>>             \* 12345678
            ELSE IF c = "len7"   THEN <<97, 98, 99, 49, 50, 51, 52>>            \* abc1234
            ELSE IF c = "len9"   THEN <<97, 98, 99, 100, 49, 50, 51, 52, 53>>   \* abcd12345
            ELSE IF c = "ascii"  THEN <<97, 98, 99, 33, 49, 50, 51, 52>>        \* abc!1234
            ELSE IF c = "hi8"    THEN <<90, 195, 188, 114, 105, 99, 104, 49>>   \* Zu"rich1 (UTF-8)
            ELSE IF c = "noise"  THEN <<97, 98, 99, 100, 49, 50, 51, 52, 13>>  \* abcd1234 CR
            ELSE IF c = "hiwide" THEN <<97, 98, 99, 100, 101, 102, 103, 195, 169>>  \* abcdefge'
            ELSE <<97, 98, 99, 100, 49, 50, 51, 52>>       \* ok (and "?": never looked at): abcd1234
UPin    == <<49, 50, 51, 52, 53, 54, 55, 97>>          \* changepin's current PIN: 1234567a
SeedRep == [k \in 1..SeedLen |-> (7 * k) % 256]        \* what the randomness source returns
NoSeed  == <<>>

\* BasePin.is_valid as the commands use it
Valid(p, any) == /\ \A k \in 1..Len(p) : Alnum(p[k])
                 /\ (any \/ Policy(p))

VARIABLES pc, cfg, env, dev, obs, outcome, hist, files, pin
vars == <<pc, cfg, env, dev, obs, outcome, hist, files, pin>>

Cfgs == {c \in [op : Ops, plat : Platforms, any_pin : BOOLEAN, no_unlock : BOOLEAN,
                src : {"opt", "prompt"}, outfile : BOOLEAN] :
            /\ (c.op \in {"onboard", "unlock"} => ~c.no_unlock)
            /\ (c.outfile => (c.op = "pubkeys" \/ (c.op = "onboard" /\ c.plat = "ledger")))}

Env0 == [pinc |-> "?", mode |-> "?", onb |-> "?", echo |-> "?", answers |-> "?", retry |-> "?",
         wipe |-> "?", unlock |-> "?", newpin |-> "?", mode2 |-> "?", keys |-> "?", pre |-> "?",
         link |-> "?", linkat |-> "?", enter |-> "?", post |-> "?"]

\* what already sits at the output path(s) when the command comes to write (see AdminProps)
PrePubkeys == {"absent", "same", "other", "extra", "fewer", "notjson", "dir", "dirjson"}
PreOnboard == {"absent", "other", "notjson", "dir"}

Init == /\ pc = "start" /\ cfg \in Cfgs /\ env = Env0
        /\ dev = [mode |-> "?", onb |-> "?"]
        /\ obs = InitObs /\ outcome = "none" /\ hist = <<>>
        /\ files = [txt |-> <<>>, json |-> <<>>] /\ pin = <<>>

\* is_onboarded(): yes / no, or a reply that says neither ("g:<truth>": too short, empty, an error
\* status - the harness runs every shape); the command must then stop
Garbled(a)  == a \in {"g:yes", "g:no"}
OnbTruth(a) == IF a = "g:yes" THEN "yes" ELSE IF a = "g:no" THEN "no" ELSE a

P == PinOf(env.pinc)
\* what the operator answers to "Do you want to proceed?"; "eof": the input ends there (at the
\* first prompt, or after one other answer)
Answers(a) == IF a = "yes" THEN <<"yes">> ELSE IF a = "no" THEN <<"no">>
              ELSE IF a = "oy" THEN <<"other", "yes">> ELSE IF a = "on" THEN <<"other", "no">>
              ELSE IF a = "eof" THEN <<"eof">> ELSE IF a = "oeof" THEN <<"other", "eof">>
              ELSE <<"yes">>           \* never asked: read in favour of the precondition
\* what the operator types at a PIN prompt: the entry P, and after a rejection (env.retry) a compliant
\* entry, nothing more (end of input), a second rejected entry and then either; "eof0": the input
\* ends at the very first prompt
Entries(r) == IF r = "valid" THEN <<P, PinOf("ok")>>
              ELSE IF r = "r2valid" THEN <<P, P, PinOf("ok")>>
              ELSE IF r = "r2eof" THEN <<P, P>>
              ELSE IF r = "eof0" THEN <<>>
              ELSE <<P>>
\* the run's inputs as AdminProps wants them
C == [op |-> cfg.op, plat |-> cfg.plat, any_pin |-> cfg.any_pin, no_unlock |-> cfg.no_unlock,
      src |-> cfg.src,
      pins |-> IF cfg.src = "prompt" THEN Entries(env.retry) ELSE <<P>>,
      upin |-> UPin, outfile |-> cfg.outfile, answers |-> Answers(env.answers),
      d0 |-> [mode |-> env.mode, onb |-> IF Garbled(env.onb) THEN "garbled" ELSE env.onb, echo |-> env.echo],
      acc |-> [wipe |-> env.wipe, unlock |-> env.unlock, newpin |-> env.newpin],
      pre |-> env.pre, prev_seed |-> NoSeed]

\* events are folded with the inputs as known so far: Observe only reads op / plat / any_pin /
\* no_unlock / prev_seed, which never change during a run
Emit(es) == /\ obs' = ObserveAll(C, obs, es)
            /\ hist' = hist \o [k \in 1..Len(es) |-> es[k].cls]
Quiet == UNCHANGED <<obs, hist>>
Fail  == pc' = "done" /\ outcome' = "err"
Done  == pc' = "done" /\ outcome' = "ok"
Hang  == pc' = "done" /\ outcome' = "hang"     \* keeps prompting: never returns
Go(p) == pc' = p /\ UNCHANGED outcome
E(cls, d, ans, ok) == Ev(cls, d, ans, ok, 0, 0, <<>>)
EB(cls, d, i, b)   == Ev(cls, d, "na", "t", i, b, <<>>)
ED(cls, d, ok, data) == Ev(cls, d, "na", ok, 0, 0, data)

Unlockish == cfg.op \in {"unlock", "changepin", "pubkeys"}

(***************************************************************************)
(* Option validation (no device exchange)                                  *)
(***************************************************************************)
AfterValidation(p) ==
    IF cfg.op = "changepin"
    THEN (IF cfg.no_unlock THEN Go("mode2") /\ UNCHANGED pin ELSE Go("mode") /\ pin' = UPin)
    ELSE Go("mode") /\ pin' = p

Validate ==
    /\ pc = "start" /\ Quiet /\ UNCHANGED <<cfg, dev, files>>
    /\ IF cfg.op = "onboard" /\ cfg.plat = "ledger" /\ ~cfg.outfile
       THEN Fail /\ UNCHANGED <<pin, env>>
       ELSE IF cfg.op = "pubkeys" /\ cfg.no_unlock THEN Go("mode2") /\ UNCHANGED <<pin, env>>
       ELSE IF cfg.src = "prompt" THEN AfterValidation(<<>>) /\ UNCHANGED env
       ELSE \* a PIN given as an option is looked at first of all (onboard: always held to the policy)
            \E c \in PinClasses :
              /\ env' = [env EXCEPT !.pinc = c]
              /\ IF Valid(PinOf(c), IF cfg.op = "onboard" THEN FALSE ELSE cfg.any_pin)
                 THEN AfterValidation(PinOf(c))
                 ELSE Fail /\ UNCHANGED pin

(***************************************************************************)
(* Device questions                                                        *)
(***************************************************************************)
AskMode ==
    /\ pc = "mode"
    /\ \E m \in Modes :
         LET d == [dev EXCEPT !.mode = m] IN
         /\ dev' = d /\ env' = [env EXCEPT !.mode = m]
         /\ Emit(<<E("get_mode", d, m, "t")>>)
         /\ IF cfg.op = "onboard"
            THEN (IF m = "boot" THEN Go("echo") ELSE Fail)
            ELSE (IF m \in {"boot", "signer"} THEN Go("onb") ELSE Fail)
    /\ UNCHANGED <<cfg, files, pin>>

AskOnb ==
    /\ pc = "onb"
    /\ \E a \in {"yes", "no", "g:yes", "g:no"} :
         LET d == [dev EXCEPT !.onb = OnbTruth(a)] IN
         /\ dev' = d /\ env' = [env EXCEPT !.onb = a]
         /\ Emit(<<E("is_onboard", d, IF Garbled(a) THEN "na" ELSE a, IF Garbled(a) THEN "f" ELSE "t")>>)
         /\ IF Garbled(a) THEN Fail
            ELSE IF cfg.op = "onboard"
            THEN (IF a = "no" THEN Go("confirm") ELSE Fail)
            ELSE (IF a = "yes" /\ dev.mode = "boot" THEN Go("echo") ELSE Fail)
    /\ UNCHANGED <<cfg, files, pin>>

Echo ==
    /\ pc = "echo"
    /\ \E ok \in {"t", "f"} :
         /\ env' = [env EXCEPT !.echo = ok]
         /\ Emit(<<E("echo", dev, "na", ok)>>)
         /\ IF ok = "f" THEN Fail
            ELSE IF cfg.op = "onboard" THEN Go("onb") ELSE Go("getpin")
    /\ UNCHANGED <<cfg, dev, files, pin>>

(***************************************************************************)
(* Operator                                                                *)
(***************************************************************************)
Confirm ==
    /\ pc = "confirm"
    /\ \E a \in {"yes", "no", "oy", "on", "eof", "oeof"} :
         /\ env' = [env EXCEPT !.answers = a]
         /\ Emit([k \in 1..Len(Answers(a)) |-> E("stdin", dev, Answers(a)[k], "na")])
         \* sys.stdin.readline() at end of input returns "" for ever: the loop keeps asking
         /\ IF a \in {"yes", "oy"} THEN Go("getpin") ELSE IF a \in {"eof", "oeof"} THEN Hang ELSE Fail
    /\ UNCHANGED <<cfg, dev, files, pin>>

\* ask_for_pin(any): re-asks until valid. Where the operator's input ends is the environment's
\* choice: at the first prompt, right after one or two rejected entries, or not before a compliant
\* entry has been typed. getpass() at end of input raises EOFError: the command stops.
GP(ok) == E("getpass", dev, "na", ok)
Prompt(any, next) ==
    \/ /\ env' = [env EXCEPT !.retry = "eof0"]
       /\ Emit(<<GP("f")>>) /\ UNCHANGED pin /\ Fail
    \/ \E c \in PinClasses :
         IF Valid(PinOf(c), any)
         THEN /\ env' = [env EXCEPT !.pinc = c]
              /\ Emit(<<GP("na")>>) /\ pin' = PinOf(c) /\ Go(next)
         ELSE \E r \in {"valid", "eof", "r2valid", "r2eof"} :
                /\ env' = [env EXCEPT !.pinc = c, !.retry = r]
                /\ IF r = "valid" THEN Emit(<<GP("na"), GP("na")>>) /\ pin' = PinOf("ok") /\ Go(next)
                   ELSE IF r = "r2valid"
                        THEN Emit(<<GP("na"), GP("na"), GP("na")>>) /\ pin' = PinOf("ok") /\ Go(next)
                   ELSE IF r = "eof" THEN Emit(<<GP("na"), GP("f")>>) /\ UNCHANGED pin /\ Fail
                   ELSE Emit(<<GP("na"), GP("na"), GP("f")>>) /\ UNCHANGED pin /\ Fail

GetPin ==
    /\ pc = "getpin"
    /\ IF cfg.op = "onboard" THEN
           IF cfg.src = "opt" THEN Quiet /\ Go("seed") /\ UNCHANGED <<pin, env>>
           ELSE Prompt(cfg.any_pin, "seed")
       ELSE IF cfg.op = "changepin" \/ cfg.src = "opt"
            THEN Quiet /\ Go("sendpin") /\ UNCHANGED <<pin, env>>
       ELSE Prompt(TRUE, "sendpin")
    /\ UNCHANGED <<cfg, dev, files>>

(***************************************************************************)
(* Onboarding                                                              *)
(***************************************************************************)
GenSeed ==
    /\ pc = "seed"
    /\ Emit(<<ED("urandom", dev, "na", SeedRep)>>)
    /\ Go(IF cfg.plat = "ledger" THEN "sendseed" ELSE "sgxonboard")
    /\ UNCHANGED <<cfg, env, dev, files, pin>>

SendSeed ==
    /\ pc = "sendseed"
    /\ Emit([k \in 1..SeedLen |-> EB("seed_byte", dev, k - 1, SeedRep[k])])
    /\ Go("onbpin") /\ UNCHANGED <<cfg, env, dev, files, pin>>

Prefixed(p) == <<Len(p)>> \o p
PinBytes(p, d) == [k \in 1..Len(p) |-> EB("pin_byte", d, k - 1, p[k])]

SendOnbPin ==
    /\ pc = "onbpin"
    /\ Emit(PinBytes(Prefixed(pin), dev))
    /\ Go("wipe") /\ UNCHANGED <<cfg, env, dev, files, pin>>

Wipe ==
    /\ pc = "wipe"
    /\ \E ok \in {"t", "f"} :
         /\ env' = [env EXCEPT !.wipe = ok]
         /\ Emit(<<E("wipe", dev, "na", ok)>>)
         /\ IF ok = "t" THEN dev' = [dev EXCEPT !.onb = "yes"] /\ Go("enter")
            ELSE UNCHANGED dev /\ Fail
    /\ UNCHANGED <<cfg, files, pin>>

SgxOnboard ==
    /\ pc = "sgxonboard"
    /\ \E ok \in {"t", "f"} :
         /\ env' = [env EXCEPT !.wipe = ok]
         /\ Emit(<<ED("sgx_onboard", dev, ok, <<0>> \o SeedRep \o pin)>>)
         /\ IF ok = "t" THEN dev' = [dev EXCEPT !.onb = "yes"] /\ Done
            ELSE UNCHANGED dev /\ Fail
    /\ UNCHANGED <<cfg, files, pin>>

\* Ledger only: [Enter], reconnect, do_unlock(no_exec), attestation setup, certificate.
\* The device kept at most 8 PIN characters: a longer PIN (any-PIN only) no longer unlocks it.
PostUnlock ==
    /\ pc = "enter"
    /\ \E enter \in {"other", "eof"}, post \in {"retype", "eof"} :
         /\ (cfg.src = "opt" => post = "retype")
         /\ env' = [env EXCEPT !.enter = enter, !.post = IF cfg.src = "prompt" THEN post ELSE "?"]
         /\ LET ok == IF Len(pin) <= 8 THEN "t" ELSE "f"
                head == <<E("stdin", dev, enter, "na"),        \* [Enter], or the input has ended: goes on
                          E("get_mode", dev, "boot", "t"), E("is_onboard", dev, "yes", "t"),
                          E("echo", dev, "na", "t")>> IN
            IF cfg.src = "prompt" /\ post = "eof"
            THEN Emit(head \o <<GP("f")>>) /\ Fail       \* the PIN is asked for again: end of input
            ELSE /\ Emit(head \o (IF cfg.src = "prompt" THEN <<GP("na")>> ELSE <<>>)
                           \o PinBytes(pin, dev) \o <<E("unlock", dev, "na", ok)>>
                           \o (IF ok = "t" THEN <<E("exit", dev, "na", "na")>> ELSE <<>>))
                 /\ IF ok = "t" THEN Go("attest") ELSE Fail
    /\ UNCHANGED <<cfg, dev, files, pin>>

\* attestation setup, then the certificate is saved over whatever is at the output path
Attest ==
    /\ pc = "attest"
    /\ Emit([k \in 1..8 |-> E("admin", dev, "na", "t")])
    /\ \E p \in PreOnboard :
         /\ env' = [env EXCEPT !.pre = p]
         /\ IF p = "dir" THEN Fail ELSE Done
    /\ UNCHANGED <<cfg, dev, files, pin>>

(***************************************************************************)
(* Unlock                                                                  *)
(***************************************************************************)
SendPin ==
    /\ pc = "sendpin"
    /\ IF cfg.plat = "ledger" THEN Emit(PinBytes(pin, dev)) ELSE Quiet
    /\ Go("unlock") /\ UNCHANGED <<cfg, env, dev, files, pin>>

Unlock ==
    /\ pc = "unlock"
    /\ \E ok \in {"t", "f"} :
         /\ env' = [env EXCEPT !.unlock = ok]
         /\ Emit(<<ED("unlock", dev, ok, IF cfg.plat = "sgx" THEN <<0>> \o pin ELSE <<>>)>>)
         /\ IF ok = "f" THEN Fail /\ UNCHANGED dev
            ELSE IF cfg.plat = "sgx"
                 THEN /\ dev' = [dev EXCEPT !.mode = "signer"]      \* unlocked SGX reports signer
                      /\ IF cfg.op = "unlock" THEN Done ELSE Go("mode2")
            ELSE /\ UNCHANGED dev
                 /\ IF cfg.op = "changepin" THEN Go("mode2") ELSE Go("exit")
    /\ UNCHANGED <<cfg, files, pin>>

\* exit_menu: the link drops; the device lands in whatever mode the environment likes
ExitMenu ==
    /\ pc = "exit"
    /\ IF cfg.op = "unlock"
       THEN /\ Emit(<<E("exit", dev, "na", "na")>>) /\ Done /\ UNCHANGED <<dev, env>>
       ELSE \E m \in Modes :
              /\ Emit(<<E("exit", dev, "na", "na")>>)
              /\ dev' = [dev EXCEPT !.mode = m] /\ env' = [env EXCEPT !.mode2 = m]
              /\ Go("mode2")
    /\ UNCHANGED <<cfg, files, pin>>

(***************************************************************************)
(* Second connection: changepin / pubkeys                                  *)
(***************************************************************************)
AskMode2 ==
    /\ pc = "mode2"
    /\ \E m \in Modes :
         /\ (dev.mode # "?" => m = dev.mode)
         /\ LET d == [dev EXCEPT !.mode = m] IN
            /\ dev' = d
            /\ env' = IF dev.mode = "?" THEN [env EXCEPT !.mode = m] ELSE env
            /\ Emit(<<E("get_mode", d, m, "t")>>)
            /\ IF m = "other" THEN Fail
               ELSE IF cfg.op = "changepin"
                    THEN (IF cfg.plat = "ledger" /\ m # "boot" THEN Fail ELSE Go("getnewpin"))
               ELSE (IF m \in {"unknown", "boot"} THEN Fail ELSE Go("getkeys"))
    /\ UNCHANGED <<cfg, files, pin>>

GetNewPin ==
    /\ pc = "getnewpin"
    /\ IF cfg.src = "opt" THEN Quiet /\ pin' = P /\ Go("sendnewpin") /\ UNCHANGED env
       ELSE Prompt(cfg.any_pin, "sendnewpin")
    /\ UNCHANGED <<cfg, dev, files>>

SendNewPin ==
    /\ pc = "sendnewpin"
    /\ IF cfg.plat = "ledger" THEN Emit(PinBytes(Prefixed(pin), dev)) ELSE Quiet
    /\ Go("change") /\ UNCHANGED <<cfg, env, dev, files, pin>>

ChangePin ==
    /\ pc = "change"
    /\ \E ok \in {"t", "f"} :
         /\ env' = [env EXCEPT !.newpin = ok]
         /\ Emit(<<ED("change_pin", dev, ok, IF cfg.plat = "sgx" THEN <<0>> \o pin ELSE <<>>)>>)
         /\ IF ok = "t" THEN Done ELSE Fail
    /\ UNCHANGED <<cfg, dev, files, pin>>

DocSeq == <<"m/44'/0'/0'/0/0", "m/44'/137'/0'/0/0", "m/44'/137'/1'/0/0",
            "m/44'/1'/0'/0/0", "m/44'/1'/1'/0/0", "m/44'/1'/2'/0/0">>
\* the model device's keys, symbolic
Expect == [k \in 1..Len(DocSeq) |-> [path |-> DocSeq[k], c |-> "c:" \o DocSeq[k],
                                       u |-> "u:" \o DocSeq[k]]]

GetKeys ==
    /\ pc = "getkeys"
    /\ \E ok \in {"t", "f"} :
         /\ (dev.mode = "uihb" => ok = "f")
         /\ env' = [env EXCEPT !.keys = ok]
         /\ IF ok = "t"
            THEN /\ Emit([k \in 1..Len(DocSeq) |-> E("get_pubkey", dev, DocSeq[k], "t")])
                 /\ Go("write")
            ELSE /\ Emit(<<E("get_pubkey", dev, DocSeq[1], "f")>>) /\ Fail
    /\ UNCHANGED <<cfg, dev, files, pin>>

\* the text table, then the JSON, each written over whatever is there; a directory in the way is an
\* error (with the JSON path blocked the text file has been written already)
Fresh == [txt  |-> [k \in 1..Len(Expect) |-> <<Expect[k].path, Expect[k].c>>],
          json |-> [k \in 1..Len(Expect) |-> <<Expect[k].path, Expect[k].u>>]]
WriteFiles ==
    /\ pc = "write" /\ Quiet
    /\ IF ~cfg.outfile THEN Done /\ UNCHANGED <<files, env>>
       ELSE \E p \in PrePubkeys :
              /\ env' = [env EXCEPT !.pre = p]
              /\ IF p = "dir" THEN Fail /\ UNCHANGED files
                 ELSE IF p = "dirjson" THEN Fail /\ files' = [Fresh EXCEPT !.json = <<>>]
                 ELSE Done /\ files' = Fresh
    /\ UNCHANGED <<cfg, dev, pin>>

(***************************************************************************)
(* The link.  At every gating exchange the environment may, once per run,  *)
(* let the link fail instead of answering in time: "lost" = time-out, the  *)
(* answer never arrives; "late" = time-out, the answer arrives afterwards  *)
(* and stays queued on the open handle (whoever goes on using that handle  *)
(* reads its predecessor's answers); "err" = read / write error.  The      *)
(* commands give up there.  (Exchanges sent in groups - seed bytes, PIN    *)
(* bytes, the six key queries - fail at one member of the group, chosen by *)
(* the harness.)                                                           *)
(***************************************************************************)
LinkCls(p) == IF p \in {"mode", "mode2"} THEN "get_mode"
              ELSE IF p = "onb" THEN "is_onboard"
              ELSE IF p = "echo" THEN "echo"
              ELSE IF p = "sendseed" THEN "seed_byte"
              ELSE IF p \in {"onbpin", "sendpin", "sendnewpin"} THEN "pin_byte"
              ELSE IF p = "wipe" THEN "wipe"
              ELSE IF p = "sgxonboard" THEN "sgx_onboard"
              ELSE IF p = "unlock" THEN "unlock"
              ELSE IF p = "change" THEN "change_pin"
              ELSE "get_pubkey"
LinkPcs == {"mode", "mode2", "onb", "echo", "sendseed", "onbpin", "sendpin", "sendnewpin", "wipe",
            "sgxonboard", "unlock", "change", "getkeys"}

LinkFault ==
    /\ pc \in LinkPcs /\ env.link = "?"
    /\ ~(cfg.plat = "sgx" /\ pc \in {"sendpin", "sendnewpin"})       \* SGX: the PIN travels with the command
    /\ \E k \in {"lost", "late", "err"} :
         /\ env' = [env EXCEPT !.link = k, !.linkat = pc]
         /\ Emit(<<IF pc = "sgxonboard" THEN ED("sgx_onboard", dev, "x", <<0>> \o SeedRep \o pin)
                   ELSE IF cfg.plat = "sgx" /\ pc \in {"unlock", "change"}
                        THEN ED(LinkCls(pc), dev, "x", <<0>> \o pin)
                   ELSE E(LinkCls(pc), dev, "na", "x")>>)
    /\ Fail /\ UNCHANGED <<cfg, dev, files, pin>>

Next == LinkFault \/ Validate \/ AskMode \/ AskOnb \/ Echo \/ Confirm \/ GetPin \/ GenSeed \/ SendSeed
        \/ SendOnbPin \/ Wipe \/ SgxOnboard \/ PostUnlock \/ Attest \/ SendPin \/ Unlock
        \/ ExitMenu \/ AskMode2 \/ GetNewPin \/ SendNewPin \/ ChangePin \/ GetKeys \/ WriteFiles
Spec == Init /\ [][Next]_vars

Terminal == pc = "done"

OnboardSafe    == OnboardSafeP(obs)
SeedFresh      == SeedFreshP(obs)
UnlockSafe     == UnlockSafeP(obs)
PinPolicy      == PinPolicyP(obs)
PinHeld        == Terminal => PinHeldP(C, obs, pin)
Carried        == Terminal => CarriedP(C, obs, outcome)
PubkeysWritten == Terminal => PubkeysWrittenP(C, outcome, files, Expect)
WriteError     == Terminal => WriteErrorP(C, outcome)
InputError     == Terminal => InputErrorP(obs, outcome)
\* vacuity guards: each must be *violated* (negative configurations)
NeverOnboards   == ~(Terminal /\ cfg.op = "onboard" /\ outcome = "ok")
NeverUnlocks    == ~(Terminal /\ cfg.op = "unlock" /\ outcome = "ok")
NeverChanges    == ~(Terminal /\ cfg.op = "changepin" /\ outcome = "ok")
NeverWritesKeys == ~(Terminal /\ cfg.op = "pubkeys" /\ outcome = "ok" /\ files.txt # <<>>)
NeverLinkFault  == env.link = "?"
NeverAnyPin     == ~(Terminal /\ obs.wipes + obs.changes > 0 /\ ~Policy(pin))

View == <<pc, cfg, env, dev, obs, outcome, files, pin>>
=============================================================================
