---------------------------- MODULE TraceVerify ----------------------------
(* Judges executions of the real commands                                   *)
(*   admin.verify_ledger_attestation.do_verify_attestation(options)         *)
(*   admin.verify_sgx_attestation.do_verify_attestation(options)            *)
(* against VerifyProps.  One trace =                                        *)
(*   [id, inp      : the abstract input the concrete files were built from  *)
(*                   (paths as the bytes of the path names in the file),    *)
(*        signed   : [ui, uitweak, pow, powtweak, quote : Seq(0..255)]      *)
(*                   the messages as they were signed (builder's input),    *)
(*        k33      : key identity -> compressed encoding (33 bytes),        *)
(*        outcome  : "return" | "error",                                    *)
(*        printed  : [field -> Seq(0..255)] read off the captured stdout]   *)
(* `at` of a PrintedSigned verdict = number of fields that differ.          *)
EXTENDS VerifyProps, TraceLib

VARIABLES tid, l, bad
tvars == <<tid, l, bad>>

T == Traces[tid]
Shape == /\ {"inp", "signed", "k33", "outcome", "printed"} \subseteq DOMAIN T
         /\ T.outcome \in {"return", "error"}
         /\ PrintedFields \subseteq DOMAIN T.printed
         /\ {"ui", "uitweak", "pow", "powtweak", "quote"} \subseteq DOMAIN T.signed
         /\ {"plat", "args", "root", "certfile", "file", "btc", "mh", "ui", "pow"} \subseteq DOMAIN T.inp
         /\ {"kind", "ents"} \subseteq DOMAIN T.inp.file
         /\ {"enc", "pre"} \subseteq DOMAIN T.inp.mh

TInit == tid \in 1..Len(Traces) /\ l = 1 /\ bad = ""
Judge == /\ l = 1
         /\ bad' = IF ~Shape THEN "Malformed"
                   ELSE IF ~Consistent(T.inp, T.signed, T.k33) THEN "Malformed"
                   ELSE IF ~ReturnIffOkP(T.inp, T.outcome) THEN "ReturnIffOk"
                   ELSE IF ~PrintedSignedP(T.inp, T.outcome, T.printed, T.signed) THEN "PrintedSigned"
                   ELSE ""
         /\ l' = 2 /\ UNCHANGED tid
TNext == Judge
TSpec == TInit /\ [][TNext]_tvars

Monitor == (l = 2) => Verdict(T.id, bad = "", bad,
                              IF bad = "PrintedSigned"
                              THEN Cardinality(WrongFields(T.inp, T.printed, T.signed)) ELSE 0)
=============================================================================
