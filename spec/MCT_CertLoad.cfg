SPECIFICATION Spec
CONSTANTS
  Pool = {"a", "b", "c", "d", "root"}
  MaxItems = 4
  MaxTargets = 1
  MaxOdd = 0
  Stretching = TRUE
INVARIANT LoadedImpliesAcyclic
INVARIANT WalkBound
INVARIANT ChainBound
INVARIANT StepBound
INVARIANT Covers
INVARIANT RoundTrip
CHECK_DEADLOCK FALSE
