--------------------------- MODULE TraceStatusMap ---------------------------
(* One-step traces: a cell (cmd, step, kind, sw, v1) and what the real     *)
(* manager answered (code, hascode, shutdown), judged by StatusMapProps.   *)
(* trace = [id, cells : Seq(cell)] — a batch of cells per trace id.         *)
EXTENDS StatusMapProps, TraceLib
VARIABLES tid, l, bad
tvars == <<tid, l, bad>>
T == Traces[tid]
CellOf(c) == [v1 |-> c.v1, cmd |-> c.cmd, step |-> c.step, kind |-> c.kind, sw |-> c.sw,
              code |-> c.code, hascode |-> c.hascode, shutdown |-> c.shutdown]
TInit == tid \in 1..Len(Traces) /\ l = 1 /\ bad = ""
\* a batch does not stop at a failing cell: every cell gets its own verdict
Step == /\ l <= Len(T.cells)
        /\ bad' = FirstFailS(Clauses(CellOf(T.cells[l])))
        /\ l' = l + 1 /\ UNCHANGED tid
TSpec == TInit /\ [][Step]_tvars
Monitor == /\ (bad # "") => Verdict(T.cells[l - 1].id, FALSE, bad, l - 1)
           /\ (l = Len(T.cells) + 1) => Verdict(T.id, TRUE, "", l - 1)
=============================================================================
