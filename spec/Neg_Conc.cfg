SPECIFICATION Spec
CONSTANTS
  N = 3
  K = 2
  Handlers = 2
INVARIANT NoViolation
VIEW View
CHECK_DEADLOCK FALSE
