------------------------------ MODULE PinStore ------------------------------
(***************************************************************************)
(* Env || Sys model of the PIN life cycle over several manager lifetimes:  *)
(* FileBasedPin (load / start_change / commit(open, write, close) /        *)
(* abort), the PIN path of _handle_bootloader, per-operation file-system   *)
(* failures, crash at every step boundary, restart.                        *)
(* Sys follows the code as it is — including the window between the        *)
(* device's acknowledgement and the durable write (open("wb") truncates,   *)
(* data reaches the disk at close) — so `NoWindow` is expected to FAIL on  *)
(* this model (negative configuration) while every other clause holds.     *)
(***************************************************************************)
EXTENDS PinStoreProps

CONSTANTS MaxLives, MaxFaults, MaxCrashes, InitFiles, MaxReboots

VARIABLES file, dev, mem, newp, pc, force, lives, faults, crashes, fresh, obs, bad, hist,
          recon,    \* the bring-up in progress is a reconnection made while serving (ensure_connection)
          reboots
vars == <<file, dev, mem, newp, pc, force, lives, faults, crashes, fresh, obs, bad, hist, recon, reboots>>

Init == /\ file \in InitFiles /\ dev = Default /\ mem = NoPin /\ newp = NoPin /\ pc = "boot"
        /\ force = FALSE /\ lives = 1 /\ faults = 0 /\ crashes = 0 /\ fresh = 1
        /\ obs = InitObs(file, dev) /\ bad = "" /\ hist = <<>> /\ recon = FALSE /\ reboots = 0

\* every Sys/Env step emits one event carrying the durable state after it
Emit(e, f, d) ==
    LET ev == [e EXCEPT !.file = f, !.dev = d]
        n  == Observe(obs, ev)
    IN /\ obs' = n
       /\ bad' = IF bad # "" THEN bad ELSE FirstFailP(Clauses(obs, n, ev))
E0(k) == [k |-> k, file |-> 0, dev |-> 0, ok |-> "na", pin |-> NoPin, op |-> "na", outcome |-> "na",
          force |-> FALSE, mem |-> NoPin]
H(x) == hist' = Append(hist, x)

Boot == /\ pc = "boot"
        /\ \E fc \in BOOLEAN :
             /\ force' = fc
             /\ Emit([E0("start") EXCEPT !.force = fc], file, dev)
             /\ H([a |-> "start", force |-> fc, file |-> file])
        /\ pc' = "load" /\ UNCHANGED <<file, dev, mem, newp, lives, faults, crashes, fresh, recon, reboots>>

\* FileBasedPin.__init__: invalid content => PinError, the manager never reaches the device
Load == /\ pc = "load"
        /\ IF file \in {Empty, Garbage}
           THEN /\ pc' = "stopping" /\ UNCHANGED mem
                /\ Emit([E0("load") EXCEPT !.ok = "f"], file, dev)
                /\ H([a |-> "load", mode |-> "boot"])
           ELSE /\ mem' = PinOf(file)
                \* the device may already be in the signer app: no unlock, no PIN change at start-up
                /\ \E sm \in (IF MaxReboots > 0 THEN {"boot", "signer"} ELSE {"boot"}) :
                     /\ pc' = IF sm = "boot" THEN "unlock" ELSE "serve"
                     /\ H([a |-> "load", mode |-> sm])
                /\ Emit([E0("load") EXCEPT !.ok = "t", !.pin = PinOf(file)], file, dev)
        /\ UNCHANGED <<file, dev, newp, force, lives, faults, crashes, fresh, recon, reboots>>

NeedsChange == force \/ file = Absent

Unlock == /\ pc = "unlock"
          /\ IF mem = dev
             THEN /\ pc' = IF NeedsChange THEN "gen" ELSE "serve"
                  /\ Emit([E0("unlock") EXCEPT !.ok = "t", !.pin = mem], file, dev)
             ELSE /\ pc' = IF recon THEN "serve" ELSE "stopping"    \* HSM2ProtocolError: fatal at start-up, a -905 later
                  /\ Emit([E0("unlock") EXCEPT !.ok = "f", !.pin = mem], file, dev)
          /\ H([a |-> "unlock"])
          /\ UNCHANGED <<file, dev, mem, newp, force, lives, faults, crashes, fresh, recon, reboots>>

\* start_change + new_pin: the device acknowledges, refuses (policy) or errors
\* ("cut": the transfer of the new PIN is cut short by a time-out before the device was told to take it - the
\* device never ran the command, nothing was acknowledged, the change is abandoned)
Send == /\ pc = "gen"
        /\ \E ans \in {"ack", "refuse", "err", "cut"} :
             /\ newp' = fresh /\ fresh' = fresh + 1
             /\ IF ans = "ack"
                THEN /\ dev' = fresh /\ pc' = "open"
                     /\ Emit([E0("newpin") EXCEPT !.ok = "t", !.pin = fresh], file, fresh)
                ELSE IF ans = "cut"
                THEN /\ pc' = "abort" /\ UNCHANGED <<dev, obs, bad>>
                ELSE /\ pc' = "abort" /\ UNCHANGED dev
                     /\ Emit([E0("newpin") EXCEPT !.ok = "f", !.pin = fresh], file, dev)
             /\ H([a |-> "newpin", ans |-> ans])
        /\ UNCHANGED <<file, mem, force, lives, faults, crashes, recon, reboots>>

\* commit_change: open("wb") truncates; write is buffered; close makes it durable
Open == /\ pc = "open"
        /\ \/ /\ file' = Empty /\ pc' = "write" /\ UNCHANGED faults
              /\ Emit([E0("fs") EXCEPT !.op = "open", !.ok = "t"], Empty, dev)
              /\ H([a |-> "fs", op |-> "open", ok |-> "t"])
           \/ /\ faults < MaxFaults /\ faults' = faults + 1 /\ pc' = "abort" /\ UNCHANGED file
              /\ Emit([E0("fs") EXCEPT !.op = "open", !.ok = "f"], file, dev)
              /\ H([a |-> "fs", op |-> "open", ok |-> "f"])
        /\ UNCHANGED <<dev, mem, newp, force, lives, crashes, fresh, recon, reboots>>

Write == /\ pc = "write"
         /\ \/ /\ pc' = "close" /\ UNCHANGED faults
               /\ Emit([E0("fs") EXCEPT !.op = "write", !.ok = "t"], file, dev)
               /\ H([a |-> "fs", op |-> "write", ok |-> "t"])
            \/ /\ faults < MaxFaults /\ faults' = faults + 1 /\ pc' = "abort"
               /\ Emit([E0("fs") EXCEPT !.op = "write", !.ok = "f"], file, dev)
               /\ H([a |-> "fs", op |-> "write", ok |-> "f"])
         /\ UNCHANGED <<file, dev, mem, newp, force, lives, crashes, fresh, recon, reboots>>

Close == /\ pc = "close"
         /\ \/ /\ file' = newp /\ mem' = newp /\ pc' = "stopping" /\ UNCHANGED faults
               /\ Emit([E0("fs") EXCEPT !.op = "close", !.ok = "t"], newp, dev)
               /\ H([a |-> "fs", op |-> "close", ok |-> "t"])
            \/ /\ faults < MaxFaults /\ faults' = faults + 1 /\ pc' = "abort" /\ UNCHANGED <<file, mem>>
               /\ Emit([E0("fs") EXCEPT !.op = "close", !.ok = "f"], file, dev)
               /\ H([a |-> "fs", op |-> "close", ok |-> "f"])
         /\ UNCHANGED <<dev, newp, force, lives, crashes, fresh, recon, reboots>>

\* abort_change, then `finally: raise HSM2ProtocolInterrupt()`
Abort == /\ pc = "abort" /\ pc' = "stopping"
         /\ UNCHANGED <<file, dev, mem, newp, force, lives, faults, crashes, fresh, obs, bad, hist, recon, reboots>>

Stopping == /\ pc = "stopping" /\ pc' = "dead"
            /\ Emit([E0("end") EXCEPT !.outcome = "stop", !.mem = mem], file, dev) /\ H([a |-> "end", outcome |-> "stop"])
            /\ UNCHANGED <<file, dev, mem, newp, force, lives, faults, crashes, fresh, recon, reboots>>

Serve == /\ pc = "serve" /\ pc' = "serving"
         /\ Emit([E0("end") EXCEPT !.outcome = "serve", !.mem = mem], file, dev) /\ H([a |-> "end", outcome |-> "serve"])
         /\ UNCHANGED <<file, dev, mem, newp, force, lives, faults, crashes, fresh, recon, reboots>>

\* the process dies at a step boundary: volatile state is lost, durable state stays as it is
Crash == /\ pc \in {"load", "unlock", "gen", "open", "write", "close", "abort", "stopping", "serve"}
         /\ crashes < MaxCrashes /\ crashes' = crashes + 1 /\ pc' = "dead"
         /\ Emit([E0("end") EXCEPT !.outcome = "crash"], file, dev)
         /\ H([a |-> "crash", at |-> pc])
         /\ UNCHANGED <<file, dev, mem, newp, force, lives, faults, fresh, recon, reboots>>

Restart == /\ pc \in {"dead", "serving"} /\ lives < MaxLives /\ lives' = lives + 1
           /\ pc' = "boot" /\ mem' = NoPin /\ newp' = NoPin /\ recon' = FALSE
           /\ UNCHANGED <<file, dev, force, faults, crashes, fresh, obs, bad, hist, reboots>>

\* while serving: the link fails, the device comes back in the bootloader, the next request's
\* ensure_connection runs the whole bring-up again (same process, same in-memory PIN object)
Reboot == /\ pc = "serving" /\ reboots < MaxReboots /\ reboots' = reboots + 1
          /\ pc' = "unlock" /\ recon' = TRUE /\ H([a |-> "reboot"])
          /\ UNCHANGED <<file, dev, mem, newp, force, lives, faults, crashes, fresh, obs, bad>>

Next == Reboot \/ Boot \/ Load \/ Unlock \/ Send \/ Open \/ Write \/ Close \/ Abort \/ Stopping \/ Serve
        \/ Crash \/ Restart
Spec == Init /\ [][Next]_vars

NoNewViolation == bad = ""
NoWindow       == ~obs.win          \* expected to be violated: the known finding
Terminal == pc \in {"dead", "serving"} /\ lives = MaxLives
View == <<file, dev, mem, newp, pc, force, lives, faults, crashes, fresh, obs, bad, recon, reboots>>
=============================================================================
