---------------------------- MODULE TraceAdmin ----------------------------
(* Validates event logs recorded from the real admin commands against the  *)
(* observables and properties of AdminProps.  One trace =                  *)
(*   [id, op, plat, any_pin, no_unlock, src, pins, upin, outfile, answers, *)
(*    d0 : [mode, onb, echo], acc : [wipe, unlock, newpin], pre, prev_seed,*)
(*    ev : Seq(event), outcome, fin_pin (the PIN the device ends up with), *)
(*    files : [txt, json], expect : Seq([path, c, u])]                     *)
(* The trace record itself plays the role of the inputs `C`.  The safety   *)
(* clauses are re-evaluated after every event, Carried and PubkeysWritten  *)
(* at the end.                                                             *)
EXTENDS AdminProps, TraceLib

VARIABLES tid, l, obs, bad
tvars == <<tid, l, obs, bad>>

T == Traces[tid]

TInit == /\ tid \in 1..Len(Traces) /\ l = 1 /\ obs = InitObs /\ bad = ""

Step == /\ bad = "" /\ l <= Len(T.ev)
        /\ LET o == Observe(T, obs, T.ev[l]) IN
             /\ obs' = o
             /\ bad' = FirstFail(StepClauses(o))
        /\ l' = l + 1 /\ UNCHANGED tid

End == /\ bad = "" /\ l = Len(T.ev) + 1
       /\ bad' = FirstFail(<<
                   <<"PinPolicy", PinHeldP(T, obs, T.fin_pin)>>,
                   <<"InputError", InputErrorP(obs, T.outcome)>>,
                   <<"Carried", CarriedP(T, obs, T.outcome)>>,
                   <<"WriteError", WriteErrorP(T, T.outcome)>>,
                   <<"PubkeysWritten", PubkeysWrittenP(T, T.outcome, T.files, T.expect)>> >>)
       /\ l' = l + 1 /\ UNCHANGED <<tid, obs>>

TNext == Step \/ End
TSpec == TInit /\ [][TNext]_tvars

Monitor == /\ (bad # "") => Verdict(T.id, FALSE, bad, l - 1)
           /\ (bad = "" /\ l = Len(T.ev) + 2) => Verdict(T.id, TRUE, "", l - 1)
=============================================================================
