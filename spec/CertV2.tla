------------------------------- MODULE CertV2 -------------------------------
(***************************************************************************)
(* C07 - Env (who assembles a version-2 certificate: a genuine chain plus  *)
(* at most MaxDefects defects) || Sys (what admin/certificate_v1.py and    *)
(* certificate_v2.py do with it: `_parse` path check, chain construction   *)
(* target -> root, validation root -> leaf with the per-kind `is_valid`).  *)
(* The verdict of Sys is compared with the reference semantics of          *)
(* CertV2Props (`SpecValid`) on every certificate Env can produce.         *)
(***************************************************************************)
EXTENDS CertV2Props

CONSTANTS MaxDepth,      \* X.509 elements under the root of trust: 1..MaxDepth
          MaxDefects,    \* simultaneous Env choices that deviate from a genuine certificate
          MaxRenames,    \* of which at most this many are non-canonical NAMINGS of an X.509 element,
          MaxWithRename, \* and at most this many choices in total once a naming is non-canonical
          Spares,        \* subset of {"none", "fresh", "twin"}: off-path X.509 element
          MaxRounds,     \* validations of the SAME certificate object, the clock set anew before each
          Embeds         \* subset of {"none", "genuine", "foreign"}: a self-signed root certificate shipped
                         \* INSIDE the certificate as an element named like the root authority

Target == "quote"
XNames == <<"x1", "x2", "x3", "x4">>
Ghost  == "ghost"                        \* a name that no element has

VARIABLES cert, rot,                     \* env: the certificate and the root of trust handed over
          ndef, nren,                    \* env: deviations applied so far / of which namings
          scale,                         \* env: "near" | "extreme" - where the three instants and the free
                                         \* ends of the validity windows lie on the calendar
          len,                           \* env: "asis" | "long" - how many X.509 elements the chain has
          tz,                            \* env: UTC offset of the machine the validator runs on
          clks, outs,                    \* env/obs: clock instant of every validation so far, and its outcome
          phase, cur, visited, chain, certifier, steps,   \* sys
          outcome, failing, reported     \* obs: what the validator returns for the target
envv == <<cert, rot, ndef, nren, scale, len, tz, clks, outs>>
sysv == <<phase, cur, visited, chain, certifier, steps>>
obsv == <<outcome, failing, reported>>
vars == <<cert, rot, ndef, nren, scale, len, tz, clks, outs, phase, cur, visited, chain, certifier, steps, outcome, failing, reported>>

(***************************************************************************)
(* Env: genuine bases                                                      *)
(***************************************************************************)
\* `naming` (X.509 only) says which distinguished NAMES are written inside the certificate; the
\* signature is made by the key recorded in sigBy whatever the names say:
\*   canon        fresh subject, issuer = subject of the certifying certificate
\*   selfissued   fresh subject, issuer = that same subject
\*   likeparent   subject = issuer = subject of the certifying certificate (key-rollover style)
\*   nomatch      issuer = a name no certificate has
\*   rootissuer   issuer = the root's subject, on an element that is not the top one
\*   dupsubject   subject = subject of another X.509 element (not the certifying one)
\*   rootsubject  subject = the root's subject
\* Neither the property (CertV2Props never reads the field) nor the code looks at names.
\* Time.  Three instants 1 < 2 < 3 at which the validator's clock may stand; every X.509 certificate
\* has a validity WINDOW `win`, and `time` is always the class of the window at the present clock:
\*   all     valid at 1, 2, 3            until1  valid at 1 (notAfter may be exactly instant 1), expired later
\*   from3   valid at 3 only (notBefore may be exactly instant 3)      only2   valid at 2 only
\* The first validation happens at instant 2; before every further validation of the same objects
\* Env moves the clock to any other instant (Tick).
Clocks  == {1, 2, 3}
Windows == {"all", "until1", "from3", "only2"}
TimeAt(w, c) == CASE w = "all"    -> "Valid"
                  [] w = "until1" -> IF c = 1 THEN "Valid" ELSE "Expired"
                  [] w = "from3"  -> IF c = 3 THEN "Valid" ELSE "NotYet"
                  [] w = "only2"  -> IF c = 2 THEN "Valid" ELSE IF c = 1 THEN "NotYet" ELSE "Expired"
                  [] OTHER        -> "na"
Namings == {"canon", "selfissued", "likeparent", "nomatch", "rootissuer", "dupsubject", "rootsubject"}
X509El(by, key, sigBy) == [kind |-> "x509", by |-> by, key |-> key, sigBy |-> sigBy, time |-> "Valid",
                           curve |-> "P256", binds |-> TRUE, keyValid |-> TRUE, naming |-> "canon",
                           win |-> "all", label |-> "plain"]
AttEl(by)   == [kind |-> "attkey", by |-> by, key |-> "att", sigBy |-> by, time |-> "na",
                curve |-> "P256", binds |-> TRUE, keyValid |-> TRUE, naming |-> "na", win |-> "na", label |-> "plain"]
QuoteEl(by) == [kind |-> "quote", by |-> by, key |-> NoKey, sigBy |-> by, time |-> "na",
                curve |-> "na", binds |-> TRUE, keyValid |-> TRUE, naming |-> "na", win |-> "na", label |-> "plain"]
GoodRot == [kind |-> "x509", by |-> RootName, key |-> RootName, sigBy |-> RootName, time |-> "Valid",
            curve |-> "P256", binds |-> TRUE, keyValid |-> TRUE, naming |-> "canon", win |-> "all", label |-> "plain"]

ParentOfX(i) == IF i = 1 THEN RootName ELSE XNames[i - 1]
\* d X.509 elements x1 (top) .. xd (certifies the attestation key), attestation key, quote, and
\* optionally an element off the target's path: "fresh" = an unrelated certificate issued by the
\* root; "twin" = a second certificate over the SAME key as xd, issued by xd's issuer.
\* An embedded root ("genuine": over the root's own key; "foreign": over somebody else's key) is an
\* element whose NAME is the reserved root name.  It is on nobody's path: the root of trust is the one
\* GIVEN to the validator (`rot`), never something found inside the certificate.
EmbKey(em) == IF em = "genuine" THEN RootName ELSE "foreign"
Base(d, sp, em) ==
    LET names == {XNames[i] : i \in 1..d} \cup {"att", Target} \cup (IF sp = "none" THEN {} ELSE {"spare"})
                 \cup (IF em = "none" THEN {} ELSE {RootName})
    IN [n \in names |->
          IF n = "att" THEN AttEl(XNames[d])
          ELSE IF n = Target THEN QuoteEl("att")
          ELSE IF n = RootName THEN X509El(RootName, EmbKey(em), EmbKey(em))
          ELSE IF n = "spare" THEN
                 (IF sp = "fresh" THEN X509El(RootName, "spare", RootName)
                  ELSE X509El(ParentOfX(d), XNames[d], ParentOfX(d)))
          ELSE LET i == CHOOSE j \in 1..d : XNames[j] = n IN X509El(ParentOfX(i), n, ParentOfX(i))]

Init == /\ \E d \in 1..MaxDepth, sp \in Spares, em \in Embeds :
              (sp = "none" \/ em = "none") /\ cert = Base(d, sp, em)
        /\ rot = GoodRot /\ ndef = 0 /\ nren = 0 /\ scale = "near" /\ len = "asis" /\ tz = "utc" /\ clks = <<2>> /\ outs = <<>>
        /\ phase = "env" /\ cur = None /\ visited = {} /\ chain = <<>> /\ certifier = None /\ steps = 0
        /\ outcome = None /\ failing = None /\ reported = None

(***************************************************************************)
(* Env: one defect per Mutate step (DESIGN: all combinations of            *)
(* <= MaxDefects defects, re-parenting, wrong root)                        *)
(***************************************************************************)
\* a validity window that does not cover all three instants (at instant 2: until1 = expired,
\* from3 = not yet valid, only2 = valid now but neither before nor after)
Clk == clks[Len(clks)]
\* a chain element (not the top one, not the element NAMED like the root) that IS the genuine root
\* certificate: carries the root's key, self-signed
IsRootCopy(n) == n # RootName /\ cert[n].kind = "x509" /\ cert[n].key = RootName
SetWindow(n, w) == /\ cert[n].kind = "x509" /\ cert[n].win = "all" /\ ~IsRootCopy(n)
                   /\ cert' = [cert EXCEPT ![n].win = w, ![n].time = TimeAt(w, Clk)] /\ UNCHANGED rot
\* the root of trust's own certificate has a window too (nothing in C07 depends on it, see ValidIffP)
SetRootWindow(w) == /\ rot.win = "all" /\ rot.kind = "x509" /\ \A n \in DOMAIN cert : ~IsRootCopy(n)
                    /\ rot' = [rot EXCEPT !.win = w, !.time = TimeAt(w, Clk)] /\ UNCHANGED cert
BadSig(n)      == /\ cert[n].sigBy # "other" /\ ~IsRootCopy(n)
                  /\ cert' = [cert EXCEPT ![n].sigBy = "other"] /\ UNCHANGED rot
\* the curve belongs to the key: every certificate over that key shows it
OtherCurve(n)  == /\ cert[n].kind = "x509" /\ cert[n].curve = "P256" /\ n # RootName /\ ~IsRootCopy(n)
                  /\ cert' = [m \in DOMAIN cert |->
                                IF cert[m].kind = "x509" /\ cert[m].key = cert[n].key
                                THEN [cert[m] EXCEPT !.curve = "Other"] ELSE cert[m]]
                  /\ rot' = IF rot.key = cert[n].key THEN [rot EXCEPT !.curve = "Other"] ELSE rot
Unbind(n)      == /\ cert[n].kind \in {"attkey", "quote"} /\ cert[n].binds
                  /\ cert' = [cert EXCEPT ![n].binds = FALSE] /\ UNCHANGED rot
BadKey(n)      == /\ cert[n].kind = "attkey" /\ cert[n].keyValid
                  /\ cert' = [cert EXCEPT ![n].keyValid = FALSE] /\ UNCHANGED rot
Reparent(n, m) == /\ m # cert[n].by
                  /\ cert' = [cert EXCEPT ![n].by = m] /\ UNCHANGED rot
\* another root certificate: over a key of nobody ("wrong"), or the top element's own certificate
\* handed over as the root of trust (a key of the chain, but not the root's)
\* ... or the foreign root that is also shipped inside the certificate
HasForeign     == RootName \in DOMAIN cert /\ cert[RootName].key = "foreign"
WrongRoot      == /\ rot.key = RootName
                  /\ \/ rot' = [rot EXCEPT !.key = "wrong"]
                     \/ rot' = [rot EXCEPT !.key = cert[XNames[1]].key, !.curve = cert[XNames[1]].curve]
                     \/ HasForeign /\ rot' = [rot EXCEPT !.key = "foreign"]
                     \* a root of trust of ANOTHER KIND (a version-1 root: a bare secp256k1 key)
                     \/ rot.win = "all" /\ rot' = [rot EXCEPT !.kind = "v1root", !.key = "wrong", !.curve = "Other"]
                  /\ UNCHANGED cert
\* the chain hangs from the foreign root: its top element is signed by the foreign root's key
ForgeTop       == /\ HasForeign /\ cert[XNames[1]].sigBy = RootName
                  /\ cert' = [cert EXCEPT ![XNames[1]].sigBy = "foreign"] /\ UNCHANGED rot

\* the names inside X.509 element n (one of x1..xd) are not the canonical ones
IsChainX(n)    == \E i \in 1..Len(XNames) : XNames[i] = n
OrigParentX(n) == LET i == CHOOSE j \in 1..Len(XNames) : XNames[j] = n IN ParentOfX(i)
DupCandidates(n) == {m \in DOMAIN cert : cert[m].kind = "x509" /\ m # n /\ m # OrigParentX(n)}
Rename(n, v)   == /\ IsChainX(n) /\ cert[n].naming = "canon" /\ ~IsRootCopy(n)
                  /\ v = "rootissuer" => n # XNames[1]
                  /\ v = "dupsubject" => DupCandidates(n) # {}
                  /\ cert' = [cert EXCEPT ![n].naming = v] /\ UNCHANGED rot

\* The genuine root certificate re-appears inside the chain, below the top: element n IS the root
\* certificate (root key, self-signed) and what it certifies is signed by the root key.  Its own link
\* does not verify (it is not signed by the element above it), so the target is not valid.
RootReappears(n) ==
    /\ IsChainX(n) /\ n # XNames[1] /\ ~IsRootCopy(n) /\ rot.win = "all" /\ rot.curve = "P256"
    /\ cert[n].win = "all" /\ cert[n].naming = "canon" /\ cert[n].curve = "P256" /\ cert[n].sigBy # "other"
    /\ "spare" \in DOMAIN cert => cert["spare"].key # cert[n].key
    /\ cert' = [m \in DOMAIN cert |->
                   IF m = n THEN [cert[m] EXCEPT !.key = RootName, !.sigBy = RootName]
                   ELSE IF cert[m].sigBy = cert[n].key THEN [cert[m] EXCEPT !.sigBy = RootName]
                   ELSE cert[m]]
    /\ UNCHANGED rot

\* A FORGED BRANCH under an element of another kind.  The chain stays genuine and certifies a genuine
\* attestation key "gatt" (and, for k = "quote", a genuine quote "gquote" signed by it); an X.509 element
\* "evil" names that non-X.509 element as its certifier (self-signed / really signed by gatt's key / by
\* a stranger), and the attestation key and the target quote hang from "evil".  An X.509 element is
\* valid only under the X.509 certificate that certifies it, so the target is not valid.
GraftNames == {"gatt", "gquote", "evil"}
Graft(k, sg) ==
    LET xd == cert["att"].by IN
    /\ "gatt" \notin DOMAIN cert /\ "spare" \notin DOMAIN cert /\ RootName \notin DOMAIN cert /\ len = "asis"
    /\ IsChainX(xd) /\ xd \in DOMAIN cert /\ cert["att"].sigBy = cert[xd].key
    /\ (sg = "certifier") => (k = "attkey")
    /\ LET under == IF k = "attkey" THEN "gatt" ELSE "gquote"
           names == DOMAIN cert \cup {"gatt", "evil"} \cup (IF k = "quote" THEN {"gquote"} ELSE {})
       IN cert' = [n \in names |->
             IF n = "gatt" THEN [AttEl(xd) EXCEPT !.key = "gatt", !.sigBy = cert[xd].key]
             ELSE IF n = "gquote" THEN [QuoteEl("gatt") EXCEPT !.sigBy = "gatt"]
             ELSE IF n = "evil" THEN X509El(under, "evil", IF sg = "self" THEN "evil"
                                                      ELSE IF sg = "certifier" THEN "gatt" ELSE "other")
             ELSE IF n = "att" THEN [cert[n] EXCEPT !.by = "evil", !.sigBy = "evil"]
             ELSE cert[n]]
    /\ UNCHANGED rot

Mutate == /\ phase = "env" /\ ndef < MaxDefects
          /\ nren > 0 => ndef < MaxWithRename
          /\ UNCHANGED nren
          /\ \/ \E n \in DOMAIN cert \ GraftNames :
                  \/ \E w \in Windows \ {"all"} : SetWindow(n, w)
                  \/ BadSig(n) \/ OtherCurve(n) \/ Unbind(n) \/ BadKey(n) \/ RootReappears(n)
                  \/ \E m \in DOMAIN cert \cup {RootName, Ghost} : n \notin {"spare", RootName} /\ Reparent(n, m)
             \/ WrongRoot \/ ForgeTop
             \/ \E k \in {"attkey", "quote"}, sg \in {"self", "certifier", "other"} : Graft(k, sg)
             \/ \E w \in Windows \ {"all"} : SetRootWindow(w)
          /\ ndef' = ndef + 1
          /\ UNCHANGED <<scale, len, tz, clks, outs, sysv, obsv>>

(***************************************************************************)
(* Sys: HSMCertificate._parse (path-to-root sanity check for the target)   *)
(***************************************************************************)
Finish(o, f, r) == phase' = "done" /\ outcome' = o /\ failing' = f /\ reported' = r

Start == /\ phase = "env"
         /\ phase' = "parse" /\ cur' = Target /\ visited' = {} /\ steps' = steps + 1
         /\ UNCHANGED <<envv, chain, certifier, obsv>>

ParseStep ==
    /\ phase = "parse" /\ steps' = steps + 1
    /\ IF cur \in visited
       THEN Finish("loaderror", None, None) /\ UNCHANGED <<cur, visited, chain>>
       ELSE IF cert[cur].by = RootName
       THEN phase' = "build" /\ cur' = Target /\ chain' = <<>> /\ UNCHANGED <<visited, obsv>>
       ELSE IF cert[cur].by \notin DOMAIN cert
       THEN Finish("loaderror", None, None) /\ UNCHANGED <<cur, visited, chain>>
       ELSE visited' = visited \cup {cur} /\ cur' = cert[cur].by /\ UNCHANGED <<phase, chain, obsv>>
    /\ UNCHANGED <<envv, certifier>>

(***************************************************************************)
(* Sys: validate_and_get_values - build the chain target -> top ...        *)
(***************************************************************************)
Build ==
    /\ phase = "build" /\ steps' = steps + 1
    /\ IF cert[cur].by = RootName
       THEN phase' = "walk" /\ certifier' = "ROT" /\ UNCHANGED <<cur, chain>>
       ELSE chain' = Append(chain, cur) /\ cur' = cert[cur].by /\ UNCHANGED <<phase, certifier>>
    /\ UNCHANGED <<envv, visited, obsv>>

(***************************************************************************)
(* ... then validate top -> leaf.  is_valid of each element class as coded:*)
(* "raise" stands for an exception, which every is_valid turns into False. *)
(***************************************************************************)
GetPubkey(c) == IF c.kind = "x509" THEN (IF c.curve = "P256" THEN c.key ELSE "raise")
                ELSE IF c.kind = "attkey" THEN (IF c.keyValid THEN c.key ELSE "raise")
                ELSE "raise"                         \* a quote cannot provide a public key
SysIsValid(e, c) ==
    IF e.kind = "x509" THEN
        IF c.kind # "x509" THEN FALSE                \* isinstance(certifier, type(self))
        ELSE IF e.time # "Valid" THEN FALSE          \* validity period
        ELSE e.sigBy = c.key                         \* issuer.public_key().verify(...) (any EC curve)
    ELSE IF e.kind = "attkey" THEN
        IF ~e.keyValid THEN FALSE                    \* self.key raises
        ELSE IF ~e.binds THEN FALSE                  \* report data
        ELSE LET k == GetPubkey(c) IN k # "raise" /\ e.sigBy = k
    ELSE
        IF ~e.binds THEN FALSE                       \* custom data
        ELSE LET k == GetPubkey(c) IN k # "raise" /\ e.sigBy = k

Walk ==
    /\ phase = "walk" /\ steps' = steps + 1
    /\ LET c == IF certifier = "ROT" THEN rot ELSE cert[certifier] IN
       IF ~SysIsValid(cert[cur], c)
       THEN Finish("invalid", cur, None) /\ UNCHANGED <<cur, chain, certifier>>
       ELSE IF chain = <<>>
       THEN Finish("valid", None, cur) /\ UNCHANGED <<cur, chain, certifier>>
       ELSE /\ certifier' = cur /\ cur' = chain[Len(chain)]
            /\ chain' = SubSeq(chain, 1, Len(chain) - 1) /\ UNCHANGED <<phase, obsv>>
    /\ UNCHANGED <<envv, visited>>

MutateName == /\ phase = "env" /\ ndef < MaxDefects /\ ndef < MaxWithRename /\ nren < MaxRenames
              /\ \E n \in DOMAIN cert, v \in Namings \ {"canon"} : Rename(n, v)
              /\ ndef' = ndef + 1 /\ nren' = nren + 1
              /\ UNCHANGED <<scale, len, tz, clks, outs, sysv, obsv>>

\* The validity DATES themselves (another choice the reference never reads, sharing the budget of the
\* namings): "near" = instants 1, 3 a few days before / after now and window ends within years of it;
\* "extreme" = instant 1 at 0001-01-01 / 1949-12-31 23:59:59 / 1950-01-01, instant 3 at 2049-12-31
\* 23:59:59 / 2050-01-01 / 9999-12-31 23:59:59 (the edges of UTCTime and GeneralizedTime), and every
\* window - of each X.509 element and of the root - begins / ends at those edge dates: notBefore =
\* 00010101000000Z, notAfter = 99991231235959Z ("no expiry"), notBefore = notAfter, one-second windows.
\* A certificate is inside its period iff notBefore <= now <= notAfter (both ends inclusive, as the
\* code compares), wherever on the calendar that is.
Stretch == /\ phase = "env" /\ ndef < MaxDefects /\ ndef < MaxWithRename /\ nren < MaxRenames
           /\ scale = "near" /\ scale' = "extreme"
           /\ ndef' = ndef + 1 /\ nren' = nren + 1
           /\ UNCHANGED <<cert, rot, len, tz, clks, outs, sysv, obsv>>

\* The machine's own time zone (again read by nobody: validity is about instants, X.509 dates are UTC):
\* UTC, UTC-8, UTC+9, UTC+14, UTC-12.  Combined with every window defect and clock position.
Zones == {"utc", "m8", "p9", "p14", "m12"}
Shift == /\ phase = "env" /\ ndef < MaxDefects /\ ndef < MaxWithRename /\ nren < MaxRenames
         /\ tz = "utc" /\ \E z \in Zones \ {"utc"} : tz' = z
         /\ ndef' = ndef + 1 /\ nren' = nren + 1
         /\ UNCHANGED <<cert, rot, scale, len, clks, outs, sysv, obsv>>

\* SCALE.  x1 .. xd stand for the top, (middle) and bottom of a chain that may be far longer: with
\* len = "long" runs of genuine X.509 elements (in period, canonically named, each signed by the one
\* above) sit between x1 and x2 and between x2 and x3, 254 .. 520 X.509 elements in all (the driver
\* picks 254, 255, 256, 257, 258, 300, 520 and puts 253 .. 255 of them below the middle).  Every link
\* of such a run verifies, so neither the reference verdict nor the walk's verdict can depend on its
\* length; the FULL concrete path is what TLC judges in TraceCertV2.
Lengthen == /\ phase = "env" /\ ndef < MaxDefects /\ ndef < MaxWithRename /\ nren < MaxRenames
            /\ len = "asis" /\ XNames[2] \in DOMAIN cert
            /\ "spare" \notin DOMAIN cert /\ RootName \notin DOMAIN cert /\ "gatt" \notin DOMAIN cert
            /\ len' = "long"
            /\ ndef' = ndef + 1 /\ nren' = nren + 1
            /\ UNCHANGED <<cert, rot, scale, tz, clks, outs, sysv, obsv>>

(***************************************************************************)
(* Env: time passes (or is set back) and the SAME loaded certificate object *)
(* and root element are asked again: validate_and_get_values starts over    *)
(* at the chain construction.  Only worth exploring when some window does   *)
(* not cover all instants.                                                  *)
(***************************************************************************)
TimeSensitive == rot.win # "all" \/ \E n \in DOMAIN cert : cert[n].kind = "x509" /\ cert[n].win # "all"
Retime(c, k) == [n \in DOMAIN c |-> IF c[n].kind = "x509" THEN [c[n] EXCEPT !.time = TimeAt(c[n].win, k)]
                                     ELSE c[n]]
Tick == /\ phase = "done" /\ outcome # "loaderror" /\ Len(clks) < MaxRounds /\ TimeSensitive
        /\ \E k \in Clocks \ {Clk} :
              /\ clks' = Append(clks, k)
              /\ cert' = Retime(cert, k) /\ rot' = [rot EXCEPT !.time = TimeAt(rot.win, k)]
        /\ outs' = Append(outs, outcome)
        /\ phase' = "build" /\ cur' = Target /\ chain' = <<>> /\ certifier' = None /\ steps' = 0
        /\ outcome' = None /\ failing' = None /\ reported' = None
        /\ UNCHANGED <<ndef, nren, scale, len, tz, visited>>

\* The NAME an element has in the file (`name`, and `signed_by` of what it certifies) is free in version 2,
\* except for the reserved "sgx_root".  label = "sub": the name is a proper substring of the reserved
\* name ("s", "x", "_", "root", "sgx", "sgx_", "_root", "gx_roo", "" ...); "odd": a super-string
\* ("sgx_root2", "xsgx_root"), a case variant ("SGX_ROOT"), a version-1 reserved word ("device", "ui",
\* "signer"), a name with blanks / non-ASCII characters, a very long name, or another element's name in
\* another case.  Names only link elements; no verdict may depend on how they are spelt.
Labels == {"plain", "sub", "odd"}
Relabel == /\ phase = "env" /\ ndef < MaxDefects /\ ndef < MaxWithRename /\ nren < MaxRenames
           /\ \E n \in DOMAIN cert \ ({RootName} \cup GraftNames), l \in Labels \ {"plain"} :
                 /\ cert[n].label = "plain" /\ cert' = [cert EXCEPT ![n].label = l]
           /\ ndef' = ndef + 1 /\ nren' = nren + 1
           /\ UNCHANGED <<rot, scale, len, tz, clks, outs, sysv, obsv>>

SysNext == Start \/ ParseStep \/ Build \/ Walk
Next == Mutate \/ MutateName \/ Stretch \/ Shift \/ Lengthen \/ Relabel \/ SysNext \/ Tick
Spec == Init /\ [][Next]_vars /\ WF_vars(Next)

(***************************************************************************)
(* Properties                                                              *)
(***************************************************************************)
Done == phase = "done"
\* C07: reported valid iff every element on the path verifies, the root of trust at the top
Agree == Done => ValidIffP(cert, rot, Target, outcome = "valid")
\* the value handed back is the target's own (its custom data and quote), nobody else's
ReportsTarget == outcome = "valid" => reported = Target
\* elements that are not on the target's path have no influence
OffPathIrrelevant ==
    (Done /\ Path(cert, Target) # <<>>) =>
        ((outcome = "valid") <=> SpecValid(Restrict(cert, PathSet(cert, Target)), rot, Target))
\* model of the code only (not demanded by C07): the element named is the first failing from the root
NamesFirstBad == outcome = "invalid" => failing = FirstBad(cert, rot, Target)
\* the names written inside the X.509 elements never matter
Canonical(c) == [n \in DOMAIN c |-> IF c[n].kind = "x509" THEN [c[n] EXCEPT !.naming = "canon"] ELSE c[n]]
NamesIrrelevant == Done => ((outcome = "valid") <=> SpecValid(Canonical(cert), rot, Target))
LoadErrorIffNoPath == Done => ((outcome = "loaderror") <=> (Path(cert, Target) = <<>>))
Bounded == steps <= 3 * Cardinality(DOMAIN cert) + 4
Terminates == <>Done

\* vacuity guards: a verdict that changes between two validations of the same object must occur
NeverChanges   == ~(Done /\ Len(outs) >= 1 /\ outs[Len(outs)] # outcome)
\* vacuity guards - each must be VIOLATED (negative configuration)
NeverValid     == outcome # "valid"
NeverInvalid   == outcome # "invalid"
NeverLoadError == outcome # "loaderror"
=============================================================================
