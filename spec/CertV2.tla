------------------------------- MODULE CertV2 -------------------------------
(***************************************************************************)
(* C07 - Env (who assembles a version-2 certificate: a genuine chain plus  *)
(* at most MaxDefects defects) || Sys (what admin/certificate_v1.py and    *)
(* certificate_v2.py do with it: `_parse` path check, chain construction   *)
(* target -> root, validation root -> leaf with the per-kind `is_valid`).  *)
(* The verdict of Sys is compared with the reference semantics of          *)
(* CertV2Props (`SpecValid`) on every certificate Env can produce.         *)
(***************************************************************************)
EXTENDS CertV2Props

CONSTANTS MaxDepth,      \* X.509 elements under the root of trust: 1..MaxDepth
          MaxDefects,    \* simultaneous Env choices that deviate from a genuine certificate
          MaxRenames,    \* of which at most this many are non-canonical NAMINGS of an X.509 element,
          MaxWithRename, \* and at most this many choices in total once a naming is non-canonical
          Spares,        \* subset of {"none", "fresh", "twin"}: off-path X.509 element
          Embeds         \* subset of {"none", "genuine", "foreign"}: a self-signed root certificate shipped
                         \* INSIDE the certificate as an element named like the root authority

Target == "quote"
XNames == <<"x1", "x2", "x3", "x4">>
Ghost  == "ghost"                        \* a name that no element has

VARIABLES cert, rot,                     \* env: the certificate and the root of trust handed over
          ndef, nren,                    \* env: deviations applied so far / of which namings
          phase, cur, visited, chain, certifier, steps,   \* sys
          outcome, failing, reported     \* obs: what the validator returns for the target
envv == <<cert, rot, ndef, nren>>
sysv == <<phase, cur, visited, chain, certifier, steps>>
obsv == <<outcome, failing, reported>>
vars == <<cert, rot, ndef, nren, phase, cur, visited, chain, certifier, steps, outcome, failing, reported>>

(***************************************************************************)
(* Env: genuine bases                                                      *)
(***************************************************************************)
\* `naming` (X.509 only) says which distinguished NAMES are written inside the certificate; the
\* signature is made by the key recorded in sigBy whatever the names say:
\*   canon        fresh subject, issuer = subject of the certifying certificate
\*   selfissued   fresh subject, issuer = that same subject
\*   likeparent   subject = issuer = subject of the certifying certificate (key-rollover style)
\*   nomatch      issuer = a name no certificate has
\*   rootissuer   issuer = the root's subject, on an element that is not the top one
\*   dupsubject   subject = subject of another X.509 element (not the certifying one)
\*   rootsubject  subject = the root's subject
\* Neither the property (CertV2Props never reads the field) nor the code looks at names.
Namings == {"canon", "selfissued", "likeparent", "nomatch", "rootissuer", "dupsubject", "rootsubject"}
X509El(by, key, sigBy) == [kind |-> "x509", by |-> by, key |-> key, sigBy |-> sigBy, time |-> "Valid",
                           curve |-> "P256", binds |-> TRUE, keyValid |-> TRUE, naming |-> "canon"]
AttEl(by)   == [kind |-> "attkey", by |-> by, key |-> "att", sigBy |-> by, time |-> "na",
                curve |-> "P256", binds |-> TRUE, keyValid |-> TRUE, naming |-> "na"]
QuoteEl(by) == [kind |-> "quote", by |-> by, key |-> NoKey, sigBy |-> by, time |-> "na",
                curve |-> "na", binds |-> TRUE, keyValid |-> TRUE, naming |-> "na"]
GoodRot == [kind |-> "x509", by |-> RootName, key |-> RootName, sigBy |-> RootName, time |-> "Valid",
            curve |-> "P256", binds |-> TRUE, keyValid |-> TRUE, naming |-> "canon"]

ParentOfX(i) == IF i = 1 THEN RootName ELSE XNames[i - 1]
\* d X.509 elements x1 (top) .. xd (certifies the attestation key), attestation key, quote, and
\* optionally an element off the target's path: "fresh" = an unrelated certificate issued by the
\* root; "twin" = a second certificate over the SAME key as xd, issued by xd's issuer.
\* An embedded root ("genuine": over the root's own key; "foreign": over somebody else's key) is an
\* element whose NAME is the reserved root name.  It is on nobody's path: the root of trust is the one
\* GIVEN to the validator (`rot`), never something found inside the certificate.
EmbKey(em) == IF em = "genuine" THEN RootName ELSE "foreign"
Base(d, sp, em) ==
    LET names == {XNames[i] : i \in 1..d} \cup {"att", Target} \cup (IF sp = "none" THEN {} ELSE {"spare"})
                 \cup (IF em = "none" THEN {} ELSE {RootName})
    IN [n \in names |->
          IF n = "att" THEN AttEl(XNames[d])
          ELSE IF n = Target THEN QuoteEl("att")
          ELSE IF n = RootName THEN X509El(RootName, EmbKey(em), EmbKey(em))
          ELSE IF n = "spare" THEN
                 (IF sp = "fresh" THEN X509El(RootName, "spare", RootName)
                  ELSE X509El(ParentOfX(d), XNames[d], ParentOfX(d)))
          ELSE LET i == CHOOSE j \in 1..d : XNames[j] = n IN X509El(ParentOfX(i), n, ParentOfX(i))]

Init == /\ \E d \in 1..MaxDepth, sp \in Spares, em \in Embeds :
              (sp = "none" \/ em = "none") /\ cert = Base(d, sp, em)
        /\ rot = GoodRot /\ ndef = 0 /\ nren = 0
        /\ phase = "env" /\ cur = None /\ visited = {} /\ chain = <<>> /\ certifier = None /\ steps = 0
        /\ outcome = None /\ failing = None /\ reported = None

(***************************************************************************)
(* Env: one defect per Mutate step (DESIGN: all combinations of            *)
(* <= MaxDefects defects, re-parenting, wrong root)                        *)
(***************************************************************************)
SetTime(n, v)  == /\ cert[n].kind = "x509" /\ cert[n].time = "Valid"
                  /\ cert' = [cert EXCEPT ![n].time = v] /\ UNCHANGED rot
BadSig(n)      == /\ cert[n].sigBy # "other"
                  /\ cert' = [cert EXCEPT ![n].sigBy = "other"] /\ UNCHANGED rot
\* the curve belongs to the key: every certificate over that key shows it
OtherCurve(n)  == /\ cert[n].kind = "x509" /\ cert[n].curve = "P256" /\ n # RootName
                  /\ cert' = [m \in DOMAIN cert |->
                                IF cert[m].kind = "x509" /\ cert[m].key = cert[n].key
                                THEN [cert[m] EXCEPT !.curve = "Other"] ELSE cert[m]]
                  /\ rot' = IF rot.key = cert[n].key THEN [rot EXCEPT !.curve = "Other"] ELSE rot
Unbind(n)      == /\ cert[n].kind \in {"attkey", "quote"} /\ cert[n].binds
                  /\ cert' = [cert EXCEPT ![n].binds = FALSE] /\ UNCHANGED rot
BadKey(n)      == /\ cert[n].kind = "attkey" /\ cert[n].keyValid
                  /\ cert' = [cert EXCEPT ![n].keyValid = FALSE] /\ UNCHANGED rot
Reparent(n, m) == /\ m # cert[n].by
                  /\ cert' = [cert EXCEPT ![n].by = m] /\ UNCHANGED rot
\* another root certificate: over a key of nobody ("wrong"), or the top element's own certificate
\* handed over as the root of trust (a key of the chain, but not the root's)
\* ... or the foreign root that is also shipped inside the certificate
HasForeign     == RootName \in DOMAIN cert /\ cert[RootName].key = "foreign"
WrongRoot      == /\ rot.key = RootName
                  /\ \/ rot' = [rot EXCEPT !.key = "wrong"]
                     \/ rot' = [rot EXCEPT !.key = cert[XNames[1]].key, !.curve = cert[XNames[1]].curve]
                     \/ HasForeign /\ rot' = [rot EXCEPT !.key = "foreign"]
                  /\ UNCHANGED cert
\* the chain hangs from the foreign root: its top element is signed by the foreign root's key
ForgeTop       == /\ HasForeign /\ cert[XNames[1]].sigBy = RootName
                  /\ cert' = [cert EXCEPT ![XNames[1]].sigBy = "foreign"] /\ UNCHANGED rot

\* the names inside X.509 element n (one of x1..xd) are not the canonical ones
IsChainX(n)    == \E i \in 1..Len(XNames) : XNames[i] = n
OrigParentX(n) == LET i == CHOOSE j \in 1..Len(XNames) : XNames[j] = n IN ParentOfX(i)
DupCandidates(n) == {m \in DOMAIN cert : cert[m].kind = "x509" /\ m # n /\ m # OrigParentX(n)}
Rename(n, v)   == /\ IsChainX(n) /\ cert[n].naming = "canon"
                  /\ v = "rootissuer" => n # XNames[1]
                  /\ v = "dupsubject" => DupCandidates(n) # {}
                  /\ cert' = [cert EXCEPT ![n].naming = v] /\ UNCHANGED rot

Mutate == /\ phase = "env" /\ ndef < MaxDefects
          /\ nren > 0 => ndef < MaxWithRename
          /\ UNCHANGED nren
          /\ \/ \E n \in DOMAIN cert :
                  \/ \E v \in {"Expired", "NotYet"} : SetTime(n, v)
                  \/ BadSig(n) \/ OtherCurve(n) \/ Unbind(n) \/ BadKey(n)
                  \/ \E m \in DOMAIN cert \cup {RootName, Ghost} : n \notin {"spare", RootName} /\ Reparent(n, m)
             \/ WrongRoot \/ ForgeTop
          /\ ndef' = ndef + 1
          /\ UNCHANGED <<sysv, obsv>>

(***************************************************************************)
(* Sys: HSMCertificate._parse (path-to-root sanity check for the target)   *)
(***************************************************************************)
Finish(o, f, r) == phase' = "done" /\ outcome' = o /\ failing' = f /\ reported' = r

Start == /\ phase = "env"
         /\ phase' = "parse" /\ cur' = Target /\ visited' = {} /\ steps' = steps + 1
         /\ UNCHANGED <<envv, chain, certifier, obsv>>

ParseStep ==
    /\ phase = "parse" /\ steps' = steps + 1
    /\ IF cur \in visited
       THEN Finish("loaderror", None, None) /\ UNCHANGED <<cur, visited, chain>>
       ELSE IF cert[cur].by = RootName
       THEN phase' = "build" /\ cur' = Target /\ chain' = <<>> /\ UNCHANGED <<visited, obsv>>
       ELSE IF cert[cur].by \notin DOMAIN cert
       THEN Finish("loaderror", None, None) /\ UNCHANGED <<cur, visited, chain>>
       ELSE visited' = visited \cup {cur} /\ cur' = cert[cur].by /\ UNCHANGED <<phase, chain, obsv>>
    /\ UNCHANGED <<envv, certifier>>

(***************************************************************************)
(* Sys: validate_and_get_values - build the chain target -> top ...        *)
(***************************************************************************)
Build ==
    /\ phase = "build" /\ steps' = steps + 1
    /\ IF cert[cur].by = RootName
       THEN phase' = "walk" /\ certifier' = "ROT" /\ UNCHANGED <<cur, chain>>
       ELSE chain' = Append(chain, cur) /\ cur' = cert[cur].by /\ UNCHANGED <<phase, certifier>>
    /\ UNCHANGED <<envv, visited, obsv>>

(***************************************************************************)
(* ... then validate top -> leaf.  is_valid of each element class as coded:*)
(* "raise" stands for an exception, which every is_valid turns into False. *)
(***************************************************************************)
GetPubkey(c) == IF c.kind = "x509" THEN (IF c.curve = "P256" THEN c.key ELSE "raise")
                ELSE IF c.kind = "attkey" THEN (IF c.keyValid THEN c.key ELSE "raise")
                ELSE "raise"                         \* a quote cannot provide a public key
SysIsValid(e, c) ==
    IF e.kind = "x509" THEN
        IF c.kind # "x509" THEN FALSE                \* isinstance(certifier, type(self))
        ELSE IF e.time # "Valid" THEN FALSE          \* validity period
        ELSE e.sigBy = c.key                         \* issuer.public_key().verify(...) (any EC curve)
    ELSE IF e.kind = "attkey" THEN
        IF ~e.keyValid THEN FALSE                    \* self.key raises
        ELSE IF ~e.binds THEN FALSE                  \* report data
        ELSE LET k == GetPubkey(c) IN k # "raise" /\ e.sigBy = k
    ELSE
        IF ~e.binds THEN FALSE                       \* custom data
        ELSE LET k == GetPubkey(c) IN k # "raise" /\ e.sigBy = k

Walk ==
    /\ phase = "walk" /\ steps' = steps + 1
    /\ LET c == IF certifier = "ROT" THEN rot ELSE cert[certifier] IN
       IF ~SysIsValid(cert[cur], c)
       THEN Finish("invalid", cur, None) /\ UNCHANGED <<cur, chain, certifier>>
       ELSE IF chain = <<>>
       THEN Finish("valid", None, cur) /\ UNCHANGED <<cur, chain, certifier>>
       ELSE /\ certifier' = cur /\ cur' = chain[Len(chain)]
            /\ chain' = SubSeq(chain, 1, Len(chain) - 1) /\ UNCHANGED <<phase, obsv>>
    /\ UNCHANGED <<envv, visited>>

MutateName == /\ phase = "env" /\ ndef < MaxDefects /\ ndef < MaxWithRename /\ nren < MaxRenames
              /\ \E n \in DOMAIN cert, v \in Namings \ {"canon"} : Rename(n, v)
              /\ ndef' = ndef + 1 /\ nren' = nren + 1
              /\ UNCHANGED <<sysv, obsv>>

SysNext == Start \/ ParseStep \/ Build \/ Walk
Next == Mutate \/ MutateName \/ SysNext
Spec == Init /\ [][Next]_vars /\ WF_vars(Next)

(***************************************************************************)
(* Properties                                                              *)
(***************************************************************************)
Done == phase = "done"
\* C07: reported valid iff every element on the path verifies, the root of trust at the top
Agree == Done => ValidIffP(cert, rot, Target, outcome = "valid")
\* the value handed back is the target's own (its custom data and quote), nobody else's
ReportsTarget == outcome = "valid" => reported = Target
\* elements that are not on the target's path have no influence
OffPathIrrelevant ==
    (Done /\ Path(cert, Target) # <<>>) =>
        ((outcome = "valid") <=> SpecValid(Restrict(cert, PathSet(cert, Target)), rot, Target))
\* model of the code only (not demanded by C07): the element named is the first failing from the root
NamesFirstBad == outcome = "invalid" => failing = FirstBad(cert, rot, Target)
\* the names written inside the X.509 elements never matter
Canonical(c) == [n \in DOMAIN c |-> IF c[n].kind = "x509" THEN [c[n] EXCEPT !.naming = "canon"] ELSE c[n]]
NamesIrrelevant == Done => ((outcome = "valid") <=> SpecValid(Canonical(cert), rot, Target))
LoadErrorIffNoPath == Done => ((outcome = "loaderror") <=> (Path(cert, Target) = <<>>))
Bounded == steps <= 3 * Cardinality(DOMAIN cert) + 4
Terminates == <>Done

\* vacuity guards - each must be VIOLATED (negative configuration)
NeverValid     == outcome # "valid"
NeverInvalid   == outcome # "invalid"
NeverLoadError == outcome # "loaderror"
=============================================================================
