SPECIFICATION Spec
CONSTANTS
  LBtc = 8
  LRcpt = 5
  LMp = 6
  MaxReq = 5
  MaxEmpty = 2
  Auth = FALSE
CHECK_DEADLOCK FALSE
INVARIANT DevPrefix
INVARIANT FinalVerdict
VIEW View
