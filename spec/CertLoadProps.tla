--------------------------- MODULE CertLoadProps ---------------------------
(***************************************************************************)
(* C16 - what "loading an attestation file ends with a usable verdict"     *)
(* means, on observables only.  Constants-free: shared by the model        *)
(* (CertLoad) and by the validation of executions of the real loaders      *)
(* (TraceCertLoad).                                                        *)
(*                                                                         *)
(* Observables of one document:                                            *)
(*   outcome  "error" | "loaded" | "hang"           (first load)           *)
(*   graph    the loaded certificate: targets : Seq(name), and a function  *)
(*            name -> [by |-> name of the certifier]; root = the name that *)
(*            stands for the root of trust                                 *)
(*   val      "map" | "raise" | "hang"   and  res: set of                  *)
(*            [target, valid, what]   (what = failing element / value)     *)
(*   save     "ok" | "raise" | "hang";  then the same for the second load  *)
(***************************************************************************)
EXTENDS Naturals, Sequences, FiniteSets, TLC

(***************************************************************************)
(* Spelling of hex-valued fields.  Established by running the unchanged    *)
(* loaders on every member for every hex field of both versions:           *)
(*   SpellAccepted  read as the very same bytes (and written back in the   *)
(*                  canonical spelling by version 2, verbatim by version 1)*)
(*   SpellRefused   the document is refused at load                        *)
(* One exception: a version-2 `auth_data` that is the EMPTY string is a    *)
(* legitimate value (zero bytes), not a spelling.  The property does not   *)
(* care which members are accepted - only that whatever loads keeps its    *)
(* verdicts and values across save ; load (JudgeRoundTrip); the table      *)
(* fixes what the model's loader does and what counts as model drift.      *)
(***************************************************************************)
SpellAccepted == {"lower", "upper", "mixed", "lead_blank", "trail_blank", "inner_blanks", "tabs",
                  "trail_newline"}
SpellRefused  == {"ws_only", "empty", "prefix_0x", "odd", "non_ascii", "split_pair", "nbsp"}

(* finite, cycle-free path from n to the root inside graph g *)
RECURSIVE ClimbOk(_, _, _, _)
ClimbOk(g, root, n, seen) ==
    IF n \notin DOMAIN g \/ n \in seen THEN FALSE
    ELSE IF g[n].by = root THEN TRUE
    ELSE ClimbOk(g, root, g[n].by, seen \cup {n})

HasPathR(g, root, x) == ClimbOk(g, root, x, {})
AcyclicP(g, root, targets) == \A i \in 1..Len(targets) : HasPathR(g, root, targets[i])

(* number of elements on the path (only meaningful when HasPathR) *)
RECURSIVE PathLen(_, _, _, _)
PathLen(g, root, n, fuel) == IF fuel = 0 \/ n \notin DOMAIN g THEN 0
                             ELSE IF g[n].by = root THEN 1
                             ELSE 1 + PathLen(g, root, g[n].by, fuel - 1)

TargetSet(targets) == {targets[i] : i \in 1..Len(targets)}
\* a verdict for every target, and for nothing else
CoversP(targets, res) == {r.target : r \in res} = TargetSet(targets)
\* one verdict per target
FunctionalP(res) == \A r1, r2 \in res : r1.target = r2.target => r1 = r2

\* the clauses of C16 for one document, in the order they are reported; "" = holds
JudgeLoad(o) ==
    IF o.outcome = "hang" THEN "LoadTerminates"
    ELSE IF o.outcome = "error" THEN ""
    ELSE IF ~AcyclicP(o.graph, o.root, o.targets) THEN "LoadedImpliesAcyclic"
    ELSE IF o.val = "hang" THEN "ValidationTerminates"
    ELSE IF o.val # "map" \/ ~CoversP(o.targets, o.res) \/ ~FunctionalP(o.res) THEN "VerdictForEveryTarget"
    ELSE ""

JudgeRoundTrip(o1, save, o2) ==
    IF save = "hang" \/ o2.outcome = "hang" \/ o2.val = "hang" THEN "RoundTripTerminates"
    ELSE IF save # "ok" THEN "SavedCertificateCanBeWritten"
    ELSE IF o2.outcome # "loaded" THEN "SavedCertificateLoadsAgain"
    ELSE IF o2.val # "map" \/ o2.res # o1.res THEN "RoundTripSameVerdictsAndValues"
    ELSE ""
=============================================================================
