SPECIFICATION Spec
CONSTANTS
  Cmds = {"version", "getPubKey", "sign_v1"}
  MaxConnFail = 2
  NInit = 4
  BTimeouts = {0, 2, 3, 4}
  DevErrAbs = 2
CHECK_DEADLOCK FALSE
INVARIANT NoViolation
INVARIANT EmitB
