SPECIFICATION FairSpec
CONSTANTS
  Names = {"device", "attestation", "ui"}
  MaxTargets = 1
  MaxCorr = 1
  CorrKinds = {"sigFlip"}
  Shapes = {}
  MaxShape = 0
  ShapeWithCorr = FALSE
  MaxOps = 2
  OpKinds = {"validate", "passive", "clear", "addtarget", "addel"}
  Origins = {"loaded"}
  TweakChoice = {"plain"}
INVARIANT Agree
INVARIANT AgreeJudge
INVARIANT Bounded
INVARIANT BudgetOk
INVARIANT EmitB
PROPERTY Stable
PROPERTY Terminates
CHECK_DEADLOCK FALSE
