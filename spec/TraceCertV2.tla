---------------------------- MODULE TraceCertV2 ----------------------------
(* Judges executions of the real validator (HSMCertificate.from_jsonfile →  *)
(* validate_and_get_values(root)) against the reference semantics of        *)
(* CertV2Props.  One trace =                                                *)
(*   [id, cert : name -> element, rot, target,                              *)
(*    loaded, valid : BOOLEAN, failing : name | "none",                     *)
(*    reported, signed : [custom, quote : Seq(0..255), fields, dict_fields :  *)
(*                        name -> Seq]]  (<<256>> = value unreadable)       *)
(* `cert`/`rot` are the abstract certificate the concrete one was built     *)
(* from; `signed` comes from the builder's structured input; `reported` is  *)
(* what the code handed back.  `at` = 1 flags model drift (the failing      *)
(* element named by the code is not the first failing one from the root) -  *)
(* not a property of C07.                                                   *)
EXTENDS CertV2Props, TraceLib

VARIABLES tid, l, bad
tvars == <<tid, l, bad>>

T == Traces[tid]
Kinds == {"x509", "attkey", "quote"}
ElemFields == {"kind", "by", "key", "sigBy", "time", "curve", "binds", "keyValid"}
WellFormed ==
    /\ \A n \in DOMAIN T.cert :
          /\ ElemFields \subseteq DOMAIN T.cert[n]
          /\ T.cert[n].kind \in Kinds
          /\ T.cert[n].binds \in BOOLEAN /\ T.cert[n].keyValid \in BOOLEAN
          /\ T.cert[n].time \in {"Valid", "Expired", "NotYet", "na"}
    /\ T.rot.kind \in {"x509", "v1root"} /\ {"key", "curve"} \subseteq DOMAIN T.rot
    /\ T.valid \in BOOLEAN /\ T.loaded \in BOOLEAN
    /\ T.valid => T.loaded

Drift == IF T.loaded /\ ~T.valid /\ T.failing # FirstBad(T.cert, T.rot, T.target) THEN 1 ELSE 0

TInit == tid \in 1..Len(Traces) /\ l = 1 /\ bad = ""
Judge == /\ l = 1
         /\ bad' = IF ~WellFormed THEN "Malformed"
                   ELSE IF ~ValidIffP(T.cert, T.rot, T.target, T.valid) THEN "ValidIff"
                   ELSE IF ~ReportedExactP(T.valid, T.reported, T.signed) THEN "ReportedExact"
                   ELSE ""
         /\ l' = 2 /\ UNCHANGED tid
TNext == Judge
TSpec == TInit /\ [][TNext]_tvars

Monitor == (l = 2) => Verdict(T.id, bad = "", bad, IF bad = "" THEN Drift ELSE 0)
=============================================================================
