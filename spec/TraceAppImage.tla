--------------------------- MODULE TraceAppImage ---------------------------
(* Validates what the real tooling did (compute_app_hash, `signapp hash`,   *)
(* signonetime) against the definitions of AppImageProps.                   *)
(*                                                                          *)
(* kind "layout": one .hex file.                                            *)
(*   [id, kind, small, mayrefuse, areas, file, oin, hins, expected, reports]*)
(*   areas    the generator's area list [z, o, d] (small images only)       *)
(*   file     the records written, in file order   (small images only)      *)
(*   oin      the bytes the harness oracle hashed  (small images only)      *)
(*   hins     the byte strings the code under test fed to SHA-256, as       *)
(*            recorded at admin.ledger_utils.sha256 (small images only)     *)
(*   expected the oracle digest, Seq(0..255)                                *)
(*   tlen, tthr, tside  the size of the file as text, and the threshold it   *)
(*            was built to lie just "below" / "above" ("none": not scaled)  *)
(*   total    the size of the image (sum of the generator's area lengths)   *)
(*   hinlens  the number of bytes each hashing call fed to SHA-256 (every   *)
(*            image, whatever its size)                                     *)
(*   reports  [via, ok, digest]: what compute_app_hash returned, what       *)
(*            `signapp hash` and signonetime printed                        *)
(*   pareas   (parsed = TRUE) the area list ledgerblue's IntelHexParser     *)
(*            built for the file, as observed by the harness: compared with *)
(*            the model parser's; a difference is reported as drift in the  *)
(*            clause field of an accepting verdict, never as a violation    *)
(*   step 0 judges the structure, step k the k-th report.                   *)
(* kind "session": repeated signonetime runs in one directory.              *)
(*   [id, kind, contents, expected, runs]; a run is the record described    *)
(*   in AppImageProps plus hashes = [img, ok, digest] printed by the run.   *)
(*   step k judges run k.                                                   *)
(* kind "auth": repeated `signapp message` invocations in one directory.    *)
(*   [id, kind, contents, expected, steps]; a step is the record described  *)
(*   in AppImageProps section 3 (hash = the embedded hash as Seq(0..255)).  *)
(*   step k judges invocation k: what it printed / what the -o path holds   *)
(*   right after it must embed the hash of the image given to it.           *)
(* Clauses named "Machinery:..." say that the harness (writer, oracle) and  *)
(* the specification disagree -- never a verdict about the code.            *)
EXTENDS AppImageProps, TraceLib

VARIABLES tid, l, obs, bad, note
tvars == <<tid, l, obs, bad, note>>

T == Traces[tid]
IsLayout == T.kind = "layout"
IsAuth   == T.kind = "auth"
Last == IF IsLayout THEN Len(T.reports) ELSE IF IsAuth THEN Len(T.steps) ELSE Len(T.runs)

TInit == /\ tid \in 1..Len(Traces) /\ obs = InitObs /\ bad = "" /\ note = ""
         /\ l = IF Traces[tid].kind = "layout" THEN 0 ELSE 1

AreaSet == RangeOf(T.areas)

StructClauses == (IF ~T.small THEN <<>> ELSE <<
    <<"Machinery:FileParses",  T.mayrefuse \/ ParseOk(T.file)>>,
    <<"Machinery:FileIsImage", ParseOk(T.file) => HashInputOf(T.file) = ConcatSorted(AreaSet)>>,
    <<"Machinery:OracleInput", T.oin = ConcatSorted(AreaSet)>>,
    <<"HashInputOk",           \A i \in DOMAIN T.hins : HashInputOkP(AreaSet, T.hins[i])>> >>) \o <<
    <<"Machinery:TextSide",    /\ (T.tside = "below") => (T.tlen <= T.tthr /\ T.tlen + 1100 > T.tthr)
                               /\ (T.tside = "above") => (T.tlen > T.tthr /\ T.tlen < T.tthr + 1100)>>,
    <<"HashedLength",          \A i \in DOMAIN T.hinlens : HashedLengthP(T.total, T.hinlens[i])>> >>

\* is the library the parser the model says it is?  (drift, not a verdict)
DriftNote == IF ~T.small THEN ""
             ELSE LET pm == PFold(PInit, T.file) IN
                  IF T.parsed = pm.err THEN "Drift:ParserRefusal"
                  ELSE IF T.parsed /\ PAreas(pm) # T.pareas THEN "Drift:ParserAreas"
                  ELSE ""

ReportClauses(r) == <<
    <<"HashReported", r.ok \/ T.mayrefuse>>,
    <<"DigestOk",     DigestOkP(T.expected, r)>> >>

RunOf(r) == [imgs |-> r.imgs, pub |-> r.pub, gens |-> r.gens, exit |-> r.exit,
             files |-> RangeOf(r.files), outleak |-> r.outleak]

SessionClauses(o, r) ==
    RunClauses(o, RunOf(r), T.contents) \o <<
    <<"DigestOk", \A i \in DOMAIN r.hashes :
                     DigestOkP(T.expected[T.contents[r.hashes[i].img]], r.hashes[i])>> >>

Step == /\ bad = "" /\ l <= Last
        /\ IF IsLayout
           THEN /\ bad' = FirstFail(IF l = 0 THEN StructClauses ELSE ReportClauses(T.reports[l]))
                /\ obs' = obs
                /\ note' = IF l = 0 THEN DriftNote ELSE note
           ELSE IF IsAuth
           THEN /\ bad' = FirstFail(AuthClauses(T.steps[l], T.expected[T.contents[T.steps[l].img]]))
                /\ obs' = obs /\ note' = note
           ELSE /\ bad' = FirstFail(SessionClauses(obs, T.runs[l]))
                /\ obs' = ObserveRun(obs, RunOf(T.runs[l]))
                /\ note' = note
        /\ l' = l + 1 /\ UNCHANGED tid

TNext == Step
TSpec == TInit /\ [][TNext]_tvars

Monitor == /\ (bad # "") => Verdict(T.id, FALSE, bad, l - 1)
           /\ (bad = "" /\ l = Last + 1) => Verdict(T.id, TRUE, note, l - 1)
=============================================================================
