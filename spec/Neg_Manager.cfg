SPECIFICATION Spec
CONSTANTS
  MaxReqs = 3
  V1 = FALSE
CHECK_DEADLOCK FALSE
INVARIANT NeverStops
VIEW View
