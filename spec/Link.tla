-------------------------------- MODULE Link --------------------------------
(***************************************************************************)
(* Env || Sys model for C11.  Sys: the _comm_issue flag, ensure_connection *)
(* (disconnect ; initialize_device), the per-command exchange loop and the *)
(* classification of transport failures in _send_command.  Env: one        *)
(* injected fault (kind, position) in the first request, the number of     *)
(* consecutive connect failures afterwards, the follow-up requests.        *)
(* Commands are abstract: a name, the number of exchanges of its scenario  *)
(* (DESIGN.md Appendix D), whether it touches the device at all.           *)
(***************************************************************************)
EXTENDS LinkProps

CONSTANTS Cmds, MaxConnFail, NInit, DevErrAbs,
          BTimeouts   \* bring-up exchange (of the first reconnection that opens) at which a time-out is injected; 0 = none
DevErr == 0 - DevErrAbs

StepsOf(c) == CASE c = "version" -> 0 [] c = "getPubKey" -> 1 [] c = "sign_hash" -> 1
                [] c = "sign_v1" -> 1 [] c = "sign_legacy" -> 16 [] c = "sign_segwit" -> 8
                [] c = "advanceBlockchain" -> 17 [] c = "updateAncestorBlock" -> 13
                [] c = "resetAdvanceBlockchain" -> 1 [] c = "blockchainState" -> 9
                [] c = "blockchainParameters" -> 1 [] c = "signerHeartbeat" -> 5
                [] c = "uiHeartbeat" -> 10
\* uiHeartbeat exchanges 2 and 9 (1-based) are EXIT: the device answers by dropping the link, which
\* the code treats as success; link errors are not injected there (time-outs are).
ExitStep(c, k) == c = "uiHeartbeat" /\ k \in {2, 9}
Kinds == {"write", "read", "timeout", "connfail"}
\* "connfail": only at the EXIT exchanges of uiHeartbeat - the device drops off the bus as it always does there, but
\* is not back yet when the command re-opens the link one second later

VARIABLES pc, commIssue, cmd, k, reqNo, fault, connFail, obs, bad, plan, bfault
vars == <<pc, commIssue, cmd, k, reqNo, fault, connFail, obs, bad, plan, bfault>>
\* fault: the single injected fault [pos, kind] (pos = 0: none left)

E0(kind) == [k |-> kind, ok |-> "t", init |-> 0, fault |-> "none", code |-> 0, hascode |-> TRUE,
             shutdown |-> FALSE]
Emit(e) == LET n == Observe(obs, e, NInit) IN
           /\ obs' = n
           /\ bad' = IF bad # "" THEN bad ELSE FirstFailL(Clauses(obs, n, e, DevErr))

Init == /\ pc = "idle" /\ commIssue = FALSE /\ cmd = "none" /\ k = 0 /\ reqNo = 0
        /\ \E c \in Cmds : StepsOf(c) > 0 /\
             \E p \in 1..StepsOf(c), kd \in Kinds :
                /\ ~(ExitStep(c, p) /\ kd \notin {"timeout", "connfail"})
                /\ (kd = "connfail" => ExitStep(c, p))
                /\ fault = [pos |-> p, kind |-> kd]
                /\ \E cf \in 0..MaxConnFail, f \in Cmds, bt \in BTimeouts :
                     /\ connFail = cf /\ bfault = bt
                     /\ plan = [cmd |-> c, pos |-> p, kind |-> kd, connfail |-> cf, follow |-> f, btimeout |-> bt]
        /\ obs = InitObs /\ bad = ""

\* request 1 is the faulted command; later requests are the follow-up command, repeated
Begin == /\ pc = "idle" /\ reqNo < 2 + MaxConnFail + (IF plan.btimeout > 0 THEN 1 ELSE 0)
         /\ reqNo' = reqNo + 1 /\ k' = 0
         /\ cmd' = IF reqNo = 0 THEN plan.cmd ELSE plan.follow
         /\ Emit(E0("req"))
         /\ pc' = IF StepsOf(cmd') = 0 THEN "finish" ELSE IF commIssue THEN "close" ELSE "cmd"
         /\ UNCHANGED <<commIssue, fault, connFail, plan, bfault>>

\* ensure_connection: disconnect() ...
Close == /\ pc = "close" /\ Emit(E0("close")) /\ pc' = "open"
         /\ UNCHANGED <<commIssue, cmd, k, reqNo, fault, connFail, plan, bfault>>
\* ... connect() inside initialize_device(): a failure is reported as a device error, flag stays set
Open == /\ pc = "open"
        /\ IF connFail > 0
           THEN /\ connFail' = connFail - 1 /\ Emit([E0("open") EXCEPT !.ok = "f"]) /\ pc' = "failreply"
           ELSE /\ Emit(E0("open")) /\ pc' = "bringup" /\ UNCHANGED connFail
        /\ UNCHANGED <<commIssue, cmd, k, reqNo, fault, plan, bfault>>
FailReply == /\ pc = "failreply" /\ Emit([E0("reply") EXCEPT !.code = DevErr]) /\ pc' = "idle"
             /\ UNCHANGED <<commIssue, cmd, k, reqNo, fault, connFail, plan, bfault>>
\* the bring-up exchanges, one action each; the flag is cleared only when all of them succeeded
\* A time-out inside the repeated bring-up (GET_MODE, version, GET_PARAMETERS) is not an HSM2ProtocolError:
\* it leaves ensure_connection as it is, the command handler answers the device error, the flag stays set
\* and the next request starts the repair again.
Bringup == /\ pc = "bringup" /\ k < NInit
           /\ IF bfault = k + 1
              THEN /\ Emit([E0("apdu") EXCEPT !.init = k + 1, !.fault = "timeout"])
                   /\ bfault' = 0 /\ pc' = "faultreply" /\ UNCHANGED <<k, commIssue>>
              ELSE /\ Emit([E0("apdu") EXCEPT !.init = k + 1])
                   /\ k' = k + 1 /\ UNCHANGED bfault
                   /\ IF k + 1 = NInit THEN commIssue' = FALSE /\ pc' = "cmd0" ELSE UNCHANGED <<commIssue, pc>>
           /\ UNCHANGED <<cmd, reqNo, fault, connFail, plan>>
CmdStart == /\ pc = "cmd0" /\ k' = 0 /\ pc' = "cmd"
            /\ UNCHANGED <<commIssue, cmd, reqNo, fault, connFail, obs, bad, plan, bfault>>

\* the in-command re-opening that fails: drop (normal), close, open(fail) -> HSM2DongleCommError -> flag set, device error
ExitDrop == /\ pc = "cmd" /\ k < StepsOf(cmd) /\ reqNo = 1 /\ fault.pos = k + 1 /\ fault.kind = "connfail"
            /\ Emit([E0("apdu") EXCEPT !.fault = "drop"]) /\ pc' = "exitclose"
            /\ UNCHANGED <<commIssue, cmd, k, reqNo, fault, connFail, plan, bfault>>
ExitClose == /\ pc = "exitclose" /\ Emit(E0("close")) /\ pc' = "exitopen"
             /\ UNCHANGED <<commIssue, cmd, k, reqNo, fault, connFail, plan, bfault>>
ExitOpenFail == /\ pc = "exitopen" /\ Emit([E0("open") EXCEPT !.ok = "f"])
                /\ fault' = [fault EXCEPT !.pos = 0] /\ commIssue' = TRUE /\ pc' = "faultreply"
                /\ UNCHANGED <<cmd, k, reqNo, connFail, plan, bfault>>

Exchange == /\ pc = "cmd" /\ k < StepsOf(cmd) /\ ~(reqNo = 1 /\ fault.pos = k + 1 /\ fault.kind = "connfail")
            /\ IF reqNo = 1 /\ fault.pos = k + 1
               THEN /\ Emit([E0("apdu") EXCEPT !.fault = fault.kind])
                    /\ fault' = [fault EXCEPT !.pos = 0]
                    /\ commIssue' = (fault.kind # "timeout")
                    /\ pc' = "faultreply" /\ UNCHANGED k
               ELSE /\ Emit([E0("apdu") EXCEPT !.fault = IF ExitStep(cmd, k + 1) THEN "drop" ELSE "none"])
                    /\ k' = k + 1 /\ UNCHANGED <<fault, commIssue, pc>>
            /\ UNCHANGED <<cmd, reqNo, connFail, plan, bfault>>
FaultReply == /\ pc = "faultreply" /\ Emit([E0("reply") EXCEPT !.code = DevErr]) /\ pc' = "idle"
              /\ UNCHANGED <<commIssue, cmd, k, reqNo, fault, connFail, plan, bfault>>
Finish == /\ pc \in {"cmd", "finish"} /\ k = StepsOf(cmd)
          /\ Emit([E0("reply") EXCEPT !.code = 0]) /\ pc' = "idle"
          /\ UNCHANGED <<commIssue, cmd, k, reqNo, fault, connFail, plan, bfault>>

Next == ExitDrop \/ ExitClose \/ ExitOpenFail \/ Begin \/ Close \/ Open \/ FailReply \/ Bringup \/ CmdStart \/ Exchange \/ FaultReply \/ Finish
Spec == Init /\ [][Next]_vars

NoViolation == bad = ""
\* vacuity guards (negative configurations): a repair is really owed / really performed somewhere
NeverOwed    == ~obs.owed
NeverRepairs == ~(obs.phase = "inited")
Done == pc = "idle" /\ reqNo = 2 + MaxConnFail + (IF plan.btimeout > 0 THEN 1 ELSE 0)
=============================================================================
