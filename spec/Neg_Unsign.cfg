SPECIFICATION Spec
CONSTANTS
  MaxOps = 2
  NIns = 1
CHECK_DEADLOCK FALSE
INVARIANT NeverDiffers
