-------------------------------- MODULE Unsign --------------------------------
(***************************************************************************)
(* Algebraic properties of Unsign over every small transaction: 1 or 2     *)
(* inputs, scripts of 1..MaxOps operations over an alphabet with every     *)
(* push encoding and payload-length class; the second transaction drifts   *)
(* away from the first only in non-final operations.                       *)
(* Payloads are symbolic: <<class, id>>, class = length class.             *)
(***************************************************************************)
EXTENDS UnsignProps, FiniteSets
CONSTANTS MaxOps, NIns, Vers

\* payload classes: 0 empty, 1 short (1..75), 2 medium (76..255), 3 long (256..65535)
ModelLen(d) == CASE d[1] = 0 -> 0 [] d[1] = 1 -> 1 [] d[1] = 2 -> 76 [] d[1] = 3 -> 256
Pushes == {[k |-> "push", d |-> <<1, 7>>, e |-> "direct"], [k |-> "push", d |-> <<1, 7>>, e |-> "pd1"],
           [k |-> "push", d |-> <<1, 8>>, e |-> "pd2"], [k |-> "push", d |-> <<1, 7>>, e |-> "pd4"],
           [k |-> "push", d |-> <<2, 7>>, e |-> "pd1"], [k |-> "push", d |-> <<2, 7>>, e |-> "pd2"],
           [k |-> "push", d |-> <<3, 7>>, e |-> "pd2"], [k |-> "push", d |-> <<3, 7>>, e |-> "pd4"],
           [k |-> "push", d |-> <<0, 0>>, e |-> "pd1"]}
Ops == Pushes \cup {Op0, [k |-> "small", d |-> <<5>>, e |-> "-"], [k |-> "neg1", d |-> <<>>, e |-> "-"],
                    [k |-> "opcode", d |-> <<172>>, e |-> "-"]}
Scripts == UNION {[1..n -> Ops] : n \in 1..MaxOps}
Ins == [prev : {<<1>>, <<2>>}, ops : Scripts, seq : {<<9>>}]
Txs == [ver : Vers, ins : [1..NIns -> Ins], outs : {<<3>>}, lock : {<<4>>}]

VARIABLES tx, tx2
vars == <<tx, tx2>>
Init == tx \in Txs /\ tx2 = tx
MutateNonFinal == /\ \E i \in 1..Len(tx2.ins) : \E j \in 1..(Len(tx2.ins[i].ops) - 1) : \E o \in Ops :
                       tx2' = [tx2 EXCEPT !.ins[i].ops[j] = o]
                  /\ UNCHANGED tx
Spec == Init /\ [][MutateNonFinal]_vars

U(t) == Unsign(t, ModelLen)
Idempotent == U(U(tx)) = U(tx)
SigIndependent == SameButNonFinal(tx, tx2) => U(tx) = U(tx2)
PreservesRest == LET u == U(tx) IN
                 /\ u.ver = tx.ver /\ u.outs = tx.outs /\ u.lock = tx.lock /\ Len(u.ins) = Len(tx.ins)
                 /\ \A i \in 1..Len(tx.ins) :
                      /\ u.ins[i].prev = tx.ins[i].prev /\ u.ins[i].seq = tx.ins[i].seq
                      /\ Len(u.ins[i].ops) = Len(tx.ins[i].ops)
                      /\ \A j \in 1..(Len(u.ins[i].ops) - 1) : u.ins[i].ops[j] = Op0
\* vacuity guard: the drift really produces different transactions
NeverDiffers == tx2 = tx
=============================================================================
