SPECIFICATION Spec
CONSTANTS
  Platforms = {"ledger", "sgx"}
  MaxDev = 1
  MaxFileMut = 1
  Sep = TRUE
  FullExt = 1
  Wildcard = TRUE
INVARIANT ReturnIffOk
CHECK_DEADLOCK FALSE
