SPECIFICATION Spec
CONSTANTS
  Images <- ImagesSmall
  R = 2
  ExtraEla = 1
  Contents <- Contents3
  ImgLists <- Lists3x2
  PubPaths = {1, 2}
  MaxRuns = 2
  Modes = {"sign"}
  Variant = "leak"
INVARIANT PrivNotWritten
CHECK_DEADLOCK FALSE
