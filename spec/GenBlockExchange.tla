------------------------- MODULE GenBlockExchange -------------------------
EXTENDS BlockExchange, Json
EmitB == Done => PrintT("B " \o ToJson([script |-> script, res |-> res]))
=============================================================================
