----------------------------- MODULE GenManager -----------------------------
EXTENDS Manager, Json
EmitB == (pc \in {"exited"} \/ (pc = "serving" /\ n = MaxReqs)) =>
            PrintT("B " \o ToJson([should |-> should, plan |-> plan, final |-> pc]))
=============================================================================
