----------------------------- MODULE GenAdmin -----------------------------
(* Generation configuration of Admin: prints every complete behaviour.     *)
EXTENDS Admin, Json
EmitB == Terminal => PrintT("B " \o ToJson([cfg |-> cfg, env |-> env, hist |-> hist,
                                              outcome |-> outcome]))
=============================================================================
