SPECIFICATION Spec
CONSTANTS
  MaxSigs = 4
  MaxSteps = 3
  MaxOps = 3
  Tools = {"none", "key", "eth", "manual_ok", "manual_bad", "manual_spell", "message", "eth_pub"}
INVARIANT AuthorizedIffK
INVARIANT EmitB
CHECK_DEADLOCK FALSE
