SPECIFICATION Spec
CONSTANTS
  MaxSigs = 4
  Tools = {"none", "key", "eth", "manual_ok", "manual_bad", "manual_spell"}
INVARIANT AuthorizedIffK
INVARIANT EmitB
CHECK_DEADLOCK FALSE
