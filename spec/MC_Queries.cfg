SPECIFICATION Spec
INVARIANT Wiring
INVARIANT UiHbBack
CHECK_DEADLOCK FALSE
