----------------------------- MODULE TraceConc -----------------------------
(* trace = [id, ev : Seq([k, r, t, m])] — globally ordered log recorded in the manager process *)
EXTENDS ConcProps, TraceLib
VARIABLES tid, l, obs, bad
tvars == <<tid, l, obs, bad>>
T == Traces[tid]
EvOf(e) == [k |-> e.k, r |-> e.r, t |-> e.t, m |-> e.m]
TInit == tid \in 1..Len(Traces) /\ l = 1 /\ obs = InitObs /\ bad = ""
Step == /\ bad = "" /\ l <= Len(T.ev)
        /\ LET e == EvOf(T.ev[l])
               n == Observe(obs, e) IN
             /\ obs' = n /\ bad' = FirstFailC(Clauses(obs, n, e))
        /\ l' = l + 1 /\ UNCHANGED tid
TSpec == TInit /\ [][Step]_tvars
Monitor == /\ (bad # "") => Verdict(T.id, FALSE, bad, l - 1)
           /\ (bad = "" /\ l = Len(T.ev) + 1) => Verdict(T.id, TRUE, "", l - 1)
=============================================================================
