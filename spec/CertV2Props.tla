----------------------------- MODULE CertV2Props -----------------------------
(***************************************************************************)
(* C07 - reference semantics of a version-2 (SGX) attestation certificate. *)
(* Constants-free: the same definitions are the invariants of the model    *)
(* (CertV2) and the judge of every execution recorded from the real code   *)
(* (TraceCertV2).                                                          *)
(*                                                                         *)
(* Symbolic cryptography (DESIGN 3.3).  A key is identified by the name of *)
(* the element that carries it ("sgx_root" for the genuine root of trust,  *)
(* "wrong" for any other root certificate, "other" for a key that belongs  *)
(* to nobody in the certificate).  A signature is identified by the key    *)
(* that produced it over the element's present message: `sigBy`.  A        *)
(* signature over another message, a flipped signature byte and a flipped  *)
(* message byte are all `sigBy = "other"`: nobody's key yields that        *)
(* (signature, message) pair.  Hashes are perfect: `binds` says whether    *)
(* report_data[0..31] is SHA-256 of the prescribed input.                  *)
(*                                                                         *)
(* An element is a record with the same fields for every kind              *)
(*   kind     "x509" | "attkey" | "quote"                                  *)
(*   by       name of the certifying element (RootName for the top)        *)
(*   key      the key the element carries ("nokey" for a quote)            *)
(*   sigBy    the key that signed its present message                      *)
(*   time     x509: "Valid" | "Expired" | "NotYet";   "na" otherwise       *)
(*   curve    x509: "P256" | "Other"; attkey: "P256"; quote: "na"          *)
(*   binds    attkey: report data begins with SHA-256(key || auth data)    *)
(*            quote : report data begins with SHA-256(custom data)         *)
(*            x509  : TRUE                                                 *)
(*   keyValid attkey: the key field is a point of P-256; TRUE otherwise    *)
(* A certificate is a function name -> element.  The root of trust `rot`   *)
(* is an x509-kind record [kind, key, curve].                              *)
(***************************************************************************)
EXTENDS Naturals, Sequences, FiniteSets, TLC

RootName == "sgx_root"
NoKey    == "nokey"
None     == "none"

(***************************************************************************)
(* Does certifier c offer a P-256 key?                                     *)
(***************************************************************************)
HasP256Key(c) == \/ c.kind = "x509" /\ c.curve = "P256"
                 \/ c.kind = "attkey" /\ c.keyValid

(***************************************************************************)
(* LinkOk(e, c): element e verifies under its certifier c.  One conjunct   *)
(* per clause of the property text.                                        *)
(***************************************************************************)
X509Ok(e, c) ==
    /\ c.kind = "x509"              \* certified by a certificate (the root of trust at the top)
    /\ e.time = "Valid"             \* inside its validity period
    /\ e.sigBy = c.key              \* signed by the key of the certificate that certifies it
AttKeyOk(e, c) ==
    /\ HasP256Key(c)                \* its certifier's P-256 key ...
    /\ e.sigBy = c.key              \* ... signed the report body
    /\ e.keyValid /\ e.binds        \* report data begins with SHA-256(key || auth data)
QuoteOk(e, c) ==
    /\ c.kind = "attkey" /\ c.keyValid   \* "that attestation key" ...
    /\ e.sigBy = c.key                   \* ... signed the quote
    /\ e.binds                           \* report data begins with SHA-256(custom data)

LinkOk(e, c) == CASE e.kind = "x509"   -> X509Ok(e, c)
                  [] e.kind = "attkey" -> AttKeyOk(e, c)
                  [] e.kind = "quote"  -> QuoteOk(e, c)
                  [] OTHER             -> FALSE

(***************************************************************************)
(* Path from the top (the element certified by the root of trust) down to  *)
(* n; <<>> when following signed_by from n never reaches the root (dangling*)
(* certifier or cycle).                                                    *)
(***************************************************************************)
RECURSIVE PathDown(_, _, _)
PathDown(cert, n, seen) ==
    IF n \notin DOMAIN cert \/ n \in seen THEN <<>>
    ELSE IF cert[n].by = RootName THEN <<n>>
    ELSE LET up == PathDown(cert, cert[n].by, seen \cup {n}) IN
         IF up = <<>> THEN <<>> ELSE Append(up, n)

Path(cert, t) == PathDown(cert, t, {})
CertifierOf(cert, rot, p, i) == IF i = 1 THEN rot ELSE cert[p[i - 1]]
BadLinks(cert, rot, p) == {i \in 1..Len(p) : ~LinkOk(cert[p[i]], CertifierOf(cert, rot, p, i))}

(***************************************************************************)
(* The property: the target is valid iff it has a path to the root of      *)
(* trust and every element on it verifies.                                 *)
(***************************************************************************)
SpecValid(cert, rot, t) ==
    LET p == Path(cert, t) IN p # <<>> /\ BadLinks(cert, rot, p) = {}

\* the verdict the validator has to report for target t
SpecVerdict(cert, rot, t) == IF SpecValid(cert, rot, t) THEN "valid" ELSE "invalid"

\* first element, walking down from the root, that does not verify (None if there is none).
\* Not part of C07 (the text does not say which element is named); used to measure model drift.
FirstBad(cert, rot, t) ==
    LET p == Path(cert, t)
        bad == IF p = <<>> THEN {} ELSE BadLinks(cert, rot, p)
    IN IF bad = {} THEN None ELSE p[CHOOSE i \in bad : \A j \in bad : i <= j]

\* validity depends on the elements of the path only
Restrict(cert, names) == [n \in names |-> cert[n]]
PathSet(cert, t) == LET p == Path(cert, t) IN {p[i] : i \in 1..Len(p)}

(***************************************************************************)
(* Clauses judged on an observation.                                       *)
(*   valid    : BOOLEAN - the validator reported the target valid          *)
(*   reported : what it returned for the target when valid                 *)
(*   signed   : what was signed (from the generator's own structured input)*)
(***************************************************************************)
\* The text speaks of the periods of the certificate's X.509 ELEMENTS; whether a root of trust that is
\* itself outside its period may still anchor a chain is left open (the verify command checks the root
\* separately, C08), so then a refusal is allowed as well - a false accept never is.
ValidIffP(cert, rot, t, valid) == /\ valid => SpecValid(cert, rot, t)
                                  /\ (SpecValid(cert, rot, t) /\ rot.time = "Valid") => valid
ReportedExactP(valid, reported, signed) == valid => reported = signed
=============================================================================
