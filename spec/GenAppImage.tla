---------------------------- MODULE GenAppImage ----------------------------
(* Generation configuration of AppImage: prints every complete file        *)
(* (kind "layout") and every complete signing session (kind "session").     *)
EXTENDS MC_AppImage, Json
ASSUME PrintT("F " \o ToJson(Forms))     \* once: what the form indices in the plans stand for
EmitB == /\ ImageTerminal => PrintT("B " \o ToJson([kind |-> "layout", areas |-> SetToSeq(img),
                                                      file |-> file, size |-> size,
                                                      ulen |-> UnitLens[size], scale |-> scale]))
         /\ SignTerminal  => PrintT("B " \o ToJson([kind |-> "session", plan |-> plan,
                                                      contents |-> Contents, size |-> size,
                                                      ulen |-> UnitLens[size], dirs |-> setup.dirs]))
         /\ AuthTerminal  => PrintT("B " \o ToJson([kind |-> "auth", pre |-> apre, plan |-> aplan,
                                                      contents |-> Contents, size |-> size,
                                                      ulen |-> UnitLens[size], dirs |-> setup.dirs]))
=============================================================================
