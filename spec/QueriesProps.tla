---------------------------- MODULE QueriesProps ----------------------------
(***************************************************************************)
(* C13 on observables.  Values are byte sequences; numbers are compared as *)
(* 36-byte big-endian (the harness's projection of the reply is total and  *)
(* checked: `numok`).  t.dev = what the device holds (ground truth set by  *)
(* the harness, keyed by the firmware's own identifiers, bc_state.h /      *)
(* bc_nu.h / heartbeat.h); t.reply = the fields of the JSON reply under    *)
(* the names of docs/protocol.md; "" = absent.                             *)
(***************************************************************************)
EXTENDS Integers, Sequences, TLC

\* firmware: GET_STATE hash selector -> which datum it is (bc_state.h, dump_hash)
FwHashName(id) == CASE id = 1 -> "best_block" [] id = 2 -> "newest_valid_block" [] id = 3 -> "ancestor_block"
                    [] id = 5 -> "ancestor_receipts_root" [] id = 129 -> "updating.best_block"
                    [] id = 130 -> "updating.newest_valid_block" [] id = 132 -> "updating.next_expected_block"
                    [] OTHER -> "?"
FwHashIds == {1, 2, 3, 5, 129, 130, 132}
\* firmware: dump_flags order
FwFlagNames == <<"updating.in_progress", "updating.already_validated", "updating.found_best_block">>
\* firmware: network identifiers (bc_nu.h) and the names of docs/protocol.md
NetName(id) == CASE id = 1 -> "mainnet" [] id = 2 -> "testnet" [] id = 3 -> "regtest" [] OTHER -> "?"

StateNames == {FwHashName(i) : i \in FwHashIds}

StateClauses(t) == <<
    <<"HashFieldMiswired", \A i \in FwHashIds : t.reply.hashes[FwHashName(i)] = t.dev.hashes[FwHashName(i)]>>,
    <<"TotalDifficultyDiffers", t.reply.numok /\ t.reply.total_difficulty = t.dev.difficulty36>>,
    <<"FlagsMiswired", \A k \in 1..3 : t.reply.flags[FwFlagNames[k]] = t.dev.flags[k]>> >>
ParamClauses(t) == <<
    <<"CheckpointDiffers", t.reply.checkpoint = t.dev.checkpoint>>,
    <<"MinimumDifficultyDiffers", t.reply.numok /\ t.reply.minimum_difficulty = t.dev.mindiff36>>,
    <<"NetworkNameWrong", t.reply.network = NetName(t.dev.network)>> >>
HbClauses(t) == <<
    <<"HeartbeatKeyDiffers", t.reply.pubKey = t.dev.pub>>,
    <<"HeartbeatMessageDiffers", t.reply.message = t.dev.msg>>,
    <<"HeartbeatTweakIsNotTheAppHash", t.reply.tweak = t.dev.hash>>,
    <<"HeartbeatSignatureSplitWrong", t.reply.r = t.dev.r /\ t.reply.s = t.dev.s>> >>
PubKeyClauses(t) == << <<"WrongPublicKey", t.reply.pubKey = t.dev.pub>> >>

\* UI heartbeat from a device in signer mode: it ends up back in signer mode, or the reply is -905
UiHbModeClauses(t) == <<
    <<"SuccessWithDeviceNotInSignerMode", (t.code = 0) => t.finalmode = "signer">>,
    <<"NotADeviceErrorThoughNotBackInSigner", (t.finalmode # "signer") => t.code = -905>> >>

Clauses(t) ==
    IF t.cmd = "uiHeartbeat" THEN UiHbModeClauses(t) \o (IF t.code = 0 THEN HbClauses(t) ELSE <<>>)
    ELSE IF t.code # 0 THEN << <<"QueryFailedOnHealthyDevice", ~t.healthy>> >>
    ELSE IF t.cmd = "blockchainState" THEN StateClauses(t)
    ELSE IF t.cmd = "blockchainParameters" THEN ParamClauses(t)
    ELSE IF t.cmd = "signerHeartbeat" THEN HbClauses(t)
    ELSE PubKeyClauses(t)

RECURSIVE FirstFailQ(_)
FirstFailQ(cs) == IF cs = <<>> THEN ""
                  ELSE IF ~Head(cs)[2] THEN Head(cs)[1] ELSE FirstFailQ(Tail(cs))
=============================================================================
