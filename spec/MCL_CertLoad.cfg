SPECIFICATION FairSpec
CONSTANTS
  Pool = {"a", "b", "c", "d", "root"}
  MaxItems = 3
  MaxTargets = 1
  MaxOdd = 0
  Stretching = TRUE
INVARIANT LoadedImpliesAcyclic
INVARIANT WalkBound
INVARIANT ChainBound
INVARIANT StepBound
INVARIANT Covers
INVARIANT RoundTrip
PROPERTY Terminates
CHECK_DEADLOCK FALSE
