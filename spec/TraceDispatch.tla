--------------------------- MODULE TraceDispatch ---------------------------
(* batch = [id, cells : Seq([id, req, v1, code, hascode, contacted])]; every cell gets its own verdict *)
EXTENDS DispatchProps, TraceLib, Sequences
VARIABLES tid, l, bad
tvars == <<tid, l, bad>>
T == Traces[tid]
RECURSIVE FirstFailD(_)
FirstFailD(cs) == IF cs = <<>> THEN ""
                  ELSE IF ~Head(cs)[2] THEN Head(cs)[1] ELSE FirstFailD(Tail(cs))
TInit == tid \in 1..Len(Traces) /\ l = 1 /\ bad = ""
Step == /\ l <= Len(T.cells)
        /\ LET c == T.cells[l] IN bad' = FirstFailD(Clauses(c.req, c.v1, c.code, c.hascode, c.contacted))
        /\ l' = l + 1 /\ UNCHANGED tid
TSpec == TInit /\ [][Step]_tvars
Monitor == /\ (bad # "") => Verdict(T.cells[l - 1].id, FALSE, bad, l - 1)
           /\ (l = Len(T.cells) + 1) => Verdict(T.id, TRUE, "", l - 1)
=============================================================================
