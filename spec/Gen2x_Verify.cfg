SPECIFICATION Spec
CONSTANTS
  Platforms = {"ledger", "sgx"}
  MaxDev = 2
  MaxFileMut = 2
  Sep = TRUE
  FullExt = 2
  Wildcard = FALSE
INVARIANT ReturnIffOk
INVARIANT PrintedSigned
INVARIANT EmitB
CHECK_DEADLOCK FALSE
