----------------------------- MODULE GenVerify -----------------------------
(* Generation configuration of Verify: prints every (abstract input, outcome, site). *)
EXTENDS Verify, Json
EmitB == Terminal => PrintT("B " \o ToJson([inp |-> inp, outcome |-> outcome, site |-> site,
                                              ndev |-> ndev]))
=============================================================================
