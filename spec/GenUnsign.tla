------------------------------ MODULE GenUnsign ------------------------------
EXTENDS Unsign, Json
GSpec == Init /\ [][FALSE]_vars
EmitB == PrintT("B " \o ToJson(tx))
=============================================================================
