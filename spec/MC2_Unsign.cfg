SPECIFICATION Spec
CONSTANTS
  MaxOps = 2
  NIns = 2
INVARIANT Idempotent
INVARIANT SigIndependent
INVARIANT PreservesRest
CHECK_DEADLOCK FALSE
