SPECIFICATION Spec
CONSTANTS
  MaxOps = 2
  Vers = {1}
  NIns = 2
INVARIANT Idempotent
INVARIANT SigIndependent
INVARIANT PreservesRest
CHECK_DEADLOCK FALSE
