SPECIFICATION Spec
CONSTANTS
  Platforms = {"ledger", "sgx"}
  MaxDev = 0
  MaxFileMut = 0
  Sep = TRUE
  FullExt = 1
  Wildcard = FALSE
INVARIANT NeverPrints
CHECK_DEADLOCK FALSE
