-------------------------- MODULE TraceAttestFlow --------------------------
(* Judges observations recorded from the real commands (do_onboard ->      *)
(* do_attestation -> do_verify_attestation on Ledger, do_attestation ->    *)
(* do_verify_attestation on SGX, then load ; save ; verify again) with the *)
(* clauses of AttestFlowProps.  One trace = one observation record (see    *)
(* AttestFlowProps); printed values and device values are strings, files   *)
(* are sequences of rows of strings; `http` is the list of requests the    *)
(* tools made to the (scripted) Rootstock node and web server.  The first  *)
(* failing clause is named.                                                *)
EXTENDS AttestFlowProps, TraceLib

VARIABLES tid, l, bad
tvars == <<tid, l, bad>>

T == Traces[tid]
\* JSON arrays of pairs -> sequences of tuples (so that both sides are of the same kind)
Keys(ks) == [i \in 1..Len(ks) |-> <<ks[i][1], ks[i][2]>>]
Dev(d) == [d EXCEPT !.keys = Keys(d.keys)]
Prn(p) == [f \in PrintFields |-> IF f = "keys" THEN Keys(p.keys) ELSE p[f]]
Http(h) == [i \in 1..Len(h) |-> [verb |-> h[i].verb, url |-> h[i].url, ctype |-> h[i].ctype,
                                   version |-> h[i].version, idkind |-> h[i].idkind, method |-> h[i].method,
                                   params |-> [j \in 1..Len(h[i].params) |-> h[i].params[j]]]]
O == [udsrc |-> T.udsrc, node |-> T.node, node_at |-> T.node_at, node_n |-> T.node_n,
      node_url |-> T.node_url, rootvia |-> T.rootvia, root_url |-> T.root_url, http |-> Http(T.http),
      ud_sent |-> T.ud_sent, att_file |-> T.att_file, contacted |-> T.contacted,
      g_err |-> T.g_err, v_err |-> T.v_err, tz |-> T.tz, when_who |-> T.when_who, when_kind |-> T.when_kind,
      sigsite |-> T.sigsite, sigclass |-> T.sigclass, digsite |-> T.digsite, digclass |-> T.digclass,
      hist |-> T.hist, prev_ok |-> T.prev_ok, dev_prev |-> Dev(T.dev_prev),
      earlier_before |-> T.earlier_before, earlier_after |-> T.earlier_after,
      verify_prev |-> T.verify_prev, printed_prev |-> Prn(T.printed_prev),
      plat |-> T.plat, alt |-> T.alt, dev |-> Dev(T.dev),
      g_onboard |-> T.g_onboard, g_attest |-> T.g_attest, gather |-> T.gather,
      file0 |-> T.file0, reload0 |-> T.reload0, file |-> T.file, reload |-> T.reload,
      reload_ok |-> T.reload_ok, verify |-> T.verify, printed |-> Prn(T.printed),
      verify2 |-> T.verify2, printed2 |-> Prn(T.printed2)]

TInit == tid \in 1..Len(Traces) /\ l = 1 /\ bad = ""
Judge == /\ l = 1 /\ bad' = FirstFail(Clauses(O)) /\ l' = 2 /\ UNCHANGED tid
TNext == Judge
TSpec == TInit /\ [][TNext]_tvars

Monitor == (l = 2) => Verdict(T.id, bad = "", bad, 1)
=============================================================================
