SPECIFICATION Spec
CONSTANTS
  MaxLives = 3
  MaxFaults = 1
  MaxCrashes = 2
  MaxReboots = 1
  InitFiles = {100, 0, 102, 101}
INVARIANT NoWindow
VIEW View
CHECK_DEADLOCK FALSE
