---------------------------- MODULE TraceManager ----------------------------
(* trace = [id, v1, ev : Seq(event)] of one real manager process (forked), events merged from the
   process's own log (start, listening, exit) and the client's observations (conn) *)
EXTENDS ManagerProps, TraceLib
VARIABLES tid, l, obs, bad
tvars == <<tid, l, obs, bad>>
T == Traces[tid]
EvOf(e) == [k |-> e.k, should |-> e.should, cause |-> e.cause, connected |-> e.connected,
            onereply |-> e.onereply, hascode |-> e.hascode, code |-> e.code, stopreq |-> e.stopreq,
            unsafe |-> e.unsafe]
TInit == tid \in 1..Len(Traces) /\ l = 1 /\ obs = InitObs /\ bad = ""
Step == /\ bad = "" /\ l <= Len(T.ev)
        /\ LET e == EvOf(T.ev[l])
               o2 == Observe(obs, e) IN
             /\ obs' = o2 /\ bad' = FirstFailM(Clauses(obs, o2, e, T.v1))
        /\ l' = l + 1 /\ UNCHANGED tid
TSpec == TInit /\ [][Step]_tvars
Monitor == /\ (bad # "") => Verdict(T.id, FALSE, bad, l - 1)
           /\ (bad = "" /\ l = Len(T.ev) + 1) => Verdict(T.id, TRUE, "", l - 1)
=============================================================================
