SPECIFICATION Spec
CONSTANTS
  MaxLives = 2
  MaxFaults = 1
  MaxCrashes = 1
  MaxReboots = 1
  InitFiles = {100, 0, 102}
INVARIANT NoNewViolation
INVARIANT EmitB
CHECK_DEADLOCK FALSE
