----------------------------- MODULE LinkProps -----------------------------
(***************************************************************************)
(* C11 on observables: the transport-level log of one manager history.     *)
(* Events                                                                  *)
(*   req(cmd)            a client request starts                           *)
(*   close / open(ok)    the manager closes / (re)opens the device link    *)
(*   apdu(init, fault)   one exchange; init = j > 0 iff it is the j-th     *)
(*                       exchange of the reference bring-up sequence, in   *)
(*                       order, since the last open (0 = a command APDU);  *)
(*                       fault in none | write | read | timeout | drop     *)
(*                       (drop = the device's own disconnect on app exit)  *)
(*   reply(code, hascode, shutdown)                                        *)
(* NInit = length of the reference bring-up sequence (observed at manager  *)
(* start for the same device); DevErr = -905 (v5) / -2 (v1).               *)
(***************************************************************************)
EXTENDS Integers, Sequences, TLC

InitObs == [owed |-> FALSE,      \* a link failure happened and has not been repaired yet
            phase |-> "idle",    \* idle | closed | opened | inited   (within the current request)
            ptr |-> 0,           \* bring-up exchanges completed since the last open
            fault |-> "none",    \* link fault injected into the current request
            openfail |-> FALSE,  \* a reconnection attempt of the current request failed
            linkopen |-> TRUE]   \* the transport handle is open (closing an already closed link is a no-op)

IsLinkFault(f) == f \in {"write", "read", "timeout"}

Observe(o, e, NInit) ==
    IF e.k = "req" THEN [o EXCEPT !.phase = "idle", !.ptr = 0, !.fault = "none", !.openfail = FALSE]
    ELSE IF e.k = "close" THEN [o EXCEPT !.linkopen = FALSE, !.ptr = 0,
                                         !.phase = IF o.phase = "idle" THEN "closed" ELSE @]
    ELSE IF e.k = "open" THEN
        IF e.ok = "t" THEN [o EXCEPT !.linkopen = TRUE, !.ptr = 0,
                                     !.phase = IF ~o.linkopen /\ o.phase \in {"idle", "closed"}
                                               THEN "opened" ELSE @]
        ELSE [o EXCEPT !.openfail = TRUE, !.owed = TRUE]     \* whoever fails to (re-)open the link owes a repair
    ELSE IF e.k = "apdu" THEN
        LET o1 == IF e.init > 0 /\ e.init = o.ptr + 1 /\ e.fault = "none"
                  THEN [o EXCEPT !.ptr = e.init,
                                 !.phase = IF e.init = NInit /\ o.phase = "opened" THEN "inited" ELSE @,
                                 !.owed = IF e.init = NInit /\ o.phase = "opened" THEN FALSE ELSE @]
                  ELSE o
        IN IF IsLinkFault(e.fault)
           THEN [o1 EXCEPT !.fault = e.fault, !.owed = @ \/ (e.fault \in {"write", "read"})]
           ELSE o1
    ELSE o

\* o: before the event, n: after
Clauses(o, n, e, DevErr) == <<
    <<"CommandApduWhileRepairOwed", (e.k = "apdu" /\ e.init = 0) => ~o.owed>>,
    <<"BringupApduBeforeReopen",    (e.k = "apdu" /\ e.init > 0 /\ o.owed) => o.phase = "opened">>,
    <<"ReopenWithoutClose",         (e.k = "open" /\ o.owed) => ~o.linkopen>>,
    <<"FaultReplyCode",  (e.k = "reply" /\ IsLinkFault(o.fault)) => (e.hascode /\ e.code = DevErr)>>,
    <<"FaultStopsManager", (e.k = "reply" /\ IsLinkFault(o.fault)) => ~e.shutdown>>,
    \* (also when the re-opening happens inside a command: uiHeartbeat re-opens the link after each app switch)
    <<"ReconnectFailReplyCode", (e.k = "reply" /\ o.openfail) => (e.hascode /\ e.code = DevErr)>>,
    <<"ReconnectFailStopsManager", (e.k = "reply" /\ o.openfail) => ~e.shutdown>>,
    \* whatever a request finds when it starts the repair (a link object left behind by an earlier failed
    \* attempt included), it is answered with a code and the manager goes on
    \* (a repair that re-opened the link and then found the device in a state it must not serve from stops the
    \* manager by design - C09 - so only requests that never got as far as re-opening are judged here)
    <<"RepairRequestUnanswered", (e.k = "reply" /\ o.owed /\ o.phase \in {"idle", "closed"} /\ ~o.openfail) => e.hascode>>,
    <<"RepairRequestStopsManager", (e.k = "reply" /\ o.owed /\ o.phase \in {"idle", "closed"} /\ ~o.openfail) => ~e.shutdown>> >>

RECURSIVE FirstFailL(_)
FirstFailL(cs) == IF cs = <<>> THEN ""
                  ELSE IF ~Head(cs)[2] THEN Head(cs)[1] ELSE FirstFailL(Tail(cs))
=============================================================================
