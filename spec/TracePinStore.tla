--------------------------- MODULE TracePinStore ---------------------------
(* Judges histories recorded from the real manager (one child process per  *)
(* lifetime, real FileBasedPin over a real file, crash = os._exit) against *)
(* PinStoreProps.  trace = [id, file0, dev0, ev : Seq(event)]; events       *)
(* carry the durable state read back after them.  Also judges PIN draws:   *)
(* trace = [id, pins : Seq(Seq(0..255))] (kind "gen").                      *)
EXTENDS PinStoreProps, TraceLib

VARIABLES tid, l, obs, bad
tvars == <<tid, l, obs, bad>>
T == Traces[tid]

EvOf(e) == [k |-> e.k, file |-> e.file, dev |-> e.dev, ok |-> e.ok, pin |-> e.pin, op |-> e.op,
            outcome |-> e.outcome, force |-> e.force, mem |-> e.mem]

TInit == /\ tid \in 1..Len(Traces) /\ l = 1 /\ bad = ""
         /\ obs = IF Traces[tid].kind = "life" THEN InitObs(Traces[tid].file0, Traces[tid].dev0)
                  ELSE InitObs(0, 0)

StepLife == /\ T.kind = "life" /\ bad = "" /\ l <= Len(T.ev)
            /\ LET e == EvOf(T.ev[l])
                   n == Observe(obs, e) IN
                 /\ obs' = n
                 /\ bad' = FirstFailP(Clauses(obs, n, e))
            /\ l' = l + 1 /\ UNCHANGED tid

StepGen == /\ T.kind = "gen" /\ bad = "" /\ l <= Len(T.pins)
           /\ bad' = IF ValidPinBytes(T.pins[l]) THEN "" ELSE "GeneratedPinInvalid"
           /\ l' = l + 1 /\ UNCHANGED <<tid, obs>>

TNext == StepLife \/ StepGen
TSpec == TInit /\ [][TNext]_tvars

Done == l = (IF T.kind = "life" THEN Len(T.ev) ELSE Len(T.pins)) + 1
Monitor == /\ (bad # "") => Verdict(T.id, FALSE, bad, l - 1)
           /\ (bad = "" /\ Done /\ obs.win) => Verdict(T.id, FALSE, "Window", l - 1)
           /\ (bad = "" /\ Done /\ ~obs.win) => Verdict(T.id, TRUE, "", l - 1)
=============================================================================
