SPECIFICATION Spec
CONSTANTS
  Images <- ImagesFull
  R = 3
  ExtraEla = 1
  Contents <- Contents4
  ImgLists <- Lists4
  PubPaths = {1, 2}
  MaxRuns = 2
  Modes = {"image", "sign", "auth"}
  Iters = {1, 2}
  OutPaths = {0, 1, 2}
  MaxSteps = 2
  SizeClasses <- AllSizes
  UnitLens <- UnitLensFull
  Setups <- SetupsDef
  AuthSetups <- AuthSetupsDef
  Forms <- FormsDef
  AltForm <- AltFormDef
  Scales <- ScalesDef
  Variant = "ok"
INVARIANT HashInputOk
INVARIANT HashedLength
INVARIANT SinglePub
INVARIANT SigVerifies
INVARIANT PrivNotWritten
INVARIANT KeyFreshPerRun
INVARIANT AuthBinds
INVARIANT AuthFiles
INVARIANT EmitB
CHECK_DEADLOCK FALSE
