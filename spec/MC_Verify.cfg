SPECIFICATION Spec
CONSTANTS
  Platforms = {"ledger", "sgx"}
  MaxDev = 2
  MaxFileMut = 2
  Sep = TRUE
  FullExt = 1
  Wildcard = FALSE
INVARIANT ReturnIffOk
INVARIANT PrintedSigned
INVARIANT ModelConsistent
CHECK_DEADLOCK FALSE
