------------------------------- MODULE Manager -------------------------------
(***************************************************************************)
(* Env || Sys model of a manager process lifetime, at the grain of whole   *)
(* requests: start -> (listen | exit) ; per request the environment picks  *)
(* a cause and Sys reacts as ledger/protocol.py + comm/server.py do        *)
(* (comm-issue flag and repair included) ; stop -> exit.                   *)
(***************************************************************************)
EXTENDS ManagerProps
CONSTANTS MaxReqs, V1

Causes == {"client", "inrange", "linkfault", "timeout", "outrange", "unsafe", "reconnfail"}
VARIABLES pc, should, commIssue, devUnsafe, n, obs, bad, plan
vars == <<pc, should, commIssue, devUnsafe, n, obs, bad, plan>>

Emit(e) == LET o2 == Observe(obs, e) IN
           /\ obs' = o2 /\ bad' = IF bad # "" THEN bad ELSE FirstFailM(Clauses(obs, o2, e, V1))
E0(k) == [k |-> k, should |-> FALSE, cause |-> "client", connected |-> TRUE, onereply |-> TRUE,
          hascode |-> TRUE, code |-> 0, stopreq |-> FALSE, unsafe |-> FALSE]

Init == /\ pc = "new" /\ should \in BOOLEAN /\ commIssue = FALSE /\ devUnsafe = FALSE /\ n = 0
        /\ obs = InitObs /\ bad = "" /\ plan = <<>>

Start == /\ pc = "new" /\ Emit([E0("start") EXCEPT !.should = should])
         /\ pc' = "bringup" /\ UNCHANGED <<should, commIssue, devUnsafe, n, plan>>
\* initialize_device: serves iff the device is in a state to serve from
Bringup == /\ pc = "bringup"
           /\ IF should THEN Emit(E0("listening")) /\ pc' = "serving"
              ELSE Emit([E0("exit") EXCEPT !.code = 0]) /\ pc' = "exited"
           /\ UNCHANGED <<should, commIssue, devUnsafe, n, plan>>

\* one request; the repair (ensure_connection) runs first when a link failure is pending
Request ==
    /\ pc = "serving" /\ n < MaxReqs /\ n' = n + 1
    /\ \E c \in Causes :
         /\ plan' = Append(plan, c)
         /\ IF commIssue /\ devUnsafe
            THEN \* repair bring-up finds the device unsafe: HSM2ProtocolInterrupt -> '{}' and shutdown
                 \/ /\ Emit([E0("conn") EXCEPT !.cause = "unsafe", !.hascode = FALSE, !.stopreq = TRUE, !.unsafe = TRUE])
                    /\ pc' = "stopping" /\ UNCHANGED <<commIssue, devUnsafe>>
                 \* ... or is cut short by a time-out before it got that far: device error, the repair stays owed
                 \/ /\ Emit([E0("conn") EXCEPT !.cause = "timeout", !.code = DeviceError(V1), !.unsafe = TRUE])
                    /\ UNCHANGED <<pc, commIssue, devUnsafe>>
            ELSE CASE c = "client" -> /\ Emit([E0("conn") EXCEPT !.cause = c, !.code = -901])
                                      /\ commIssue' = FALSE /\ UNCHANGED <<pc, devUnsafe>>
                   [] c = "inrange" -> /\ Emit([E0("conn") EXCEPT !.cause = c, !.code = DeviceError(V1)])
                                       /\ commIssue' = FALSE /\ UNCHANGED <<pc, devUnsafe>>
                   [] c = "timeout" -> /\ Emit([E0("conn") EXCEPT !.cause = c, !.code = DeviceError(V1)])
                                       /\ commIssue' = FALSE /\ UNCHANGED <<pc, devUnsafe>>
                   [] c = "linkfault" -> /\ Emit([E0("conn") EXCEPT !.cause = c, !.code = DeviceError(V1)])
                                         /\ commIssue' = TRUE /\ UNCHANGED <<pc, devUnsafe>>
                   [] c = "reconnfail" -> \* the link is (or goes) down and cannot be re-opened during this request
                                          /\ Emit([E0("conn") EXCEPT !.cause = "linkfault", !.code = DeviceError(V1)])
                                          /\ commIssue' = TRUE /\ UNCHANGED <<pc, devUnsafe>>
                   [] c = "outrange" -> \* HSM2DongleError in sign / getPubKey: -906 and shutdown
                                        /\ Emit([E0("conn") EXCEPT !.cause = c, !.code = -906, !.stopreq = TRUE])
                                        /\ pc' = "stopping" /\ UNCHANGED <<commIssue, devUnsafe>>
                   [] c = "unsafe" -> \* the device changes under the manager's feet together with a link failure
                                      /\ Emit([E0("conn") EXCEPT !.cause = "linkfault", !.code = DeviceError(V1)])
                                      /\ commIssue' = TRUE /\ devUnsafe' = TRUE /\ UNCHANGED pc
    /\ UNCHANGED should
Stop == /\ pc = "stopping" /\ Emit([E0("exit") EXCEPT !.code = 0]) /\ pc' = "exited"
        /\ UNCHANGED <<should, commIssue, devUnsafe, n, plan>>
\* a client that tries after the process is gone
Late == /\ pc = "exited" /\ n < MaxReqs /\ n' = n + 1 /\ obs.phase = "exited"
        /\ Emit([E0("conn") EXCEPT !.connected = FALSE, !.onereply = FALSE, !.hascode = FALSE])
        /\ UNCHANGED <<pc, should, commIssue, devUnsafe, plan>>
Next == Start \/ Bringup \/ Request \/ Stop \/ Late
Spec == Init /\ [][Next]_vars
NoViolation == bad = ""
NeverStops == pc # "stopping"
View == <<pc, should, commIssue, devUnsafe, n, obs, bad>>
=============================================================================
