SPECIFICATION Spec
CONSTANTS
  K = 3
  V1 = FALSE
CHECK_DEADLOCK FALSE
INVARIANT Within
