------------------------------ MODULE GenQueries ------------------------------
EXTENDS Queries, Json
VARIABLE trail
GInit == Init /\ trail = <<>>
GNext == /\ Next
         /\ trail' = IF pc \in {"exit1", "exit2"} THEN Append(trail, IF kept' THEN mode' \o "+kept" ELSE mode')
                     ELSE IF pc = "hb" THEN Append(trail, hb') ELSE trail
GSpec == GInit /\ [][GNext]_<<vars, trail>>
EmitB == (pc = "done") => PrintT("B " \o ToJson([trail |-> trail, code |-> code, final |-> mode]))
=============================================================================
