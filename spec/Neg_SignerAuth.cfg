SPECIFICATION Spec
CONSTANTS
  MaxSigs = 1
  MaxSteps = 1
  MaxOps = 2
  Tools = {"none"}
INVARIANT NeverAuthorized
VIEW View
CHECK_DEADLOCK FALSE
