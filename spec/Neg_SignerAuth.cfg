SPECIFICATION Spec
CONSTANTS
  MaxSigs = 1
  Spaced = FALSE
  Tools = {"none"}
INVARIANT NeverAuthorized
VIEW View
CHECK_DEADLOCK FALSE
