SPECIFICATION Spec
CONSTANTS
  MaxSigs = 1
  Tools = {"none"}
INVARIANT NeverAuthorized
VIEW View
CHECK_DEADLOCK FALSE
