SPECIFICATION Spec
CONSTANTS
  Pool = {"a", "b", "c", "d", "root"}
  MaxItems = 4
  MaxTargets = 1
  MaxOdd = 0
  Stretching = FALSE
INVARIANT EmitB
INVARIANT RoundTrip
CHECK_DEADLOCK FALSE
