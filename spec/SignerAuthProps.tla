--------------------------- MODULE SignerAuthProps ---------------------------
(***************************************************************************)
(* C17 -- signer authorizations contain what the device will check.        *)
(*                                                                         *)
(* Constants-free definitions shared by the model (SignerAuth) and by the  *)
(* trace specification (TraceSignerAuth):                                  *)
(*   - the text to be signed, its Ethereum personal-message wrapping, the  *)
(*     SIGNER_AUTH APDUs -- written here from the property text /          *)
(*     docs/signer-authorization.md, executable on byte sequences;         *)
(*   - which inputs must be accepted / must be refused / are left open;    *)
(*   - the observable state `obs` (a fold of events) and `Judge`, which    *)
(*     names the first clause of C17 an event breaks.                      *)
(* Text is a sequence of code points (bytes are Seq(0..255)); L is the hash length in bytes    *)
(* (32 on real executions, 2 in the model).  Keccak-256 is uninterpreted:  *)
(* every build event carries one point <<orc_of, orc_is>> of its graph,    *)
(* computed by an implementation that is independent of the code under     *)
(* test; the spec fixes *what* it is applied to.                           *)
(***************************************************************************)
EXTENDS Integers, Sequences, TLC

---------------------------------------------------------------------------
(* characters and encoders                                                 *)
IsDigit(c)    == c >= 48 /\ c <= 57
IsLowerHex(c) == c >= 97 /\ c <= 102
IsUpperHex(c) == c >= 65 /\ c <= 70
IsHex(c)      == IsDigit(c) \/ IsLowerHex(c) \/ IsUpperHex(c)
IsSpace(c)    == c \in {32, 9, 10, 11, 12, 13}
HexVal(c)     == IF IsDigit(c) THEN c - 48 ELSE IF IsLowerHex(c) THEN c - 87 ELSE c - 55
HexChar(d)    == IF d < 10 THEN 48 + d ELSE 87 + d          \* lower case
LowerC(c)     == IF c >= 65 /\ c <= 90 THEN c + 32 ELSE c
AllHex(s)     == \A i \in 1..Len(s) : IsHex(s[i])
Lower(s)      == [i \in 1..Len(s) |-> LowerC(s[i])]
FromHex(s)    == [i \in 1..(Len(s) \div 2) |-> 16 * HexVal(s[2 * i - 1]) + HexVal(s[2 * i])]
ToHex(b)      == [i \in 1..(2 * Len(b)) |->
                    HexChar(IF i % 2 = 1 THEN b[(i + 1) \div 2] \div 16 ELSE b[i \div 2] % 16)]
RECURSIVE Dec(_)
Dec(n)        == IF n < 10 THEN <<48 + n>> ELSE Append(Dec(n \div 10), 48 + (n % 10))
BE16(n)       == <<n \div 256, n % 256>>
OnlyHex(s)    == SelectSeq(s, IsHex)

\* "RSK_powHSM_signer_"   "_iteration_"   "\x19Ethereum Signed Message:\n"
P1  == <<82, 83, 75, 95, 112, 111, 119, 72, 83, 77, 95, 115, 105, 103, 110, 101, 114, 95>>
P2  == <<95, 105, 116, 101, 114, 97, 116, 105, 111, 110, 95>>
ETH == <<25, 69, 116, 104, 101, 114, 101, 117, 109, 32, 83, 105, 103, 110, 101, 100, 32,
         77, 101, 115, 115, 97, 103, 101, 58, 10>>

Msg(h, n)  == P1 \o ToHex(h) \o P2 \o Dec(n)        \* h: hash bytes, n: iteration
Eip191(m)  == ETH \o Dec(Len(m)) \o m
AuthMsg(h, n) == Eip191(Msg(h, n))
\* Digest(h, n) = Keccak256(AuthMsg(h, n)); Keccak256 is the uninterpreted function above.

CLA == 128
SIGNER_AUTH == 81        \* 0x51
SigVerApdu(h, n) == <<CLA, SIGNER_AUTH, 1>> \o h \o BE16(n)
SignApdu(sig)    == <<CLA, SIGNER_AUTH, 2>> \o sig
SW_OK == 36864           \* 0x9000

---------------------------------------------------------------------------
(* input domains: "ok" must be accepted, "bad" must be refused, "free" is  *)
(* left open by the property (either answer; if accepted, what follows     *)
(* must be consistent with the value the tool says it understood).         *)

\* hash input: [kind |-> "str" | "other", s |-> text]
HashOK(h, L) == h.kind = "str" /\ Len(h.s) = 2 * L /\ AllHex(h.s)

\* iteration input: [form |-> "int"|"str"|"float"|"bool"|"none", val |-> Int, s |-> text]
RECURSIVE DecVal(_)
DecVal(s) == IF s = <<>> THEN 0 ELSE 10 * DecVal(SubSeq(s, 1, Len(s) - 1)) + (s[Len(s)] - 48)
RECURSIVE HexNum(_)
HexNum(s) == IF s = <<>> THEN 0 ELSE 16 * HexNum(SubSeq(s, 1, Len(s) - 1)) + HexVal(s[Len(s)])
AllDigits(s) == \A i \in 1..Len(s) : IsDigit(s[i])
CleanDec(s)  == Len(s) \in 1..9 /\ AllDigits(s)
CleanNeg(s)  == Len(s) \in 2..9 /\ s[1] = 45 /\ AllDigits(Tail(s))
CleanHexI(s) == Len(s) \in 3..9 /\ s[1] = 48 /\ s[2] = 120 /\ AllHex(SubSeq(s, 3, Len(s)))
JunkChar(c)  == \/ c \in {35, 36, 37, 44, 46, 47}                   \* # $ % , . /
                \/ (c >= 103 /\ c <= 122 /\ c # 120)                 \* g..z but x
                \/ (c >= 71 /\ c <= 90 /\ c # 88)                    \* G..Z but X
JunkStr(s)   == \/ s = <<>>
                \/ \A i \in 1..Len(s) : ~IsDigit(s[i])
                \/ \E i \in 1..Len(s) : JunkChar(s[i])
\* the accepted string forms are "decimal and 0x strings": a literal in another base (0b.., 0o..,
\* upper-case 0X..) is malformed.  Leading zeros are still decimal digits ("007" is 7).
OtherBase(s) == Len(s) >= 2 /\ s[1] = 48 /\ s[2] \in {98, 66, 111, 79, 88}      \* 0b 0B 0o 0O 0X
InRange(v)   == v >= 0 /\ v < 65536                                  \* 0 <= n < 2^16

IterStatus(it) ==
    IF it.form = "int" THEN (IF InRange(it.val) THEN "ok" ELSE "bad")
    ELSE IF it.form # "str" THEN "bad"
    ELSE IF CleanDec(it.s) THEN (IF InRange(DecVal(it.s)) THEN "ok" ELSE "bad")
    ELSE IF CleanNeg(it.s) THEN (IF DecVal(Tail(it.s)) = 0 THEN "free" ELSE "bad")
    ELSE IF CleanHexI(it.s) THEN (IF InRange(HexNum(SubSeq(it.s, 3, Len(it.s)))) THEN "ok" ELSE "bad")
    ELSE IF OtherBase(it.s) THEN "bad"
    ELSE IF \E i \in 1..Len(it.s) : it.s[i] > 127 THEN "free"      \* digits of another script, ...
    ELSE IF JunkStr(it.s) THEN "bad" ELSE "free"
IterValue(it) ==
    IF it.form = "int" THEN it.val
    ELSE IF CleanDec(it.s) THEN DecVal(it.s) ELSE HexNum(SubSeq(it.s, 3, Len(it.s)))

\* signature input: text (hex of a DER-encoded ECDSA signature)
IntCanon(b, a, n) ==      \* positive, minimal, at most 256 bits, non-zero: b[a..a+n-1]
    /\ n <= 33 /\ b[a] < 128
    /\ (n = 1 \/ b[a] # 0 \/ b[a + 1] >= 128)
    /\ (n = 33 => b[a] = 0)
    /\ \E i \in a..(a + n - 1) : b[i] # 0
DerStatus(b) ==
    IF Len(b) < 2 \/ b[1] # 48 THEN "bad"
    ELSE IF b[2] >= 128 THEN "free"
    ELSE IF b[2] # Len(b) - 2 THEN "bad"
    ELSE IF Len(b) < 4 THEN "bad"
    ELSE IF b[3] # 2 THEN "bad"
    ELSE IF b[4] >= 128 THEN "free"
    ELSE IF b[4] = 0 \/ 4 + b[4] + 2 > Len(b) THEN "bad"
    ELSE LET p == 5 + b[4] IN
         IF b[p] # 2 THEN "bad"
         ELSE IF b[p + 1] >= 128 THEN "free"
         ELSE IF b[p + 1] = 0 \/ p + 1 + b[p + 1] # Len(b) THEN "bad"
         ELSE IF IntCanon(b, 5, b[4]) /\ IntCanon(b, p + 2, b[p + 1]) THEN "ok" ELSE "free"
SigStatus(s) ==
    IF s = <<>> THEN "bad"
    ELSE IF \E i \in 1..Len(s) : ~IsHex(s[i]) /\ ~IsSpace(s[i]) THEN "bad"
    ELSE IF ~AllHex(s) THEN "free"
    ELSE IF Len(s) % 2 = 1 THEN "bad"
    ELSE DerStatus(FromHex(s))
SigBytes(s) == FromHex(OnlyHex(s))

---------------------------------------------------------------------------
(* Events (records with field k) and the observable state.                 *)
(*  build     the tool was asked to make an authorization from inputs      *)
(*            (constructor, file load, signapp): hash, iter, sigs; ok;     *)
(*            what it made: o_hash o_iter o_msg o_wrap o_digest o_sigs;    *)
(*            one Keccak-256 point: orc_of orc_is                          *)
(*  sign      one signapp invocation on the file at -o: via ("key" | "eth" | *)
(*            "manual" | "message"), args = [given, hash (sha256 of the    *)
(*            app named by -a, as text), iter (the -i text)], given (-g),  *)
(*            ok, sig (the one added), exists / file = [hash, iter, sigs]  *)
(*            as found on disk afterwards, verifies ("t"|"f"|"na": the     *)
(*            added signature ECDSA-verifies under the signing key for     *)
(*            Keccak256(ver_of)), ver_of (the text the verifier hashed:    *)
(*            the message for the version the file names afterwards)       *)
(*            for via = "eth": paths = the derivation paths of the requests  *)
(*            sent to the Ethereum app, want_path = the path the operator  *)
(*            selected (-p / --path, or the documented default), and the   *)
(*            signing key is the app's key for want_path                   *)
(*  pubkey    signapp eth -b: ok, saved (file) / printed (stdout) key,      *)
(*            want = the app's key for want_path, paths                     *)
(*  roundtrip save; load; save: ok, after = [hash, iter, sigs], f1, f2     *)
(*  apdu      one device exchange: apdu, sw, resp                          *)
(*  begin     a new authorize operation starts (exchange counters reset)   *)
(*  content   the object's content as seen through via ("dict" | "save" |   *)
(*            "sigs" | "ver" | "disk"): hash, iter, sigs                    *)
(*  add       add_signature(given): ok, after = content                    *)
(*  outcome   the authorize command ended: authorized ("t"|"f"), exc =     *)
(*            class of the exception that escaped ("none" if none), fresh = *)
(*            outcome of the same operation on a freshly loaded copy of    *)
(*            the same content against a device in the same state ("na")   *)
(***************************************************************************)
InitObs == [st |-> "none",          \* none | built | refused
            h |-> <<>>, n |-> 0, sigs |-> <<>>,   \* the authorization held (bytes, int, texts)
            digest |-> <<>>,        \* Keccak256(AuthMsg(h, n)) from the oracle point
            sent |-> 0,             \* SIGNER_AUTH exchanges so far
            sigver |-> "na",        \* device's answer to SIGVER: ok | err
            err |-> FALSE,          \* some SIGN exchange answered with an error
            done |-> FALSE]         \* device said "authorised"

\* how the authorize command may fail after it has started talking to the device: the device never
\* reported "authorised" (HSM2DongleError), answered an error status word (HSM2DongleErrorResult), the
\* link failed; do_authorize_signer reports every failure as AdminError
DocumentedErrors == {"HSM2DongleError", "HSM2DongleErrorResult", "HSM2DongleTimeoutError",
                     "HSM2DongleCommError", "AdminError"}
IsAuthApdu(e) == Len(e.apdu) >= 2 /\ e.apdu[2] = SIGNER_AUTH
Success(e)    == e.sw = SW_OK /\ Len(e.resp) >= 4 /\ e.resp[4] = 2

\* signapp steps: the authorization file at -o before the step is what `obs` holds (st = "built")
\* or is absent; `e.exists` / `e.file` is what is on disk after it
Exists(o) == o.st = "built"
\* (a file written by hand may spell its hash in upper case and its iteration as a string, which the
\* reader of the disk reports as -7: only a tool-written file is normalised)
Untouched(o, e) == IF Exists(o)
                   THEN /\ e.exists = "t" /\ Lower(e.file.hash) = ToHex(o.h) /\ e.file.sigs = o.sigs
                        /\ e.file.iter \in {o.n, -7}
                   ELSE e.exists = "f"
ArgStatus(e, L) == IF e.args.given = "f" THEN "none"
                   ELSE IF ~HashOK([kind |-> "str", s |-> e.args.hash], L) THEN "machinery"
                   ELSE IterStatus(e.args.iter)
\* the signature added verifies, under the signing key, for Keccak256(AuthMsg(h, n)); `ver_of` is the
\* text the independent verifier hashed (it must be the spec's, else the oracle is broken)
PathsOK(e) == \A i \in 1..Len(e.paths) : e.paths[i] = e.want_path
SignedFor(e, h, n) == IF SigStatus(e.sig) = "bad" THEN "SignatureWellFormed"
                      \* signapp eth: every request to the Ethereum app names the selected path
                      ELSE IF ~PathsOK(e) THEN "SelectedPathUsed"
                      ELSE IF e.ver_of # AuthMsg(h, n) THEN "OracleText"
                      ELSE IF e.verifies # "t" THEN "SignatureVerifies"
                      ELSE ""

MustRefuse(e, L) == \/ ~HashOK(e.hash, L)
                    \/ IterStatus(e.iter) = "bad"
                    \/ \E i \in 1..Len(e.sigs) : SigStatus(e.sigs[i]) = "bad"
MustAccept(e, L) == /\ HashOK(e.hash, L)
                    /\ IterStatus(e.iter) = "ok"
                    /\ \A i \in 1..Len(e.sigs) : SigStatus(e.sigs[i]) = "ok"
BuiltN(e) == IF IterStatus(e.iter) = "ok" THEN IterValue(e.iter) ELSE e.o_iter

Observe(o, e, L) ==
    IF e.k = "build" THEN
        IF e.ok = "t" /\ HashOK(e.hash, L)
        THEN [InitObs EXCEPT !.st = "built", !.h = FromHex(e.hash.s), !.n = BuiltN(e),
                             !.sigs = e.sigs, !.digest = e.orc_is]
        ELSE [InitObs EXCEPT !.st = "refused"]
    ELSE IF e.k = "sign" THEN
        IF e.ok = "t" /\ e.exists = "t"
        THEN [o EXCEPT !.st = "built", !.h = FromHex(OnlyHex(e.file.hash)), !.n = e.file.iter,
                       !.sigs = e.file.sigs]
        ELSE o
    ELSE IF e.k = "begin" THEN
        [o EXCEPT !.sent = 0, !.sigver = "na", !.err = FALSE, !.done = FALSE]
    ELSE IF e.k = "add" THEN
        IF e.ok = "t" THEN [o EXCEPT !.sigs = e.after.sigs] ELSE o
    ELSE IF e.k = "apdu" /\ IsAuthApdu(e) THEN
        [o EXCEPT !.sent = @ + 1,
                  !.sigver = IF o.sent = 0 THEN (IF e.sw = SW_OK THEN "ok" ELSE "err") ELSE @,
                  !.err = @ \/ (o.sent > 0 /\ e.sw # SW_OK),
                  !.done = @ \/ (o.sent > 0 /\ Success(e))]
    ELSE o

\* one signapp invocation
JudgeSign(o, e, L) ==
    IF e.via = "manual" THEN
        \* signapp manual works on an existing file only and never looks at -a / -i
        IF ~Exists(o) THEN (IF e.ok = "f" /\ e.exists = "f" THEN "" ELSE "SignatureAdded")
        ELSE IF SigStatus(e.given) = "bad" THEN
             (IF e.ok = "f" /\ Untouched(o, e) THEN "" ELSE "RefusesMalformed")
        ELSE IF e.ok = "f" THEN
             (IF SigStatus(e.given) = "free" /\ Untouched(o, e) THEN "" ELSE "SignatureAdded")
        ELSE IF ~(e.exists = "t" /\ e.file.hash = ToHex(o.h) /\ e.file.iter = o.n)
             THEN "FileNamesItsVersion"
        ELSE IF e.file.sigs # Append(o.sigs, e.sig) \/ e.sig # e.given THEN "SignatureAdded"
        ELSE ""
    ELSE IF e.via \in {"key", "eth"} /\ Exists(o) THEN
        \* an existing file rules: it keeps naming its own (hash, iteration) whatever -a / -i say,
        \* and the new signature is over the digest for *that* version
        IF e.ok = "f" THEN "SignatureAdded"
        ELSE IF ~(e.exists = "t" /\ e.file.hash = ToHex(o.h) /\ e.file.iter = o.n)
             THEN "FileNamesItsVersion"
        ELSE IF e.file.sigs # Append(o.sigs, e.sig) THEN "SignatureAdded"
        ELSE SignedFor(e, o.h, o.n)
    ELSE
        \* signapp message, and key / eth without a file: the version comes from -a / -i
        LET st == ArgStatus(e, L) IN
        IF st = "machinery" THEN "OracleText"
        ELSE IF st \in {"none", "bad"} THEN
             (IF e.ok = "f" /\ Untouched(o, e) THEN "" ELSE "RefusesMalformed")
        ELSE IF e.ok = "f" THEN
             (IF st = "ok" THEN "AcceptsWellFormed" ELSE IF Untouched(o, e) THEN "" ELSE "SignatureAdded")
        ELSE LET n == IF st = "ok" THEN IterValue(e.args.iter) ELSE e.file.iter IN
             IF ~(e.exists = "t" /\ e.file.hash = Lower(e.args.hash) /\ e.file.iter = n /\ InRange(n))
             THEN "FileNamesItsVersion"
             ELSE IF e.via = "message" THEN (IF e.file.sigs = <<>> THEN "" ELSE "SignatureAdded")
             ELSE IF e.file.sigs # <<e.sig>> THEN "SignatureAdded"
             ELSE SignedFor(e, FromHex(e.args.hash), n)

\* first clause of C17 broken by event e in observable state o ("" if none)
Judge(o, e, L) ==
    IF e.k = "build" THEN
        IF MustRefuse(e, L) THEN (IF e.ok = "f" THEN "" ELSE "RefusesMalformed")
        ELSE IF e.ok = "f" THEN (IF MustAccept(e, L) THEN "AcceptsWellFormed" ELSE "")
        ELSE LET h == FromHex(e.hash.s)  n == BuiltN(e) IN
             IF ~(e.o_iter = n /\ InRange(n)) THEN "IterationKept"
             ELSE IF e.o_hash # Lower(e.hash.s) THEN "HashKept"
             ELSE IF e.o_sigs # e.sigs THEN "SignaturesKept"
             ELSE IF e.o_msg # Msg(h, n) THEN "MessageText"
             ELSE IF e.o_wrap # AuthMsg(h, n) THEN "Eip191Wrap"
             ELSE IF e.orc_of # AuthMsg(h, n) THEN "OracleText"        \* machinery, not the code
             ELSE IF e.o_digest # e.orc_is THEN "Keccak256Digest"
             ELSE ""
    ELSE IF e.k = "sign" THEN JudgeSign(o, e, L)
    ELSE IF e.k = "roundtrip" THEN
        IF o.st # "built" THEN "RoundTripWithoutAuthorization"
        ELSE IF e.ok # "t" THEN "RoundTrip"
        ELSE IF e.after.hash # ToHex(o.h) \/ e.after.iter # o.n \/ e.after.sigs # o.sigs
             THEN "RoundTrip"
        ELSE IF e.f1 # e.f2 THEN "RoundTripStable"
        ELSE ""
    ELSE IF e.k = "apdu" THEN
        IF ~IsAuthApdu(e) THEN ""
        ELSE IF o.st # "built" THEN "SentWithoutAuthorization"
        ELSE IF o.done THEN "NothingAfterSuccess"
        ELSE IF o.sent = 0 THEN (IF e.apdu = SigVerApdu(o.h, o.n) THEN "" ELSE "SigVerFirst")
        ELSE IF o.sent > Len(o.sigs) THEN "SignaturesInOrder"
        ELSE IF e.apdu # SignApdu(SigBytes(o.sigs[o.sent])) THEN "SignaturesInOrder"
        ELSE ""
    ELSE IF e.k = "outcome" THEN
        IF (e.authorized = "t") # o.done THEN "AuthorizedIff"
        \* once the conversation has begun the command ends authorised or with a documented error
        ELSE IF e.authorized = "f" /\ o.sent > 0 /\ e.exc \notin DocumentedErrors THEN "DocumentedFailure"
        \* the same operation on a freshly loaded copy of the same content ends the same way
        ELSE IF e.fresh # "na" /\ e.fresh # e.authorized THEN "SameAsFreshLoad"
        ELSE IF o.st = "built" /\ o.sent = 0 THEN "SigVerFirst"          \* nothing was sent at all
        ELSE IF o.st = "built" /\ ~o.done /\ o.sigver = "ok" /\ ~o.err
                /\ o.sent # 1 + Len(o.sigs) THEN "AllSentBeforeFailing"
        ELSE ""
    ELSE IF e.k = "pubkey" THEN
        \* signapp eth -b: the key printed and saved is the Ethereum app's key for the selected path
        IF e.ok # "t" THEN "PublicKeyOfSelectedPath"
        ELSE IF ~PathsOK(e) THEN "SelectedPathUsed"
        ELSE IF e.saved # e.want \/ e.printed # e.want THEN "PublicKeyOfSelectedPath"
        ELSE ""
    ELSE IF e.k = "begin" THEN ""
    ELSE IF e.k = "content" THEN
        \* to_dict / saved file / .signatures / .signer_version of the object in use: what was built
        \* or loaded, plus what add_signature appended -- whatever was done with the object since
        IF o.st # "built" THEN "ContentWithoutAuthorization"
        ELSE IF e.hash # ToHex(o.h) \/ e.iter # o.n \/ e.sigs # o.sigs THEN "ObjectUnchanged"
        ELSE ""
    ELSE IF e.k = "add" THEN
        IF o.st # "built" THEN "ContentWithoutAuthorization"
        ELSE IF SigStatus(e.given) = "bad" THEN
             (IF e.ok = "f" /\ e.after.sigs = o.sigs THEN "" ELSE "RefusesMalformed")
        ELSE IF e.ok = "f" THEN (IF SigStatus(e.given) = "free" /\ e.after.sigs = o.sigs THEN "" ELSE "SignatureAdded")
        ELSE IF e.after.hash # ToHex(o.h) \/ e.after.iter # o.n \/ e.after.sigs # Append(o.sigs, e.given)
             THEN "SignatureAdded"
        ELSE ""
    ELSE "UnknownEvent"
=============================================================================
