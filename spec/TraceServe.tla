----------------------------- MODULE TraceServe -----------------------------
(* trace = [id, ev : Seq(conn event)] recorded by a client talking to the real manager over TCP *)
EXTENDS ServeProps, TraceLib
VARIABLES tid, l, bad
tvars == <<tid, l, bad>>
T == Traces[tid]
EvOf(e) == [connected |-> e.connected, nlines |-> e.nlines, isobj |-> e.isobj, hascode |-> e.hascode,
            shutdown |-> e.shutdown]
TInit == tid \in 1..Len(Traces) /\ l = 1 /\ bad = ""
Step == /\ bad = "" /\ l <= Len(T.ev)
        /\ bad' = FirstFailV(Clauses(EvOf(T.ev[l])))
        /\ l' = l + 1 /\ UNCHANGED tid
TSpec == TInit /\ [][Step]_tvars
Monitor == /\ (bad # "") => Verdict(T.id, FALSE, bad, l - 1)
           /\ (bad = "" /\ l = Len(T.ev) + 1) => Verdict(T.id, TRUE, "", l - 1)
=============================================================================
