-------------------------- MODULE GenSignExchange --------------------------
EXTENDS SignExchange, Json
EmitB == Done => PrintT("B " \o ToJson([script |-> script, res |-> hRes]))
=============================================================================
