SPECIFICATION Spec
CONSTANTS
  MaxDepth = 2
  MaxDefects = 1
  MaxRenames = 1
  MaxWithRename = 1
  Spares = {"none", "twin"}
  Embeds = {"none"}
INVARIANT NeverValid
INVARIANT NeverInvalid
INVARIANT NeverLoadError
CHECK_DEADLOCK FALSE
