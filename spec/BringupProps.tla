------------------------------ MODULE BringupProps --------------------------
(***************************************************************************)
(* Manager bring-up (ledger/protocol.py: initialize_device,               *)
(* _handle_bootloader, _wait_and_reconnect) against a device chosen by the *)
(* environment.  One Sys action per device exchange; every exchange is an  *)
(* *event* carrying the device's ground truth at that moment, and the      *)
(* observable state `obs` is a pure fold (`Observe`) of the events.  The   *)
(* properties (C09) are stated on `obs` and the final ground truth only,   *)
(* so the very same definitions judge (a) this model and (b) event logs    *)
(* recorded from the real code (TraceBringup).                             *)
(***************************************************************************)
EXTENDS Naturals, Sequences, TLC

MW == <<5, 4, 1>>                     \* the manager's UI_VERSION / APP_VERSION
\* written from the property text, not from version.py
Supports(m, f) == /\ m[1] = f[1]
                  /\ \/ m[2] > f[2]
                     \/ (m[2] = f[2] /\ m[3] >= f[3])
NoVer   == <<999, 999, 999>>          \* "not known": never supported
NoRetry == 998

(***************************************************************************)
(* Events.  cls: what the manager did; d_*: device ground truth when it    *)
(* did it; ok: the device's answer where it matters ("t"/"f"/"na").        *)
(***************************************************************************)
Ev(cls, d, ok) == [cls |-> cls, d_mode |-> d.mode, d_onb |-> d.onb, d_ver |-> d.ver,
                   d_retries |-> d.retries, ok |-> ok]

InitObs == [phase |-> "pre",       \* pre | unlocked | failed
            pinbytes |-> 0,        \* PIN bytes sent before an unlock answer
            unlocks |-> 0,         \* unlock commands sent
            newpinbytes |-> 0,     \* PIN bytes sent after a successful unlock
            changes |-> 0,         \* change-PIN commands sent
            echoed |-> "na",       \* answer of the last echo exchange
            safe |-> "na",         \* were the preconditions true at the first PIN byte / unlock
            retry |-> FALSE]       \* PIN material sent again after a failed unlock

SafeNow(o, e) == /\ e.d_onb = "yes" /\ e.d_mode = "boot"
                 /\ Supports(MW, e.d_ver)
                 /\ o.echoed = "t"
                 /\ e.d_retries >= 2 /\ e.d_retries <= 255

Observe(o, e) ==
    IF e.cls = "echo" THEN [o EXCEPT !.echoed = e.ok]
    ELSE IF e.cls = "pin_byte" THEN
        IF o.phase = "pre"
        THEN [o EXCEPT !.pinbytes = @ + 1,
                       !.safe = IF o.safe = "na" THEN (IF SafeNow(o, e) THEN "t" ELSE "f") ELSE @]
        ELSE IF o.phase = "failed" THEN [o EXCEPT !.retry = TRUE]
        ELSE [o EXCEPT !.newpinbytes = @ + 1]
    ELSE IF e.cls = "unlock" THEN
        IF o.phase = "pre"
        THEN [o EXCEPT !.unlocks = @ + 1,
                       !.phase = IF e.ok = "t" THEN "unlocked" ELSE "failed",
                       !.safe = IF o.safe = "na" THEN (IF SafeNow(o, e) THEN "t" ELSE "f") ELSE @]
        ELSE [o EXCEPT !.unlocks = @ + 1, !.retry = (o.phase = "failed") \/ @]
    ELSE IF e.cls = "change_pin" THEN [o EXCEPT !.changes = @ + 1]
    ELSE o

RECURSIVE ObserveAll(_, _)
ObserveAll(o, es) == IF es = <<>> THEN o ELSE ObserveAll(Observe(o, Head(es)), Tail(es))

(***************************************************************************)
(* C09, on observables.                                                    *)
(***************************************************************************)
AtMostOneUnlockP(o)   == o.unlocks <= 1 /\ ~o.retry
UnlockOnlyIfSafeP(o)  == (o.pinbytes > 0 \/ o.unlocks > 0 \/ o.newpinbytes > 0 \/ o.changes > 0)
                            => o.safe = "t"
\* fin: final ground truth [onb, mode, ver]; needchg: "t"/"f"; outcome: "serve" / "stop"
ShouldServe(o, fin, needchg) ==
    /\ fin.onb = "yes" /\ fin.mode = "signer" /\ Supports(MW, fin.ver)
    /\ \/ o.unlocks = 0 /\ o.pinbytes = 0
       \/ (o.phase = "unlocked" /\ needchg = "f")
ServeIffP(o, fin, needchg, outcome) == (outcome = "serve") <=> ShouldServe(o, fin, needchg)
=============================================================================
