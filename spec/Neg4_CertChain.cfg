SPECIFICATION Spec
CONSTANTS
  Names = {"device", "attestation", "ui", "signer"}
  MaxTargets = 1
  MaxCorr = 1
  CorrKinds = {"sigOtherKey", "sigFlip", "sigSwap", "msgFlipKey", "msgFlipOther", "keySubst", "tweakFlip", "tweakRemove", "tweakAdd", "reparent", "wrongRoot"}
  Shapes = {"longTail", "longHead"}
  MaxShape = 1
  ShapeWithCorr = FALSE
  MaxOps = 1
  OpKinds = {"validate"}
  Origins = {"loaded"}
  TweakChoice = {"plain", "tweaked"}
INVARIANT NeverValidTwice
CHECK_DEADLOCK FALSE
