---------------------------- MODULE MC_AppImage ----------------------------
(* Constants of the exhaustive / generation configurations of AppImage      *)
(* (records with sequences cannot be written in a .cfg).                    *)
EXTENDS AppImage

A(z, o, d) == [z |-> z, o |-> o, d |-> d]

\* two areas x 3 bytes: same zone with a gap; two zones (the second >= 0x8000, the real Nano S flash zone);
\* an area running over a 64 KiB boundary next to an area starting at offset 0 two zones further;
\* adjacent areas; the same offsets in two zones
ImagesFull == {
    {A(0, 16, <<1, 2, 3>>),       A(0, 32, <<4, 5, 6>>)},
    {A(49360, 0, <<1, 2, 3>>),    A(2, 65533, <<4, 5, 6>>)},
    {A(7, 65534, <<1, 2, 3>>),    A(9, 0, <<4, 5, 6>>)},
    {A(1, 10, <<1, 2, 3>>),       A(1, 13, <<4, 5, 6>>)},
    {A(3, 5, <<1, 2, 3>>),        A(4, 5, <<4, 5, 6>>)} }

\* quick tier: 2 + 2 bytes
ImagesSmall == {
    {A(0, 16, <<1, 2>>),          A(0, 32, <<3, 4>>)},
    {A(49360, 0, <<1, 2>>),       A(2, 65534, <<3, 4>>)},
    {A(7, 65535, <<1, 2>>),       A(9, 0, <<3, 4>>)},
    {A(1, 10, <<1, 2>>),          A(1, 12, <<3, 4>>)},
    {A(3, 5, <<1, 2>>),           A(4, 5, <<3, 4>>)} }

\* unit id -> real length.  ImagesSmall: area 1 = units 1, 2; area 2 = units 3, 4.
\* ImagesFull: area 1 = units 1..3; area 2 = units 4..6.
UnitLensSmall == [ small           |-> <<1, 1, 1, 1>>,
                   page_multiple   |-> <<4096, 8192, 256, 3840>>,      \* 12288 and 4096
                   zone_multiple   |-> <<32768, 32768, 49152, 16384>>, \* 65536 and 65536
                   one_below       |-> <<4000, 95, 65000, 535>>,       \* 4095 and 65535
                   one_above       |-> <<4096, 1, 65536, 1>>,          \* 4097 and 65537
                   scaled          |-> <<2, 1, 3, 2>> ]                \* proportions only
UnitLensFull  == [ small           |-> <<1, 1, 1, 1, 1, 1>>,
                   page_multiple   |-> <<4096, 4096, 4096, 2048, 4096, 2048>>,      \* 12288 and 8192
                   zone_multiple   |-> <<32768, 16384, 16384, 16384, 16384, 32768>>,
                   one_below       |-> <<2048, 1024, 1023, 32768, 16384, 16383>>,   \* 4095 and 65535
                   one_above       |-> <<2048, 2048, 1, 32768, 32768, 1>>,          \* 4097 and 65537
                   scaled          |-> <<1, 1, 1, 2, 2, 1>> ]                       \* proportions only
AllSizes == {"small", "page_multiple", "zone_multiple", "one_below", "one_above"}

\* the size of the file as text: just below / just above 64 KiB, 1, 2 and 4 MiB of HEX text, with
\* records of 1, 3, 16, 32 and 255 bytes; LF and CRLF alternate over the combinations
ThrSeq  == <<65536, 1048576, 2097152, 4194304>>
RlenSeq == <<1, 3, 16, 32, 255>>
ScalesDef == {[thr |-> ThrSeq[t], side |-> sd, rlen |-> RlenSeq[r],
               eol |-> IF (t + r + (IF sd = "below" THEN 0 ELSE 1)) % 2 = 0 THEN "lf" ELSE "crlf"] :
                 t \in 1..4, r \in 1..5, sd \in {"below", "above"}}
ScalesBelow == {sc \in ScalesDef : sc.side = "below"}

\* invocation forms and setups (covering sets: every pair of values of two dimensions occurs)
\* opt: the tool's optional flag -v / --verbose present or absent
\* spell: how a path is written -- "plain"; through `d/..` of a real directory; through `link/..` of a
\* symbolic link to a directory elsewhere, with a different image of the same name at the place the
\* spelling collapses to lexically ("-decoy") or nothing there ("-empty"); through a link to the
\* directory; a symbolic link to the file itself; a doubled slash; an inner `/./`
FormsDef == << [addr |-> "rel",      cwd |-> "imgdir", pub |-> "rel",      spell |-> "plain", opt |-> "none"],
               [addr |-> "abs",      cwd |-> "imgdir", pub |-> "abs",      spell |-> "plain", opt |-> "-v"],
               [addr |-> "dotslash", cwd |-> "imgdir", pub |-> "otherdir", spell |-> "plain", opt |-> "--verbose"],
               [addr |-> "rel",      cwd |-> "other",  pub |-> "rel",      spell |-> "plain", opt |-> "-v"],
               [addr |-> "mixed",    cwd |-> "other",  pub |-> "abs",      spell |-> "plain", opt |-> "none"],
               [addr |-> "abs",      cwd |-> "other",  pub |-> "otherdir", spell |-> "plain", opt |-> "--verbose"],
               [addr |-> "rel",      cwd |-> "imgdir", pub |-> "rel",      spell |-> "dotdot-link-decoy", opt |-> "-v"],
               [addr |-> "abs",      cwd |-> "imgdir", pub |-> "abs",      spell |-> "dotdot-link-empty", opt |-> "none"],
               [addr |-> "rel",      cwd |-> "other",  pub |-> "rel",      spell |-> "dotdot-real", opt |-> "--verbose"],
               [addr |-> "dotslash", cwd |-> "imgdir", pub |-> "otherdir", spell |-> "via-link", opt |-> "-v"],
               [addr |-> "mixed",    cwd |-> "other",  pub |-> "abs",      spell |-> "file-link", opt |-> "none"],
               [addr |-> "rel",      cwd |-> "imgdir", pub |-> "otherdir", spell |-> "slashes", opt |-> "--verbose"],
               [addr |-> "abs",      cwd |-> "other",  pub |-> "rel",      spell |-> "inner-dot", opt |-> "-v"] >>
AltFormDef == <<5, 4, 6, 2, 1, 3, 11, 12, 13, 7, 8, 9, 10>>
SizeSeq == <<"small", "page_multiple", "zone_multiple", "one_below", "one_above">>
DirSeq  == <<"flat", "samename", "mixed", "blanks">>
SetupsDef     == {[size |-> SizeSeq[i], dirs |-> DirSeq[((i + j) % 4) + 1], form |-> j] : i \in 1..5, j \in 1..6}
                 \cup {[size |-> SizeSeq[i], dirs |-> DirSeq[((i + j) % 4) + 1], form |-> j] : i \in 1..2, j \in 7..13}
AuthSetupsDef == UNION {{[size |-> SizeSeq[i], dirs |-> DirSeq[((i + 2 * j) % 4) + 1], form |-> j] :
                           j \in {k \in 1..6 : (i + k) % 3 = 0}} : i \in 1..5}
                 \cup {[size |-> SizeSeq[((j - 1) % 5) + 1], dirs |-> DirSeq[(j % 4) + 1], form |-> j] : j \in 7..13}
\* quick tier: every size, directory layout and form at least once
SetupsQuick     == {[size |-> SizeSeq[((j - 1) % 5) + 1], dirs |-> DirSeq[((j - 1) % 4) + 1],
                     form |-> j] : j \in 1..13}
AuthSetupsQuick == {[size |-> SizeSeq[((j - 1) % 5) + 1], dirs |-> DirSeq[(j % 4) + 1], form |-> j] :
                      j \in {1, 3, 5} \cup (7..13)}
QuietSetups   == {s \in SetupsDef : s.form \in {1, 5}}      \* closed under AltForm, no optional flag
PlainSetups   == {s \in SetupsDef : s.form <= 6}
FlatSetups    == {s \in SetupsDef : s.dirs \in {"flat", "blanks"}}

\* image 3 is another file with the bytes of image 1
Contents3 == <<1, 2, 1>>
Contents4 == <<1, 2, 1, 3>>
SeqsUpTo(S, n) == UNION {[1..k -> S] : k \in 1..n}
Lists3x2 == SeqsUpTo(1..3, 2)
\* 1..4 images per run: every list of length <= 2, plus lists of 3 and 4 distinct-or-not picked to
\* contain the boundary (all four; a repeated image; same content twice)
Lists4 == SeqsUpTo(1..4, 2) \cup {<<1, 2, 3>>, <<3, 1, 1>>, <<4, 3, 2, 1>>, <<1, 2, 3, 4>>, <<2, 2, 4, 1>>}
=============================================================================
