SPECIFICATION Spec
CONSTANTS
  MaxRounds = 1
  MaxDepth = 3
  MaxDefects = 4
  MaxRenames = 1
  MaxWithRename = 3
  Spares = {"none", "fresh", "twin"}
  Embeds = {"none", "genuine", "foreign"}
INVARIANT Agree
INVARIANT ReportsTarget
INVARIANT OffPathIrrelevant
INVARIANT NamesFirstBad
INVARIANT NamesIrrelevant
INVARIANT LoadErrorIffNoPath
INVARIANT Bounded
CHECK_DEADLOCK FALSE
