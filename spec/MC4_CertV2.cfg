SPECIFICATION Spec
CONSTANTS
  MaxDepth = 3
  MaxDefects = 4
  Spares = {"none", "fresh", "twin"}
  Embeds = {"none", "genuine", "foreign"}
INVARIANT Agree
INVARIANT ReportsTarget
INVARIANT OffPathIrrelevant
INVARIANT NamesFirstBad
INVARIANT LoadErrorIffNoPath
INVARIANT Bounded
CHECK_DEADLOCK FALSE
