---------------------------- MODULE GenBringup ----------------------------
(* Generation configuration of Bringup: prints every complete behaviour.   *)
EXTENDS Bringup, Json
EmitB == Terminal => PrintT("B " \o ToJson([plat |-> plat, needchg |-> needchg, env |-> env,
                                              hist |-> hist, outcome |-> outcome]))
=============================================================================
