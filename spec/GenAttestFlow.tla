--------------------------- MODULE GenAttestFlow ---------------------------
(* Generation configuration of AttestFlow: prints every complete run       *)
(* (device shape, the one alteration, what the model's Sys ends up with).  *)
EXTENDS AttestFlow, Json
EmitB == Terminal => PrintT("B " \o ToJson([plat |-> obs.plat, framing |-> obs.framing, cfg |-> cfg,
                                              alt |-> alt, net |-> net, shape |-> shape, clock |-> clock, digest |-> digest, hist |-> hist, g_err |-> obs.g_err, g_onboard |-> obs.g_onboard,
                                              g_attest |-> obs.g_attest, gather |-> obs.gather,
                                              verify |-> obs.verify, verify2 |-> obs.verify2]))
=============================================================================
