SPECIFICATION FairSpec
CONSTANTS
  Pool = {"a", "b", "c", "d", "root"}
  MaxItems = 3
  MaxTargets = 1
  MaxOdd = 0
  Stretching = FALSE
INVARIANT WalkBound
INVARIANT StepBound
PROPERTY Terminates
CHECK_DEADLOCK FALSE
