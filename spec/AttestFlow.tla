------------------------------ MODULE AttestFlow ------------------------------
(***************************************************************************)
(* C15.  Env = a GENUINE device (symbolic keys root/issuer, device,        *)
(* attestation, wallet; UI and signer hashes; UD value; blockchain state)  *)
(* whose answers may be altered in exactly ONE place, plus the root of     *)
(* trust handed to the verifier.  Sys = the middleware's gathering and     *)
(* verification commands, one action per protocol step:                    *)
(*                                                                         *)
(*   Ledger  do_onboard (endorsement setup: handshake, device key          *)
(*           certificate, endorsement key + ack, save) ; do_attestation    *)
(*           (load, unlock, UI: app hash, UD value, pages 1..MaxUiPages,   *)
(*           signature; exit; signer: signature, message pages with the    *)
(*           legacy `HSM:SIGNER:` framing detection, envelope pages, app   *)
(*           hash; message = envelope; save) ; do_verify_attestation       *)
(*   SGX     do_attestation (message pages, envelope pages, envelope       *)
(*           split into a version-2 certificate) ; do_verify_attestation   *)
(*                                                                         *)
(* then load ; save of what was written and a second verification.         *)
(*                                                                         *)
(* The network is part of Env too: the user-defined (UD) value is either   *)
(* typed by the operator or the hash of the best block of a Rootstock node *)
(* (two JSON-RPC calls; the node may answer properly - possibly with the   *)
(* chain growing or reorganising between the calls - or misbehave at       *)
(* either call), and SGX verification reads the root of trust from a file  *)
(* or fetches it from a URL (right PEM, another root, 404, garbage).       *)
(*                                                                         *)
(* TIME: the certificates of the SGX chain have validity periods and the   *)
(* verifier reads the clock of the machine it runs on.  Env chooses the    *)
(* time zone of that machine (POSIX TZ strings) and may put one edge of    *)
(* one certificate's period close to "now": issued / expiring within the   *)
(* hour (in period: the chain must verify whatever the zone), expired /    *)
(* not yet valid by an hour (out of period: it must be refused whatever    *)
(* the zone).  Nothing on the Ledger path reads the clock.                 *)
(*                                                                         *)
(* The SHAPE of every DIGEST the verifier compares (or turns into a key)   *)
(* is a dimension too: SHA-256(custom message) and SHA-256(attestation key *)
(* | QE auth data) in the report data fields, the public-keys hash inside  *)
(* the signed message, the HMAC tweaks and the app hashes on Ledger may    *)
(* end in 0x00 (z1), in 0x00 0x00 (z2), in a blank (sp) or a line feed     *)
(* (nl), or start with 0x00 (lz).  A genuine device reaches every class.   *)
(*                                                                         *)
(* HISTORIES: the tools are run more than once over the same files.  Env   *)
(* may have the attestation gathered twice, the device's state (UD value,  *)
(* best block, last signed tx, timestamp) changing in between and the one  *)
(* alteration, if any, happening in the SECOND run:                        *)
(*   reattest  the second run is given the OUTPUT of the first as its      *)
(*             input certificate and writes a new file                     *)
(*   inplace   the same, writing over its own input                        *)
(*   sameout   both runs start from the onboarding certificate and write   *)
(*             to the same path (SGX: two runs, one output path)           *)
(*   reuse0 / two   both runs start afresh and write to different paths    *)
(* What is verified at the end is the file of the second run; files of the *)
(* first run that were not to be overwritten must stay as they were.       *)
(*                                                                         *)
(* The SHAPE of every signature a genuine device (or Intel) produces is an *)
(* Env dimension as well: the byte lengths of r and s decide how a         *)
(* signature is encoded (DER minimal integers on Ledger and in X.509,      *)
(* fixed 32-byte fields in the SGX envelope, which the gatherer re-encodes *)
(* as DER).  Classes per component: h32 (32 bytes, high bit set), l32,     *)
(* b31h / b31l (a leading zero byte, then high bit set / clear), b30 (two  *)
(* leading zero bytes); s = h32 is a high-s signature (P-256 only).        *)
(* Messages are sequences of field ids, an altered field is "X", an        *)
(* altered signature is NoSig (perfect cryptography, DESIGN.md 3.3).       *)
(* Observations and properties come from AttestFlowProps, shared with the  *)
(* trace specification that judges the real commands.                      *)
(***************************************************************************)
EXTENDS AttestFlowProps

CONSTANTS Platforms,        \* subset of {"ledger", "sgx"}
          Framings,         \* subset of {"current", "legacy"}  (Ledger signer message)
          PageCounts,       \* pages of the UI / signer / custom message (subset of 1..4)
          EnvPages,         \* pages of the SGX envelope: 1, 2 or 99 (= one part per page)
          QeAuthSizes,      \* QE authentication data size classes {0, 1, 32, 1000}
          PemCounts,        \* certificates in the QE certification data {2, 3}
          MaxUiPages,       \* HSM2Dongle.MAX_PAGES_UI_ATT_MESSAGE
          EmptyAuthRefused, \* TRUE: the gatherer refuses a 0-byte QE auth data (as the code did)
          UdSources,        \* subset of {"hex", "node"}
          RootVias,         \* subset of {"file", "url"}   (SGX verification)
          Bug               \* "none" | a seeded defect of Sys (negative configurations only)

VARIABLES dev, cfg, alt,    \* Env: ground truth, shape of the answers, the one alteration
          net,              \* Env: [ud: "hex" | what the node does, at: which call, rootvia: "file" | "url"]
          shape,            \* Env: [site: which signature (or "all" / "none"), cls: "<r class>/<s class>"]
          clock,            \* Env: [tz, who: "none" | "pck" | "pca" | "root", kind: "far" | "issued1h" | ...]
          digest,           \* Env: [site: which digest (or "none"), cls: "ord" | "z1" | "z2" | "lz" | "sp" | "nl"]
          hist,             \* Env: "single" | "reattest" | "inplace" | "sameout" | "reuse0" | "two"
          pc, acc,          \* Sys: program counter, what was gathered so far
          obs               \* the observation (AttestFlowProps)
vars == <<dev, cfg, alt, net, shape, clock, digest, hist, pc, acc, obs>>

(***************************************************************************)
(* Ground truth of a genuine device.                                       *)
(***************************************************************************)
Keys2 == << <<"p_btc", "k_btc">>, <<"p_rsk", "k_rsk">> >>
\* the UD value the run is about: typed, or the hash the node reports for block n at the second call
UdTruth(nt) == IF nt.ud = "reorg" THEN "h_n_new" ELSE IF nt.ud \in ProperNode THEN "h_n" ELSE "ud"
LedgerDev(fr, nt) ==
    [plat |-> "ledger", framing |-> fr, ud |-> UdTruth(nt), btc_c |-> "k_btc", auth_hash |-> "h_sg",
     iter |-> "iter", ui_hash |-> "h_ui", ui_ver |-> "v_ui", keys |-> Keys2, pkhash |-> "pkh",
     signer_hash |-> "h_sg", s_ver |-> "v_sg", platform |-> "led", best |-> "bb", ltx |-> "ltx",
     ts |-> "ts", mrenclave |-> "", mrsigner |-> ""]
SgxDev(nt) ==
    [plat |-> "sgx", framing |-> "current", ud |-> UdTruth(nt), btc_c |-> "", auth_hash |-> "", iter |-> "",
     ui_hash |-> "", ui_ver |-> "", keys |-> Keys2, pkhash |-> "pkh", signer_hash |-> "",
     s_ver |-> "v_sg", platform |-> "sgx", best |-> "bb", ltx |-> "ltx", ts |-> "ts",
     mrenclave |-> "mre", mrsigner |-> "mrs"]

LedgerCfgs(fr) == {[uip |-> u, sp |-> IF fr = "legacy" THEN 1 ELSE s, ep |-> 0, qeauth |-> 0, npem |-> 0] :
                     u \in PageCounts, s \in PageCounts}
SgxCfgs == {[uip |-> 0, sp |-> s, ep |-> e, qeauth |-> q, npem |-> n] :
              s \in PageCounts, e \in EnvPages, q \in QeAuthSizes, n \in PemCounts}
\* one plain shape per platform, for the runs that are about the network rather than about the device
Cfg1(p, fr) == IF p = "ledger" THEN [uip |-> 1, sp |-> 1, ep |-> 0, qeauth |-> 0, npem |-> 0]
               ELSE [uip |-> 0, sp |-> 1, ep |-> 1, qeauth |-> 32, npem |-> 2]

(***************************************************************************)
(* The network: where the UD value comes from, where the root comes from.  *)
(***************************************************************************)
BadAny == {"status", "badid", "notjson", "noresult"}      \* at either call
Bad1   == {"nothex"}                                        \* block number not hexadecimal
Bad2   == {"nohash", "nullblock", "hashlen", "hashnothex", "hashnoprefix"}
NodeChoices == {<<b, 0>> : b \in ProperNode} \cup {<<b, k>> : b \in BadAny, k \in {1, 2}}
               \cup {<<b, 1>> : b \in Bad1} \cup {<<b, 2>> : b \in Bad2}
Net(u, k, via) == [ud |-> u, at |-> k, rootvia |-> via]
\* the network dimension is explored on genuine devices (all shapes with a proper node or a root by
\* URL; the plain shape with a misbehaving node); a root of trust that is altered is also served by URL
Nets(p, fr, c, a) ==
    (IF a.site = "root" /\ a.idx \in {4, 5} THEN {} ELSE {Net("hex", 0, "file")})
    \cup (IF "node" \in UdSources /\ a = [site |-> "none", idx |-> 0]
          THEN {Net(x[1], x[2], "file") : x \in {y \in NodeChoices : y[1] \in ProperNode \/ c = Cfg1(p, fr)}}
          ELSE {})
    \cup (IF p = "sgx" /\ "url" \in RootVias
             /\ (a = [site |-> "none", idx |-> 0] \/ (a.site = "root" /\ c = Cfg1(p, fr)))
          THEN {Net("hex", 0, "url")} ELSE {})

(***************************************************************************)
(* The one altered thing: [site, idx]; idx = field index / page / variant. *)
(***************************************************************************)
NoAlt == [site |-> "none", idx |-> 0]
A0(sites) == {[site |-> s, idx |-> 0] : s \in sites}
AI(site, idxs) == {[site |-> site, idx |-> i] : i \in idxs}
UiFieldIdx == 1..6                             \* hdr, ver, ud, pub, shash, iter
SgFieldIdx(fr) == IF fr = "legacy" THEN 1..3 ELSE 1..8   \* hdr, ver, [plat, ud,] pkh [, best, ltx, ts]
LedgerAlts(fr, c) ==
    {NoAlt} \cup A0({"dc_hdr", "dc_key", "dc_sig", "en_key", "en_sig", "ui_hash", "ui_sig", "s_hash", "s_sig"})
    \cup AI("root", {1, 2})                    \* 1: another key, 2: not a point any more
    \cup AI("ui_fld", UiFieldIdx) \cup AI("ui_page", 1..c.uip)
    \cup AI("s_fld", SgFieldIdx(fr)) \cup AI("s_mpage", 1..c.sp)
    \cup (IF fr = "legacy" THEN {} ELSE AI("s_epage", 1..c.sp))
SgxAlts(c) ==
    {NoAlt} \cup A0({"q_hdr", "q_sig", "att_key", "qe_sig", "pck_tbs", "pck_sig", "pca_tbs", "pca_sig"})
    \cup AI("q_body", {2, 3, 4, 5})            \* other, mrenclave, mrsigner, report data
    \cup AI("qe_body", {1, 2})                 \* other, report data
    \cup (IF c.qeauth > 0 THEN A0({"qe_auth"}) ELSE {})
    \cup AI("cm_fld", 1..8)                   \* the enclave's buffer: message and envelope tail alike
    \cup AI("cm_msg", {1, 8}) \cup AI("cm_env", {1, 8})     \* one of the two transmissions only
    \cup AI("root", {1, 2, 3, 4, 5})           \* another self-signed root, TBS byte, signature byte;
                                               \* by URL only: 4 = HTTP 404, 5 = a body that is no PEM

(***************************************************************************)
(* Time.                                                                   *)
(***************************************************************************)
Zones == {"UTC0", "PST8", "JST-9", "<+14>-14", "<-12>12"}
West  == {"PST8", "<-12>12"}          \* local time BEHIND UTC
East  == {"JST-9", "<+14>-14"}        \* local time AHEAD of UTC
NoClock == [tz |-> "UTC0", who |-> "none", kind |-> "far"]
InKinds  == {"issued1h", "expires1h"}
OutKinds == {"expired1h", "notyet1h"}
ClockChoices(p, fr, c, a, nt, sh) ==
    {NoClock} \cup
    (IF p = "sgx" /\ a = [site |-> "none", idx |-> 0] /\ c = Cfg1(p, fr) /\ nt = Net("hex", 0, "file")
        /\ sh = [site |-> "none", cls |-> "any"]
     THEN {[tz |-> z, who |-> "none", kind |-> "far"] : z \in Zones}
          \cup {[tz |-> z, who |-> w, kind |-> k] : z \in Zones, w \in {"pck", "pca", "root"},
                                                   k \in InKinds \cup OutKinds}
     ELSE {})
\* is the certificate `who` inside its validity period, as the verifier's clock sees it?  A verifier
\* that takes LOCAL time for UTC (Bug "localtime") sees "now" earlier in the west, later in the east
InPeriod(who) ==
    IF clock.who # who THEN TRUE
    ELSE IF Bug = "localtime" /\ clock.tz \in West THEN clock.kind \in {"expires1h", "expired1h"}
    ELSE IF Bug = "localtime" /\ clock.tz \in East THEN clock.kind \in {"issued1h", "notyet1h"}
    ELSE clock.kind \in InKinds

(***************************************************************************)
(* Digest shapes.                                                          *)
(***************************************************************************)
NoDigest == [site |-> "none", cls |-> "ord"]
DigestClasses == {"z1", "z2", "lz", "sp", "nl"}
DigestSites(p) == IF p = "ledger" THEN {"pkh", "tw_ui", "tw_sg", "ui_hash", "s_hash"} ELSE {"cm", "ak", "pkh"}
DigestChoices(p, fr, c, a, nt, sh, ck) ==
    {NoDigest} \cup
    (IF a = [site |-> "none", idx |-> 0] /\ c = Cfg1(p, fr) /\ nt = Net("hex", 0, "file")
        /\ sh = [site |-> "none", cls |-> "any"] /\ ck = [tz |-> "UTC0", who |-> "none", kind |-> "far"]
     THEN {[site |-> st, cls |-> cl] : st \in DigestSites(p), cl \in DigestClasses} ELSE {})
DigestAt(site) == IF digest.site = site THEN digest.cls ELSE "ord"
\* a comparison that strips trailing zero bytes from the field first loses a digest that ends in one
Compares(site) == ~(Bug = "rstrip" /\ DigestAt(site) \in {"z1", "z2"})

Multi == hist # "single"
\* the one alteration happens in the run that produces the verified file
Is(site) == alt.site = site /\ (~Multi \/ acc.round = 2)
\* histories are explored on the plain shape, typed UD values, the root from a file, any alteration that
\* can happen in an attestation run (the onboarding answers are not asked for again)
OnboardSites == {"dc_hdr", "dc_key", "dc_sig", "en_key", "en_sig"}
Hists(p, fr, c, a, nt, sh, dg, ck) ==
    {"single"} \cup
    (IF c = Cfg1(p, fr) /\ nt = Net("hex", 0, "file") /\ sh = [site |-> "none", cls |-> "any"]
        /\ dg = [site |-> "none", cls |-> "ord"] /\ ck = [tz |-> "UTC0", who |-> "none", kind |-> "far"]
        /\ a.site \notin OnboardSites
     THEN (IF p = "ledger" THEN {"reattest", "inplace", "sameout", "reuse0"} ELSE {"sameout", "two"})
     ELSE {})
\* the device's blockchain state in run r (it moves on between the runs), and the UD value it was handed
StateOf(r) == IF Multi /\ r = 1 THEN [best |-> "bb1", ltx |-> "ltx1", ts |-> "ts1"]
              ELSE [best |-> dev.best, ltx |-> dev.ltx, ts |-> dev.ts]
UdHanded(r) == IF r = acc.round THEN acc.ud ELSE "ud1"
DevPrev == [dev EXCEPT !.ud = "ud1", !.best = "bb1", !.ltx = "ltx1", !.ts = "ts1"]

(***************************************************************************)
(* Signature shapes.                                                       *)
(***************************************************************************)
NoShape == [site |-> "none", cls |-> "any"]
ShapesP256 == {"h32/h32", "l32/l32", "h32/l32", "l32/h32", "b31l/any", "b31h/any", "any/b31l", "any/b31h",
               "b30/any"}
\* libsecp256k1 (the verifier's library) refuses high-s by design and BOLOS signs low-s: no s = h32
ShapesSecp == {"h32/l32", "l32/l32", "b31l/any", "b31h/any", "any/b31l", "any/b31h", "b30/any"}
\* the quote signature - which the enclave also hands out DER-encoded by its own encoder - is explored
\* over every class of r with every class of s
Comps == {"h32", "l32", "b31l", "b31h", "b30"}
ShapesQuote == {a \o "/" \o b : a \in Comps, b \in Comps}
\* firmware/src/hal/sgx/src/trusted/der_utils.c decides about the sign byte before trimming leading
\* zeros: a component 00 8x.. is answered as a DER integer WITHOUT sign byte (not what a library emits)
FwStandard(cls) == cls \notin {a \o "/" \o b : a \in {"b31h"}, b \in Comps \cup {"any"}}
                   /\ cls \notin {a \o "/" \o b : a \in Comps \cup {"any"}, b \in {"b31h"}}
SigSites(p) == IF p = "ledger" THEN {"dc", "en", "ui", "sg", "all"}
               ELSE {"q_sig", "qe_sig", "pck", "pca", "root", "all"}
\* explored on genuine devices of the plain shape, with a typed UD value and the root from a file
ShapeChoices(p, fr, c, a, nt) ==
    {NoShape} \cup
    (IF a = [site |-> "none", idx |-> 0] /\ c = Cfg1(p, fr) /\ nt = Net("hex", 0, "file")
     THEN {[site |-> st, cls |-> cl] : st \in SigSites(p),
                                       cl \in IF p = "ledger" THEN ShapesSecp ELSE ShapesP256}
          \cup (IF p = "sgx" THEN {[site |-> "q_sig", cls |-> cl] : cl \in ShapesQuote} ELSE {})
     ELSE {})
ShapeAt(site) == IF shape.site \in {site, "all"} THEN shape.cls ELSE "any"
\* a 32-byte field that starts with a zero byte followed by a byte below 0x80: its DER integer must
\* drop the zero (minimal encoding)
NeedsStrip(cls) == cls \in {"b31l/any", "any/b31l", "b30/any"}
                   \/ cls \in {a \o "/" \o b : a \in {"b31l", "b30"}, b \in Comps}
                   \/ cls \in {a \o "/" \o b : a \in Comps, b \in {"b31l", "b30"}}
\* raw (r, s) of the envelope -> DER, as the gatherer does it
ToDer(sig, cls) == IF Bug = "derpad" /\ NeedsStrip(cls) THEN NoSig ELSE sig

(***************************************************************************)
(* Paging: n non-empty pages of a sequence, [more, data].                  *)
(***************************************************************************)
PageLo(L, n, i) == ((i - 1) * L) \div n + 1
PageHi(L, n, i) == (i * L) \div n
PageOf(s, n, i) == SubSeq(s, PageLo(Len(s), n, i), PageHi(Len(s), n, i))
SetTok(s, i) == [s EXCEPT ![i] = "X"]
AlterLast(s) == SetTok(s, Len(s))

(***************************************************************************)
(* Env: what the genuine Ledger device answers (alteration applied).       *)
(***************************************************************************)
DevMsg  == <<"02", "hdr", "k_dev">>
EndoMsg == <<"ff", "k_att">>
\* the device signs the UD value it is HANDED (acc.ud), which need not be the one intended (dev.ud)
UiMsg   == <<"HSM:UI:", dev.ui_ver, acc.ud, dev.btc_c, dev.auth_hash, dev.iter>>
PowMsgR(r) == <<"POWHSM:", dev.s_ver, dev.platform, UdHanded(r), dev.pkhash,
                 StateOf(r).best, StateOf(r).ltx, StateOf(r).ts>>
PowMsg  == PowMsgR(acc.round)
SgMsg   == IF dev.framing = "legacy" THEN <<"HSM:SIGNER:", dev.s_ver, dev.pkhash>> ELSE PowMsg

AnsDevKey == [hdr |-> IF Is("dc_hdr") THEN "X" ELSE "hdr",
              key |-> IF Is("dc_key") THEN "X" ELSE "k_dev",
              sig |-> IF Is("dc_sig") THEN NoSig ELSE Sign("k_root", "none", DevMsg)]
AnsEndo   == [key |-> IF Is("en_key") THEN "X" ELSE "k_att",
              sig |-> IF Is("en_sig") THEN NoSig ELSE Sign("k_dev", "none", EndoMsg)]
AnsUiHash == IF Is("ui_hash") THEN "X" ELSE dev.ui_hash
UiBuf     == IF Is("ui_fld") THEN SetTok(UiMsg, alt.idx) ELSE UiMsg
AnsUiPage(p) == LET pg == PageOf(UiBuf, cfg.uip, p) IN
                [more |-> p < cfg.uip,
                 data |-> IF Is("ui_page") /\ alt.idx = p THEN AlterLast(pg) ELSE pg]
AnsUiSig  == IF Is("ui_sig") THEN NoSig ELSE Sign("k_att", dev.ui_hash, UiMsg)
SgBuf     == IF Is("s_fld") THEN SetTok(SgMsg, alt.idx) ELSE SgMsg
AnsSgSig  == IF Is("s_sig") THEN NoSig ELSE Sign("k_att", dev.signer_hash, SgMsg)
AnsSgPage(kind, p) == LET pg == PageOf(SgBuf, cfg.sp, p) IN
                      [more |-> p < cfg.sp,
                       data |-> IF Is(kind) /\ alt.idx = p THEN AlterLast(pg) ELSE pg]
AnsSgLegacy(p) == IF Is("s_mpage") /\ alt.idx = p THEN AlterLast(SgBuf) ELSE SgBuf
AnsSgHash == IF Is("s_hash") THEN "X" ELSE dev.signer_hash

(***************************************************************************)
(* Env: the SGX enclave's message and envelope (alteration applied).       *)
(***************************************************************************)
AuthTok == IF cfg.qeauth = 0 THEN "auth_empty" ELSE "auth"
HashOf(x) == IF x = PowMsgR(1) THEN "H_cm1" ELSE IF x = PowMsgR(2) THEN "H_cm2"
             ELSE IF x = <<"k_att", AuthTok>> THEN "H_ak" ELSE "H_other"
QuoteMsg == <<"qhdr", "qother", dev.mrenclave, dev.mrsigner, IF acc.round = 1 THEN "H_cm1" ELSE "H_cm2">>
QeBody   == <<"qeother", "H_ak">>
Cert(subj, key, issuer) == [tbs |-> <<subj, key>>, sig |-> Sign(issuer, "none", <<subj, key>>)]
AlterCert(c, tbs_site, sig_site) ==
    IF Is(tbs_site) THEN [c EXCEPT !.tbs = SetTok(@, 2)]
    ELSE IF Is(sig_site) THEN [c EXCEPT !.sig = NoSig] ELSE c
EnvParts ==
    [quote  |-> IF Is("q_hdr") THEN SetTok(QuoteMsg, 1)
                ELSE IF Is("q_body") THEN SetTok(QuoteMsg, alt.idx) ELSE QuoteMsg,
     qsig   |-> IF Is("q_sig") THEN NoSig ELSE Sign("k_att", "none", QuoteMsg),
     attkey |-> IF Is("att_key") THEN "X" ELSE "k_att",
     qebody |-> IF Is("qe_body") THEN SetTok(QeBody, alt.idx) ELSE QeBody,
     qesig  |-> IF Is("qe_sig") THEN NoSig ELSE Sign("k_pck", "none", QeBody),
     auth   |-> IF Is("qe_auth") THEN "X" ELSE AuthTok,
     pck    |-> AlterCert(Cert("pck", "k_pck", "k_pca"), "pck_tbs", "pck_sig"),
     pca    |-> AlterCert(Cert("pca", "k_pca", "k_root"), "pca_tbs", "pca_sig"),
     custom |-> IF Is("cm_fld") \/ Is("cm_env") THEN SetTok(PowMsg, alt.idx) ELSE PowMsg]
MsgBuf == IF Is("cm_fld") \/ Is("cm_msg") THEN SetTok(PowMsg, alt.idx) ELSE PowMsg
\* the envelope as transmitted: a sequence of parts
EnvTok == <<"quote", "siglen", "qsig", "attkey", "qebody", "qesig", "authsz", "auth", "certhdr",
            "pem_pck", "pem_pca">> \o (IF cfg.npem = 3 THEN <<"pem_root">> ELSE <<>>) \o <<"custom">>
EnvPageCount == IF cfg.ep = 99 THEN Len(EnvTok) ELSE cfg.ep
\* the root of trust handed to the verifier
RootKeyGiven == IF Is("root") THEN (IF alt.idx = 1 THEN "k_other" ELSE "invalid") ELSE "k_root"
RootCertGiven == IF ~Is("root") THEN Cert("root", "k_root", "k_root")
                 ELSE IF alt.idx = 1 THEN Cert("root", "k_other", "k_other")
                 ELSE IF alt.idx = 2 THEN [Cert("root", "k_root", "k_root") EXCEPT !.tbs = SetTok(@, 1)]
                 ELSE [Cert("root", "k_root", "k_root") EXCEPT !.sig = NoSig]
\* what the web server answers to the GET of the root of trust
RootGet == [status |-> IF Is("root") /\ alt.idx = 4 THEN "404" ELSE "200",
            pem    |-> ~(Is("root") /\ alt.idx = 5)]

(***************************************************************************)
(* Env: the Rootstock node.  An HTTP answer is [status, json, id, result]; *)
(* the result of the second call is a block [kind, prefix, body, ok32].    *)
(***************************************************************************)
NoBlock == [kind |-> "none", prefix |-> TRUE, body |-> "", ok32 |-> FALSE]
Answer(k, result, block) ==
    [status |-> IF net.ud = "status" /\ net.at = k THEN "500" ELSE "200",
     json   |-> ~(net.ud = "notjson" /\ net.at = k),
     id     |-> IF net.ud = "badid" /\ net.at = k THEN "other" ELSE "same",
     result |-> IF net.ud = "noresult" /\ net.at = k THEN "missing" ELSE result,
     block  |-> block]
NodeAns1 == Answer(1, IF net.ud = "nothex" THEN "nz" ELSE "0xn", NoBlock)
\* the block the node holds at height n when the second call arrives
NodeAns2(asked) ==
    IF asked # "0xn" THEN Answer(2, "null", NoBlock)
    ELSE Answer(2, IF net.ud = "nullblock" THEN "null" ELSE "block",
                [kind   |-> IF net.ud = "nohash" THEN "nohash" ELSE "block",
                 prefix |-> net.ud # "hashnoprefix",
                 body   |-> IF net.ud = "reorg" THEN "h_n_new" ELSE "h_n",
                 ok32   |-> net.ud \notin {"hashlen", "hashnothex"}])

(***************************************************************************)
(* Sys.                                                                    *)
(***************************************************************************)
El(n, by, tw, msg, sig, aux) == [name |-> n, by |-> by, tw |-> tw, msg |-> msg, sig |-> sig, aux |-> aux]
ElOf(file, n) == LET I == {i \in 1..Len(file) : file[i].name = n} IN file[CHOOSE i \in I : TRUE]
Has(file, n) == \E i \in 1..Len(file) : file[i].name = n
Acc0 == [round |-> 1, ud |-> "", n |-> "", dc |-> [hdr |-> "", key |-> "", sig |-> NoSig], en |-> [key |-> "", sig |-> NoSig],
         ui_hash |-> "", ui_msg |-> <<>>, ui_sig |-> NoSig, s_sig |-> NoSig, s_msg |-> <<>>,
         s_env |-> <<>>, s_hash |-> "", page |-> 1]
Obs0(p, d, a, nt) ==
                 [udsrc |-> IF nt.ud = "hex" THEN "hex" ELSE "node", node |-> nt.ud, node_at |-> nt.at,
                  node_n |-> "0xn", node_url |-> "node_url", rootvia |-> nt.rootvia, root_url |-> "root_url",
                  http |-> <<>>, ud_sent |-> "", att_file |-> "no", contacted |-> "no",
                  g_err |-> "none", v_err |-> "none",
                  tz |-> "UTC0", when_who |-> "none", when_kind |-> "far",
                  sigsite |-> "none", sigclass |-> "any", digsite |-> "none", digclass |-> "ord",
                  hist |-> "single", dev_prev |-> d, prev_ok |-> "na", prevfile |-> <<>>,
                  earlier_before |-> <<>>, earlier_after |-> <<>>,
                  verify_prev |-> "na", printed_prev |-> NoPrinted,
                  plat |-> p, framing |-> d.framing, alt |-> a.site, dev |-> d,
                  g_onboard |-> "na", g_attest |-> "na", gather |-> "fail",
                  file0 |-> <<>>, reload0 |-> <<>>, file |-> <<>>, reload |-> <<>>, reload_ok |-> "na",
                  verify |-> "na", printed |-> NoPrinted, verify2 |-> "na", printed2 |-> NoPrinted]

Init == /\ acc = Acc0
        /\ \E p \in Platforms :
             IF p = "ledger"
             THEN \E fr \in Framings : \E c \in LedgerCfgs(fr) : \E a \in LedgerAlts(fr, c) :
                  \E nt \in Nets(p, fr, c, a) : \E sh \in ShapeChoices(p, fr, c, a, nt) :
                  \E dg \in DigestChoices(p, fr, c, a, nt, sh, NoClock) :
                  \E h \in Hists(p, fr, c, a, nt, sh, dg, NoClock) :
                    /\ dev = LedgerDev(fr, nt) /\ cfg = c /\ alt = a /\ net = nt /\ shape = sh /\ pc = "onboard"
                    /\ hist = h /\ digest = dg /\ clock = NoClock
                    /\ obs = [Obs0(p, LedgerDev(fr, nt), a, nt) EXCEPT !.sigsite = sh.site, !.sigclass = sh.cls,
                                                                       !.digsite = dg.site, !.digclass = dg.cls,
                                                                       !.hist = h]
             ELSE \E c \in SgxCfgs : \E a \in SgxAlts(c) : \E nt \in Nets(p, "current", c, a) :
                  \E sh \in ShapeChoices(p, "current", c, a, nt) :
                  \E ck \in ClockChoices(p, "current", c, a, nt, sh) :
                  \E dg \in DigestChoices(p, "current", c, a, nt, sh, ck) :
                  \E h \in Hists(p, "current", c, a, nt, sh, dg, ck) :
                    /\ dev = SgxDev(nt) /\ cfg = c /\ alt = a /\ net = nt /\ shape = sh /\ pc = "ud" /\ hist = h
                    /\ digest = dg /\ clock = ck
                    /\ obs = [Obs0(p, SgxDev(nt), a, nt) EXCEPT !.sigsite = sh.site, !.sigclass = sh.cls,
                                                                !.tz = ck.tz, !.when_who = ck.who, !.when_kind = ck.kind,
                                                                !.alt = IF ck.kind \in OutKinds THEN "period" ELSE a.site,
                                                                !.digsite = dg.site, !.digclass = dg.cls,
                                                                !.hist = h]

Go(p) == pc' = p
Keep == UNCHANGED <<dev, cfg, alt, net, shape, clock, digest, hist>>
FailOnboard == /\ obs' = [obs EXCEPT !.g_onboard = "fail"] /\ Go("done")
FailAttest  == /\ obs' = [obs EXCEPT !.g_attest = "fail", !.g_err = "AdminError"] /\ Go("done")

\* ---- both: get_ud_value_for_attestation (before the device is touched) ----------------
AfterUd == IF obs.plat = "ledger" THEN "unlock" ELSE "sx_unlock"
Rpc(m, ps) == [verb |-> "post", url |-> "node_url", ctype |-> "application/json", version |-> "2.0",
               idkind |-> "int", method |-> m, params |-> ps]
\* RskClient._request: any of these ends in RskClientError, which becomes an AdminError
RpcFails(r) == \/ (r.status # "200" /\ Bug # "nostatus") \/ ~r.json
               \/ (r.id # "same" /\ Bug # "noidcheck") \/ r.result = "missing"
UdFails(kind) == /\ obs' = [obs EXCEPT !.g_attest = "fail", !.g_err = kind,
                                        !.http = Append(@, IF pc = "ud" THEN Rpc("eth_blockNumber", <<>>)
                                                           ELSE Rpc("eth_getBlockByNumber", <<acc.n, "false">>))]
                 /\ Go("done") /\ UNCHANGED acc
GetUdTyped == /\ pc = "ud" /\ net.ud = "hex"
              /\ acc' = [acc EXCEPT !.ud = IF Multi /\ acc.round = 1 THEN "ud1" ELSE "ud"]
              /\ Go(AfterUd) /\ Keep /\ UNCHANGED obs
NodeCall1 == /\ pc = "ud" /\ net.ud # "hex" /\ Keep
             /\ LET r == NodeAns1 IN
                IF RpcFails(r) \/ r.result # "0xn"            \* int(result, 16) inside the client's try
                THEN UdFails("AdminError")
                ELSE /\ acc' = [acc EXCEPT !.n = r.result] /\ Go("ud2")
                     /\ obs' = [obs EXCEPT !.http = Append(@, Rpc("eth_blockNumber", <<>>))]
\* best_block["hash"][2:] and the 32-byte check happen OUTSIDE the client's try: a null block, a block
\* without hash or a malformed hash escape as TypeError / KeyError / ValueError (as the code is)
NodeCall2 == /\ pc = "ud2" /\ Keep
             /\ LET r == NodeAns2(acc.n)
                    b == r.block
                    stripped_ok == IF Bug = "udslice" THEN ~b.prefix /\ b.ok32 ELSE b.prefix /\ b.ok32
                IN IF RpcFails(r) THEN UdFails("AdminError")
                   ELSE IF r.result = "null" \/ b.kind # "block" \/ ~stripped_ok THEN UdFails("raw")
                   ELSE /\ acc' = [acc EXCEPT !.ud = b.body] /\ Go(AfterUd)
                        /\ obs' = [obs EXCEPT !.http = Append(@, Rpc("eth_getBlockByNumber", <<acc.n, "false">>))]
\* load ; save of a certificate document: the model abstracts the JSON encoding away
Reloaded(file) == file

\* ---- Ledger: do_onboard ----------------------------------------
Onboard   == pc = "onboard" /\ Go("handshake") /\ Keep /\ UNCHANGED <<acc, obs>>
Handshake == pc = "handshake" /\ Go("devkey") /\ Keep /\ UNCHANGED <<acc, obs>>
GetDeviceKey == /\ pc = "devkey" /\ acc' = [acc EXCEPT !.dc = AnsDevKey]
                /\ Go("endo") /\ Keep /\ UNCHANGED obs
SetupEndo == /\ pc = "endo" /\ acc' = [acc EXCEPT !.en = AnsEndo]
             /\ Go("endoack") /\ Keep /\ UNCHANGED obs
EndoAck   == pc = "endoack" /\ Go("save0") /\ Keep /\ UNCHANGED <<acc, obs>>
File0 == << El("attestation", "device", "none", <<"ff", acc.en.key>>, acc.en.sig, <<>>),
            El("device", "root", "none", <<"02", acc.dc.hdr, acc.dc.key>>, acc.dc.sig, <<>>) >>
SaveAttCert == /\ pc = "save0"
               /\ obs' = [obs EXCEPT !.g_onboard = "ok", !.file0 = File0, !.reload0 = Reloaded(File0)]
               /\ Go("load0") /\ Keep /\ UNCHANGED acc

\* ---- Ledger: do_attestation ----------------------------------------
LoadAttCert == pc = "load0" /\ Go("ud") /\ Keep /\ UNCHANGED <<acc, obs>>
Unlock    == /\ pc = "unlock" /\ Go("ui_hash") /\ Keep /\ UNCHANGED acc
             /\ obs' = [obs EXCEPT !.contacted = "yes"]
UiAppHash == /\ pc = "ui_hash" /\ acc' = [acc EXCEPT !.ui_hash = AnsUiHash]
             /\ Go("ui_ud") /\ Keep /\ UNCHANGED obs
UiUd      == /\ pc = "ui_ud" /\ acc' = [acc EXCEPT !.page = 1, !.ui_msg = <<>>]
             /\ Go("ui_page") /\ Keep /\ obs' = [obs EXCEPT !.ud_sent = acc.ud]
PageLimit == IF Bug = "maxpages" THEN MaxUiPages - 1 ELSE MaxUiPages
UiPage    == /\ pc = "ui_page" /\ Keep
             /\ IF acc.page > PageLimit
                THEN FailAttest /\ UNCHANGED acc
                ELSE LET a == AnsUiPage(acc.page) IN
                     /\ acc' = [acc EXCEPT !.ui_msg = @ \o a.data, !.page = @ + 1]
                     /\ Go(IF a.more THEN "ui_page" ELSE "ui_sig") /\ UNCHANGED obs
UiSig     == /\ pc = "ui_sig" /\ acc' = [acc EXCEPT !.ui_sig = AnsUiSig]
             /\ Go("exit_ui") /\ Keep /\ UNCHANGED obs
ExitUi    == pc = "exit_ui" /\ Go("sg_get") /\ Keep /\ UNCHANGED <<acc, obs>>
SgGet     == /\ pc = "sg_get" /\ acc' = [acc EXCEPT !.s_sig = AnsSgSig, !.page = 1, !.s_msg = <<>>]
             /\ Go("sg_msg") /\ Keep /\ UNCHANGED obs
\* GET_MESSAGE: an answer starting with the legacy header is the whole message, with no flag byte and
\* no envelope; otherwise [more, bytes]
SgMsgPage == /\ pc = "sg_msg" /\ Keep /\ UNCHANGED obs
             /\ IF dev.framing = "legacy"
                THEN LET d == AnsSgLegacy(acc.page) IN
                     IF d[1] = "HSM:SIGNER:"
                     THEN /\ acc' = [acc EXCEPT !.s_msg = IF Bug = "dropfirst" THEN Tail(d) ELSE d,
                                                !.s_env = IF Bug = "dropfirst" THEN Tail(d) ELSE d]
                          /\ Go("sg_hash")
                     ELSE \* not recognised: first byte taken for the `more` flag (it is not 1) and dropped
                          /\ acc' = [acc EXCEPT !.s_msg = d, !.page = 1, !.s_env = <<>>]
                          /\ Go("sg_env")
                ELSE LET a == AnsSgPage("s_mpage", acc.page) IN
                     /\ acc' = [acc EXCEPT !.s_msg = @ \o a.data,
                                           !.page = IF a.more THEN @ + 1 ELSE 1,
                                           !.s_env = <<>>]
                     /\ Go(IF a.more THEN "sg_msg" ELSE "sg_env")
SgEnvPage == /\ pc = "sg_env" /\ Keep
             /\ IF dev.framing = "legacy"
                THEN FailAttest /\ UNCHANGED acc          \* a legacy signer knows no envelope command
                ELSE LET a == AnsSgPage("s_epage", acc.page) IN
                     /\ acc' = [acc EXCEPT !.s_env = @ \o a.data, !.page = @ + 1]
                     /\ Go(IF a.more THEN "sg_env" ELSE "sg_hash") /\ UNCHANGED obs
SgAppHash == /\ pc = "sg_hash" /\ acc' = [acc EXCEPT !.s_hash = AnsSgHash]
             /\ Go("health") /\ Keep /\ UNCHANGED obs
HealthCheck == /\ pc = "health" /\ Keep /\ UNCHANGED acc
               /\ IF acc.s_msg # acc.s_env /\ Bug # "nohealth" THEN FailAttest
                  ELSE Go("save1") /\ UNCHANGED obs
\* the certificate the run starts from: the onboarding certificate, or the output of the first run
InCert == IF acc.round = 2 /\ hist \in {"reattest", "inplace"} THEN obs.prevfile ELSE obs.file0
ElNames(els) == {els[i].name : i \in 1..Len(els)}
\* HSMCertificate.add_element: an element REPLACES the one of the same name
AddElements(base, new) ==
    IF Bug = "setdefault" THEN base \o SelectSeq(new, LAMBDA e : e.name \notin ElNames(base))
    ELSE SelectSeq(base, LAMBDA e : e.name \notin ElNames(new)) \o new
File1 == AddElements(InCert,
         << El("ui", "attestation", acc.ui_hash, acc.ui_msg, acc.ui_sig, <<>>),
            El("signer", "attestation", IF Bug = "wrongtweak" THEN acc.ui_hash ELSE acc.s_hash,
               IF Bug = "swapmsg" THEN acc.ui_msg ELSE acc.s_msg, acc.s_sig, <<>>) >>)
\* files of the first run that the second run is not to write to
KeepsPrev == hist \in {"reattest", "reuse0", "two"}
Earlier(f) == (IF obs.plat = "ledger" THEN <<obs.file0>> ELSE <<>>) \o (IF KeepsPrev THEN <<f>> ELSE <<>>)
\* end of the first run of a history: remember its file, let the device move on, start the second run
NextRun(f, restart) ==
    /\ obs' = [obs EXCEPT !.prev_ok = "ok", !.prevfile = f, !.dev_prev = DevPrev,
                          !.earlier_before = Earlier(f), !.earlier_after = Earlier(f),
                          !.contacted = "no", !.att_file = "no", !.ud_sent = "", !.http = <<>>]
    /\ acc' = [acc EXCEPT !.round = 2, !.ud = ""]
    /\ Go(restart)
SaveCert  == /\ pc = "save1" /\ Keep
             /\ IF Multi /\ acc.round = 1 THEN NextRun(File1, "load0")
                ELSE /\ obs' = [obs EXCEPT !.g_attest = "ok", !.gather = "ok", !.file = File1, !.att_file = "yes",
                                           !.reload = Reloaded(File1), !.reload_ok = "ok"]
                     /\ Go("verify") /\ UNCHANGED acc

\* ---- Ledger: do_verify_attestation ----------------------------------------
\* validate_and_get_values for one target: device under the root, attestation under the device key
\* (last field of its message), target under the attestation key (message minus the role byte)
\* tweaked by the element's tweak
V1Target(file, rootkey, t) ==
    LET d == ElOf(file, "device")  a == ElOf(file, "attestation")  e == ElOf(file, t) IN
    /\ Verifies(d.sig, rootkey, "none", d.msg)
    /\ Verifies(a.sig, d.msg[Len(d.msg)], "none", a.msg)
    /\ Verifies(e.sig, a.msg[2], IF Bug = "notweak" THEN e.sig.tw ELSE e.tw, e.msg)
VerifyLedger(file) ==
    LET rk == RootKeyGiven
        ui == ElOf(file, "ui")  sg == ElOf(file, "signer")
        uiok == /\ rk # "invalid" /\ V1Target(file, rk, "ui")
                /\ Len(ui.msg) = 6 /\ ui.msg[1] = "HSM:UI:" /\ ui.msg[4] = Keys2[1][2]
        legacy == Len(sg.msg) >= 1 /\ sg.msg[1] = "HSM:SIGNER:"
        sgok == /\ V1Target(file, rk, "signer")
                /\ IF legacy THEN Len(sg.msg) = 3 /\ sg.msg[3] = "pkh"
                   ELSE Len(sg.msg) = 8 /\ sg.msg[1] = "POWHSM:" /\ sg.msg[5] = "pkh"
    IN IF uiok /\ sgok
       THEN [ok |-> "ok",
             printed |-> [ui_ud |-> ui.msg[3], ui_pub |-> ui.msg[4], ui_shash |-> ui.msg[5],
                          ui_iter |-> ui.msg[6], ui_hash |-> ui.tw, ui_ver |-> ui.msg[2],
                          keys |-> Keys2, pkhash |-> "pkh", s_hash |-> sg.tw, s_ver |-> sg.msg[2],
                          s_plat |-> IF legacy THEN "" ELSE sg.msg[3],
                          s_ud   |-> IF legacy THEN "" ELSE sg.msg[4],
                          s_best |-> IF legacy THEN "" ELSE sg.msg[6],
                          s_ltx  |-> IF legacy THEN "" ELSE sg.msg[7],
                          s_ts   |-> IF legacy THEN "" ELSE sg.msg[8],
                          mrenclave |-> "", mrsigner |-> ""]]
       ELSE [ok |-> "fail", printed |-> NoPrinted]

\* ---- SGX: do_attestation ----------------------------------------
SxUnlock  == /\ pc = "sx_unlock" /\ Go("sx_get") /\ Keep /\ UNCHANGED acc
             /\ obs' = [obs EXCEPT !.contacted = "yes"]
SxGet     == /\ pc = "sx_get" /\ acc' = [acc EXCEPT !.page = 1, !.s_msg = <<>>]
             /\ Go("sx_msg") /\ Keep /\ obs' = [obs EXCEPT !.ud_sent = acc.ud]
SxMsgPage == /\ pc = "sx_msg" /\ Keep /\ UNCHANGED obs
             /\ LET more == acc.page < cfg.sp IN
                /\ acc' = [acc EXCEPT !.s_msg = @ \o PageOf(MsgBuf, cfg.sp, acc.page),
                                      !.page = IF more THEN @ + 1 ELSE 1, !.s_env = <<>>]
                /\ Go(IF more THEN "sx_msg" ELSE "sx_env")
SxEnvPage == /\ pc = "sx_env" /\ Keep /\ UNCHANGED obs
             /\ LET more == acc.page < EnvPageCount IN
                /\ acc' = [acc EXCEPT !.s_env = @ \o PageOf(EnvTok, EnvPageCount, acc.page),
                                      !.page = @ + 1]
                /\ Go(IF more THEN "sx_env" ELSE "sx_hash")
SxAppHash == pc = "sx_hash" /\ Go("sx_parse") /\ Keep /\ UNCHANGED <<acc, obs>>
\* SgxEnvelope(envelope, message): fixed-size parts, sized parts, and the tail must be the message
SxParse   == /\ pc = "sx_parse" /\ Keep /\ UNCHANGED acc
             /\ IF acc.s_env # EnvTok \/ EnvParts.custom # acc.s_msg THEN FailAttest
                ELSE Go("sx_conv") /\ UNCHANGED obs
\* conversions: the attestation key must be a curve point; element constructors refuse empty fields
SxConvert == /\ pc = "sx_conv" /\ Keep /\ UNCHANGED acc
             /\ IF EnvParts.attkey = "X" \/ (EmptyAuthRefused /\ cfg.qeauth = 0)
                   \* the answer to OP_GET is ignored; a host that compared it with its own DER encoding
                   \* of the envelope's (r, s) would refuse the enclave's non-standard integers
                   \/ (Bug = "sigcheck" /\ ~FwStandard(ShapeAt("q_sig"))) THEN FailAttest
                ELSE Go("sx_save") /\ UNCHANGED obs
FileX == LET p == EnvParts IN
         << El("quote", "attestation", "none", p.quote, ToDer(p.qsig, ShapeAt("q_sig")), <<p.custom>>),
            El("attestation", "quoting_enclave", "none", p.qebody, ToDer(p.qesig, ShapeAt("qe_sig")),
               << <<p.attkey>>, <<p.auth>> >>),
            El("quoting_enclave", "platform_ca", "none", p.pck.tbs, p.pck.sig, <<>>),
            El("platform_ca", "sgx_root", "none",
               IF Bug = "swapmsg" THEN p.pck.tbs ELSE p.pca.tbs, p.pca.sig, <<>>) >>
SxSave    == /\ pc = "sx_save" /\ Keep
             /\ IF Multi /\ acc.round = 1 THEN NextRun(FileX, "ud")
                ELSE /\ obs' = [obs EXCEPT !.g_attest = "ok", !.gather = "ok", !.file = FileX, !.att_file = "yes",
                                           !.reload = Reloaded(FileX), !.reload_ok = "ok"]
                     /\ Go("verify") /\ UNCHANGED acc

\* ---- SGX: do_verify_attestation ----------------------------------------
\* get_root_of_trust: from the file, or GET the URL (status must be 200, the body must be a PEM
\* certificate); every failure here is reported as an AdminError by the verify command
RootFetched == net.rootvia = "file" \/ (RootGet.status = "200" /\ RootGet.pem)
VerifySgx(file) ==
    LET rc == RootCertGiven
        q == ElOf(file, "quote")  a == ElOf(file, "attestation")
        pck == ElOf(file, "quoting_enclave")  pca == ElOf(file, "platform_ca")
        cm == q.aux[1]
        chain == /\ Verifies(rc.sig, rc.tbs[2], "none", rc.tbs) /\ InPeriod("root")   \* self-signed root
                 /\ Verifies(pca.sig, rc.tbs[2], "none", pca.msg) /\ InPeriod("pca")
                 /\ Verifies(pck.sig, pca.msg[2], "none", pck.msg) /\ InPeriod("pck")
                 /\ HashOf(<<a.aux[1][1], a.aux[2][1]>>) = a.msg[2] /\ Compares("ak")
                 /\ Verifies(a.sig, pck.msg[2], "none", a.msg)
                 /\ (Bug = "nobind" \/ (HashOf(cm) = q.msg[5] /\ Compares("cm")))
                 /\ Verifies(q.sig, a.aux[1][1], "none", q.msg)
        msgok == Len(cm) = 8 /\ cm[1] = "POWHSM:" /\ cm[5] = "pkh"
    IN IF RootFetched /\ chain /\ msgok
       THEN [ok |-> "ok",
             printed |-> [NoPrinted EXCEPT !.keys = Keys2, !.pkhash = "pkh", !.s_ver = cm[2],
                                           !.s_plat = cm[3], !.s_ud = cm[4], !.s_best = cm[6],
                                           !.s_ltx = cm[7], !.s_ts = cm[8],
                                           !.mrenclave = q.msg[3], !.mrsigner = q.msg[4]]]
       ELSE [ok |-> "fail", printed |-> NoPrinted]

\* ---- both ----------------------------------------
VerifyOf(file) == IF obs.plat = "ledger" THEN VerifyLedger(file) ELSE VerifySgx(file)
RootGetCall == [verb |-> "get", url |-> "root_url", ctype |-> "", version |-> "", idkind |-> "none",
                method |-> "", params |-> <<>>]
Fetched(h) == IF net.rootvia = "url" THEN Append(h, RootGetCall) ELSE h
Verify   == /\ pc = "verify" /\ Keep /\ UNCHANGED acc
            /\ LET r == VerifyOf(obs.file) IN
               obs' = [obs EXCEPT !.verify = r.ok, !.printed = r.printed, !.http = Fetched(@),
                                  !.v_err = IF r.ok = "ok" THEN "none" ELSE "AdminError"]
            /\ Go("reverify")
Reverify == /\ pc = "reverify" /\ Keep /\ UNCHANGED acc
            /\ LET r == VerifyOf(obs.reload) IN
               obs' = [obs EXCEPT !.verify2 = r.ok, !.printed2 = r.printed, !.http = Fetched(@)]
            /\ Go(IF Multi /\ KeepsPrev THEN "verify_prev" ELSE "done")
\* the file the first run left behind is verified once more, after the second run
VerifyPrev == /\ pc = "verify_prev" /\ Keep /\ UNCHANGED acc
              /\ LET r == VerifyOf(obs.prevfile) IN
                 obs' = [obs EXCEPT !.verify_prev = r.ok, !.printed_prev = r.printed, !.http = Fetched(@)]
              /\ Go("done")

Next == \/ Onboard \/ Handshake \/ GetDeviceKey \/ SetupEndo \/ EndoAck \/ SaveAttCert
        \/ LoadAttCert \/ Unlock \/ UiAppHash \/ UiUd \/ UiPage \/ UiSig \/ ExitUi
        \/ SgGet \/ SgMsgPage \/ SgEnvPage \/ SgAppHash \/ HealthCheck \/ SaveCert
        \/ SxUnlock \/ SxGet \/ SxMsgPage \/ SxEnvPage \/ SxAppHash \/ SxParse \/ SxConvert \/ SxSave
        \/ GetUdTyped \/ NodeCall1 \/ NodeCall2
        \/ Verify \/ Reverify \/ VerifyPrev
Spec == Init /\ [][Next]_vars

Terminal == pc = "done"

(***************************************************************************)
(* C15 (the clauses of AttestFlowProps at the end of every run).           *)
(***************************************************************************)
WellFormed          == Terminal => WellFormedP(obs)
GenuineGathers      == Terminal => GenuineGathersP(obs)
GenuineVerifies     == Terminal => GenuineVerifiesP(obs)
AlteredFails        == Terminal => AlteredFailsP(obs)
Lossless            == Terminal => LosslessP(obs)
ReloadedSameVerdict == Terminal => ReloadedSameVerdictP(obs)
NodeProtocol        == Terminal => NodeProtocolP(obs)
NodeBad             == Terminal => NodeBadP(obs)
NodeBadStrict       == Terminal => NodeBadStrictP(obs)      \* violated, as the code is (Known2)
UdDelivered         == Terminal => UdDeliveredP(obs)
RootFetch           == Terminal => RootFetchP(obs)
FirstRunGathers     == Terminal => FirstRunGathersP(obs)
EarlierKept         == Terminal => EarlierKeptP(obs)
PrevKept            == Terminal => PrevKeptP(obs)
\* the run always ends (no step is ever stuck before "done")
Progress == (pc # "done") => ENABLED Next

\* vacuity guards: each must be VIOLATED (negative configuration)
NeverVerifies    == ~(Terminal /\ obs.verify = "ok")
NeverGatherFails == ~(Terminal /\ obs.gather = "fail")
NeverVerifyFails == ~(Terminal /\ obs.verify = "fail")
NeverLegacy      == ~(Terminal /\ obs.framing = "legacy" /\ obs.verify = "ok")
NeverFourPages   == ~(Terminal /\ cfg.uip = 4 /\ obs.verify = "ok")
NeverSecondRunOk == ~(Terminal /\ obs.hist # "single" /\ obs.verify = "ok")
NeverInplaceOk   == ~(Terminal /\ obs.hist = "inplace" /\ obs.verify = "ok")
NeverSecondRunAlteredFails == ~(Terminal /\ obs.hist # "single" /\ obs.alt # "none" /\ obs.verify = "fail")
NeverZonedOk     == ~(Terminal /\ obs.tz # "UTC0" /\ obs.when_kind \in InKinds /\ obs.verify = "ok")
NeverZonedRefused == ~(Terminal /\ obs.tz # "UTC0" /\ obs.when_kind \in OutKinds /\ obs.verify = "fail")
NeverDigestOk    == ~(Terminal /\ obs.digclass # "ord" /\ obs.verify = "ok")
NeverShapedOk    == ~(Terminal /\ obs.sigclass # "any" /\ obs.verify = "ok")
NeverNodeOk      == ~(Terminal /\ obs.udsrc = "node" /\ obs.verify = "ok")
NeverReorgOk     == ~(Terminal /\ obs.node = "reorg" /\ obs.verify = "ok")
NeverNodeFails   == ~(Terminal /\ obs.udsrc = "node" /\ obs.g_err # "none")
NeverRootByUrl   == ~(Terminal /\ obs.rootvia = "url" /\ obs.verify = "ok")
NeverRootUrlBad  == ~(Terminal /\ obs.rootvia = "url" /\ obs.verify = "fail")
=============================================================================
