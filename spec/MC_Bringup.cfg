SPECIFICATION Spec
CONSTANTS
  Platforms = {"ledger", "sgx", "tcp"}
  Majors = {4, 5, 6}
  Minors = {3, 4, 5}
  Patches = {0, 1, 2}
  RetrySet = {0, 1, 2, 3, 255}
INVARIANT AtMostOneUnlock
INVARIANT UnlockOnlyIfSafe
INVARIANT ServeIff
VIEW View
CHECK_DEADLOCK FALSE
