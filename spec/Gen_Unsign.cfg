SPECIFICATION GSpec
CONSTANTS
  MaxOps = 2
  Vers = {1, 2}
  NIns = 1
CHECK_DEADLOCK FALSE
INVARIANT EmitB
