SPECIFICATION Spec
CONSTANTS
  LBtc = 3
  LRcpt = 2
  LMp = 2
  MaxReq = 2
  MaxEmpty = 1
  Auth = FALSE
CHECK_DEADLOCK FALSE
INVARIANT DevPrefix
INVARIANT FinalVerdict
INVARIANT EmitB
