----------------------------- MODULE UnsignProps -----------------------------
(***************************************************************************)
(* C14: the form of a BTC transaction that is relayed for signing.         *)
(* A transaction is a structure                                            *)
(*   [ver, ins : Seq([prev, ops : Seq(op), seq]), outs, lock]              *)
(*   op = [k, d, e]   k in push | op0 | small | neg1 | opcode              *)
(*                    d  payload (push data / <<n>> / <<opcode byte>>)     *)
(*                    e  push encoding: direct | pd1 | pd2 | pd4 ("-" else)*)
(* `Unsign` replaces every non-final operation by OP_0 and keeps the last  *)
(* one: a push keeps its data and is re-encoded minimally for its length   *)
(* (an empty push is OP_0) — that is what "canonical" means here: the      *)
(* device finds the redeem script as the push that exhausts the script.    *)
(* Operators are parametric in DLen(_), the length of a push payload, so   *)
(* that the model can use symbolic payloads and traces real bytes.         *)
(***************************************************************************)
EXTENDS Naturals, Sequences, TLC

Op0 == [k |-> "op0", d |-> <<>>, e |-> "-"]
MinEnc(n) == IF n < 76 THEN "direct" ELSE IF n <= 255 THEN "pd1" ELSE IF n <= 65535 THEN "pd2" ELSE "pd4"
Minimal(o, DLen(_)) == IF o.k # "push" THEN o
                       ELSE IF DLen(o.d) = 0 THEN Op0
                       ELSE [o EXCEPT !.e = MinEnc(DLen(o.d))]
UnsignScript(s, DLen(_)) == [i \in 1..Len(s) |-> IF i < Len(s) THEN Op0 ELSE Minimal(s[i], DLen)]
Unsign(t, DLen(_)) == [t EXCEPT !.ins = [i \in 1..Len(t.ins) |-> [t.ins[i] EXCEPT !.ops = UnsignScript(@, DLen)]]]

\* two transactions that differ only in non-final script operations (signatures present / absent / other)
SameButNonFinal(a, b) ==
    /\ a.ver = b.ver /\ a.outs = b.outs /\ a.lock = b.lock /\ Len(a.ins) = Len(b.ins)
    /\ \A i \in 1..Len(a.ins) : /\ a.ins[i].prev = b.ins[i].prev /\ a.ins[i].seq = b.ins[i].seq
                                /\ Len(a.ins[i].ops) = Len(b.ins[i].ops) /\ Len(a.ins[i].ops) > 0
                                /\ a.ins[i].ops[Len(a.ins[i].ops)] = b.ins[i].ops[Len(b.ins[i].ops)]
NoEmptyScript(t) == \A i \in 1..Len(t.ins) : Len(t.ins[i].ops) > 0
=============================================================================
