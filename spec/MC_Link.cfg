SPECIFICATION Spec
CONSTANTS
  Cmds = {"version", "getPubKey", "sign_hash", "sign_legacy", "sign_segwit", "advanceBlockchain", "updateAncestorBlock", "resetAdvanceBlockchain", "blockchainState", "blockchainParameters", "signerHeartbeat", "uiHeartbeat"}
  MaxConnFail = 2
  NInit = 4
  BTimeouts = {0, 2, 3, 4}
  DevErrAbs = 905
CHECK_DEADLOCK FALSE
INVARIANT NoViolation
