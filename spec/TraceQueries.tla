----------------------------- MODULE TraceQueries -----------------------------
EXTENDS QueriesProps, TraceLib
VARIABLES tid, l, bad
tvars == <<tid, l, bad>>
TT == Traces[tid]
TInit == tid \in 1..Len(Traces) /\ l = 1 /\ bad = ""
Step == /\ l = 1 /\ bad' = FirstFailQ(Clauses(TT)) /\ l' = 2 /\ UNCHANGED tid
TSpec == TInit /\ [][Step]_tvars
Monitor == /\ (bad # "") => Verdict(TT.id, FALSE, bad, 1)
           /\ (bad = "" /\ l = 2) => Verdict(TT.id, TRUE, "", 1)
=============================================================================
