----------------------------- MODULE ConcProps -----------------------------
(***************************************************************************)
(* C12 on observables.  A totally ordered log (one harness-side sequence   *)
(* number handed out under one lock) of                                    *)
(*   begin(r, t)   the manager starts handling request r on thread t       *)
(*   apdu(t)       a device exchange issued by thread t                    *)
(*   end(r, t)     request r is answered                                   *)
(*   got(r, m)     the client that sent r received the reply belonging to  *)
(*                 request m (0 = none / unrecognisable)                   *)
(* Ownership of an exchange = the request being handled on that thread.    *)
(***************************************************************************)
EXTENDS Naturals, Sequences, FiniteSets, TLC

InitObs == [active |-> <<>>,       \* sequence of <<thread, request>> pairs currently being handled
            devLog |-> <<>>,       \* owner request of each exchange, in device order
            closed |-> {},         \* requests whose block of exchanges was followed by another's
            cur |-> 0]             \* owner of the latest exchange

OwnerOf(active, t) == LET S == {i \in 1..Len(active) : active[i][1] = t} IN
                      IF S = {} THEN 0 ELSE active[CHOOSE i \in S : TRUE][2]
Without(active, r) == SelectSeq(active, LAMBDA p : p[2] # r)

Observe(o, e) ==
    IF e.k = "begin" THEN [o EXCEPT !.active = Append(@, <<e.t, e.r>>)]
    ELSE IF e.k = "end" THEN [o EXCEPT !.active = Without(@, e.r)]
    ELSE IF e.k = "apdu" THEN
        LET w == OwnerOf(o.active, e.t) IN
        [o EXCEPT !.devLog = Append(@, w), !.cur = w,
                  !.closed = IF o.cur # 0 /\ o.cur # w THEN @ \cup {o.cur} ELSE @]
    ELSE o

Clauses(o, n, e) == <<
    <<"ExchangeOutsideAnyRequest", (e.k = "apdu") => n.cur # 0>>,
    \* the exchanges of one request form one contiguous block
    <<"InterleavedExchanges", (e.k = "apdu") => n.cur \notin o.closed>>,
    <<"ForeignReply", (e.k = "got") => e.m = e.r>> >>

RECURSIVE FirstFailC(_)
FirstFailC(cs) == IF cs = <<>> THEN ""
                  ELSE IF ~Head(cs)[2] THEN Head(cs)[1] ELSE FirstFailC(Tail(cs))
=============================================================================
