--------------------------- MODULE TraceBringup ---------------------------
(* Validates event logs recorded from the real bring-up code against the   *)
(* observables and properties of BringupProps.  One trace =                *)
(*   [id, needchg, ev : Seq(event), fin : [onb, mode, ver], outcome]        *)
(* Every property is re-evaluated after every event.                       *)
EXTENDS BringupProps, TraceLib

VARIABLES tid, l, obs, bad
tvars == <<tid, l, obs, bad>>

T == Traces[tid]
Ver(v) == <<v[1], v[2], v[3]>>
EvOf(e) == [cls |-> e.cls, d_mode |-> e.d_mode, d_onb |-> e.d_onb, d_ver |-> Ver(e.d_ver),
            d_retries |-> e.d_retries, ok |-> e.ok]

TInit == /\ tid \in 1..Len(Traces) /\ l = 1 /\ obs = InitObs /\ bad = ""

Clauses(o) == <<
    <<"AtMostOneUnlock", AtMostOneUnlockP(o)>>,
    <<"UnlockOnlyIfSafe", UnlockOnlyIfSafeP(o)>> >>

Step == /\ bad = "" /\ l <= Len(T.ev)
        /\ LET o == Observe(obs, EvOf(T.ev[l])) IN
             /\ obs' = o
             /\ bad' = FirstFail(Clauses(o))
        /\ l' = l + 1 /\ UNCHANGED tid

End == /\ bad = "" /\ l = Len(T.ev) + 1
       /\ bad' = IF ServeIffP(obs, [onb |-> T.fin.onb, mode |-> T.fin.mode, ver |-> Ver(T.fin.ver)],
                               T.needchg, T.outcome)
                 THEN "" ELSE "ServeIff"
       /\ l' = l + 1 /\ UNCHANGED <<tid, obs>>

TNext == Step \/ End
TSpec == TInit /\ [][TNext]_tvars

Monitor == /\ (bad # "") => Verdict(T.id, FALSE, bad, l - 1)
           /\ (bad = "" /\ l = Len(T.ev) + 2) => Verdict(T.id, TRUE, "", l - 1)
=============================================================================
