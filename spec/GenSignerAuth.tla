--------------------------- MODULE GenSignerAuth ---------------------------
(* Generation configuration of SignerAuth: prints every complete behaviour. *)
EXTENDS SignerAuth, Json
EmitB == Terminal => PrintT("B " \o ToJson([env |-> env, hist |-> hist, built |-> obs.st,
                                              done |-> obs.done, sent |-> obs.sent,
                                              nsigs |-> Len(sigs), verdict |-> verdict]))
=============================================================================
