SPECIFICATION FairSpec
CONSTANTS
  N = 3
  K = 3
  Handlers = 1
INVARIANT NoViolation
PROPERTY AllServed
CHECK_DEADLOCK FALSE
