----------------------------- MODULE TraceUnsign -----------------------------
(***************************************************************************)
(* kind "tx":   t.tx  the transaction as generated (structure)             *)
(*              t.out the structure parsed (harness parser) from what the  *)
(*                    real code relays; t.raw / t.raw2 / t.rawv the bytes  *)
(*                    relayed for tx, for the relayed form itself, and for *)
(*                    a variant differing only in non-final operations     *)
(*              t.keep / t.keepout: raw version, outpoints, sequences,     *)
(*                    outputs, lock time of input and relayed form         *)
(* kind "reject": t.code, t.contacted for an undecodable / empty-script tx *)
(***************************************************************************)
EXTENDS UnsignProps, TraceLib, Integers
VARIABLES tid, l, bad
tvars == <<tid, l, bad>>
TT == Traces[tid]
RealLen(d) == Len(d)
OpOf(o) == [k |-> o.k, d |-> o.d, e |-> o.e]
TxOf(x) == [ver |-> x.ver, ins |-> [i \in 1..Len(x.ins) |-> [prev |-> x.ins[i].prev, seq |-> x.ins[i].seq,
                                       ops |-> [j \in 1..Len(x.ins[i].ops) |-> OpOf(x.ins[i].ops[j])]]],
            outs |-> x.outs, lock |-> x.lock]
TxClauses(t) == <<
    <<"RelayedFormIsNotTheCanonicalOne", t.parsed /\ TxOf(t.out) = Unsign(TxOf(t.tx), RealLen)>>,
    <<"RestOfTransactionAltered", t.keepout = t.keep>>,
    <<"NotIdempotent", t.raw2 = t.raw>>,
    <<"DependsOnSignaturesPresent", t.rawv = t.raw>> >>
RejectClauses(t) == <<
    <<"UndecodableNotAnsweredInvalidMessage", t.code = -102>>,
    <<"DeviceContactedForUndecodableTransaction", ~t.contacted>> >>
RECURSIVE FirstFailU(_)
FirstFailU(cs) == IF cs = <<>> THEN ""
                  ELSE IF ~Head(cs)[2] THEN Head(cs)[1] ELSE FirstFailU(Tail(cs))
TInit == tid \in 1..Len(Traces) /\ l = 1 /\ bad = ""
Step == /\ l = 1
        /\ bad' = FirstFailU(IF TT.kind = "tx" THEN TxClauses(TT) ELSE RejectClauses(TT))
        /\ l' = 2 /\ UNCHANGED tid
TSpec == TInit /\ [][Step]_tvars
Monitor == /\ (bad # "") => Verdict(TT.id, FALSE, bad, 1)
           /\ (bad = "" /\ l = 2) => Verdict(TT.id, TRUE, "", 1)
=============================================================================
