--------------------------- MODULE TraceCertLoad ---------------------------
(* Judges executions of the real loaders (HSMCertificate / HSMCertificateV2  *)
(* .from_jsonfile, validate_and_get_values, save_to_jsonfile) against the    *)
(* clauses of CertLoadProps.  One trace =                                    *)
(*   [id, o1, save, o2]  with  o = [outcome, root, targets : Seq(name),      *)
(*        graph : [name -> [by]], val, res : Seq([target, valid, what])]     *)
(* graph / targets are read from the loaded object itself, so the path to    *)
(* the root is re-derived here, on what the program will really walk.        *)
(* Step 1 judges the first load, step 2 the save ; load round trip.          *)
EXTENDS CertLoadProps, TraceLib

VARIABLES tid, l, bad
tvars == <<tid, l, bad>>

T == Traces[tid]
\* the graph travels as a JSON object  name -> [by |-> name of its certifier]  (a function already)
GraphOf(o) == o.graph
Obs(o) == [outcome |-> o.outcome, root |-> o.root, targets |-> o.targets, graph |-> GraphOf(o),
           val |-> o.val, res |-> {o.res[i] : i \in 1..Len(o.res)}]

TInit == /\ tid \in 1..Len(Traces) /\ l = 0 /\ bad = ""

Load == /\ bad = "" /\ l = 0
        /\ bad' = JudgeLoad(Obs(T.o1))
        /\ l' = 1 /\ UNCHANGED tid

Round == /\ bad = "" /\ l = 1 /\ T.o1.outcome = "loaded"
         /\ bad' = LET j == JudgeRoundTrip(Obs(T.o1), T.save, Obs(T.o2)) IN
                   IF j # "" THEN j
                   ELSE IF ~AcyclicP(GraphOf(T.o2), T.o2.root, T.o2.targets) THEN "LoadedImpliesAcyclic"
                   ELSE ""
         /\ l' = 2 /\ UNCHANGED tid

Last == IF T.o1.outcome = "loaded" THEN 2 ELSE 1
TNext == Load \/ Round
TSpec == TInit /\ [][TNext]_tvars

Monitor == /\ (bad # "") => Verdict(T.id, FALSE, bad, l)
           /\ (bad = "" /\ l = Last) => Verdict(T.id, TRUE, "", l)
=============================================================================
