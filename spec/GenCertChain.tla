--------------------------- MODULE GenCertChain ---------------------------
(* Generation configuration of CertChain: prints every complete behaviour  *)
(* (the decisions the environment took and the verdicts of the model).     *)
EXTENDS CertChain, Json
EmitB == Done => PrintT("B " \o ToJson([targets |-> targets, by |-> by, link |-> link,
                                          rootkey |-> rootkey, swap |-> swap, shape |-> shape, spell |-> spell, log |-> log, ops |-> ops, shapeson |-> ShapesOn, phase |-> phase,
                                          result |-> result]))
=============================================================================
