---------------------------- MODULE GenDispatch ----------------------------
EXTENDS Dispatch, Json, Sequences
EmitB == PrintT("B " \o ToJson([req |-> req, verdict |-> Verdict(req), muts |-> muts]))
=============================================================================
