------------------------------ MODULE VerifyProps ------------------------------
(***************************************************************************)
(* C08 - what the Ledger and SGX `verify_attestation` commands vouch for.  *)
(* Constants-free: the same definitions are the invariants of the model    *)
(* (Verify) and the judge of every execution recorded from the real        *)
(* commands (TraceVerify).                                                 *)
(*                                                                         *)
(* Abstract input `inp`(one record shape for both platforms):              *)
(*   plat     "ledger" | "sgx"                                             *)
(*   args     "ok" | "nocert" | "nopub"   (a path option was not given)    *)
(*   root     "right" | "wrong" | "malformed" | "malformed2"               *)
(*            ledger: malformed = not hex, malformed2 = hex, not a point   *)
(*            sgx   : malformed = cannot be obtained / parsed,             *)
(*                    malformed2 = parsed but not validly self-signed      *)
(*   certfile "ok" | "bad"                (the attestation file loads?)    *)
(*   file     [kind : "ok" | "malformed", ents : Seq([path, key])]         *)
(*            the public-keys file in FILE order; path = byte string of    *)
(*            the derivation path, key = identity of the public key        *)
(*   btc      the documented derivation path of the UI-attested key        *)
(*   mh       [enc : "unc" | "comp" | "none", pre : Seq(key)]              *)
(*            what the keys-hash field of the signed message is the        *)
(*            SHA-256 of: the keys `pre`, in that order, each encoded      *)
(*            uncompressed / compressed ("none": of nothing we know)       *)
(*   ui       [exists, chain, hdr : "ok"|"foreign"|"sep", key, ...] (ledger)*)
(*   pow      [exists, chain, hdr : "current"|"legacy"|"foreign"|"sep"|    *)
(*             "sepleg", ...]                                              *)
(*            the signer element (ledger) / the quote's custom message     *)
(*            (sgx).  exists: "t"/"f"; chain: "intact"/"broken" (does      *)
(*            every link from this target up to the right root verify)     *)
(*   targets  the `targets` list of the attestation file, as element ROLES *)
(*            (ledger: device, attestation, ui, signer - the names the     *)
(*            format fixes; sgx: ca = the X.509 element certified by the   *)
(*            root of trust, qe = the one certifying the attestation key,  *)
(*            att, quote).  The documented lists are <<ui, signer>> and    *)
(*            <<quote>>; anything else may be listed as well, before or    *)
(*            after, more than once.  ui/pow `exists` = is it listed.      *)
(*            sgx also: mid = an X.509 element strictly between ca and qe.  *)
(*   plen     sgx: the number of elements on the certification path of the *)
(*            quote (X.509 elements + attestation key + quote; 3..5 in a   *)
(*            production file, hundreds at scale); ledger (fixed shape):   *)
(*            the number of unrelated extra elements the file carries.     *)
(*            Never part of the condition: a longer file changes nothing.  *)
(*   embed    sgx: does the attestation file itself carry a self-signed CA  *)
(*            certificate as one more x509 element - "none", "chainroot"   *)
(*            (the root its chain was issued under) or "chosenroot" (the   *)
(*            operator's root of trust) - and `ename`: under the reserved  *)
(*            name "sgx_root" or a near miss ("near").  Never part of the  *)
(*            condition: the chain must verify under the CHOSEN root only. *)
(*   brk      the elements that do NOT verify under their certifier (one   *)
(*            real corruption each).  ui/pow `chain` = "broken" iff some   *)
(*            element on the way from the root to that target is in brk.   *)
(*   both messages also carry HOW their bytes deviate from the documented  *)
(*   layout - content included, because acceptance may depend on it        *)
(*   (regex anchors, strip(), string terminators):                         *)
(*     sepc  the character between the version digits: "dot" or a member   *)
(*           of SepTable ("na" for a foreign header)                       *)
(*     len   "exact" | "short" | "long"                                    *)
(*     at    "none" | "cut" (n bytes missing at the end) |                 *)
(*           "suffix" | "prefix" (n bytes added after / before the         *)
(*           documented message)                                           *)
(*     m     what was added: a member of ExtTable (fixed bytes), "rand1"   *)
(*           (one byte that is none of the boundary bytes), "randn"        *)
(*           (n >= 2 arbitrary bytes); "na" otherwise                      *)
(*     n     number of bytes cut / added                                   *)
(*     tail  "any", or a member of ExtTable: the documented-length message *)
(*           ENDS with these bytes (a genuine message; must be accepted)   *)
(* Symbolic cryptography (DESIGN 3.3): SHA-256 is an injective constructor *)
(* - two hashes are equal iff encoding and key sequence are equal.         *)
(*                                                                         *)
(* "sep"/"sepleg": a header that differs from an expected one only in the  *)
(* character between the two version digits ("HSM:UI:5x4").  Not an        *)
(* expected header (docs/attestation.md: `HSM:UI:5.4`, `POWHSM:5.4::`);    *)
(* the commands accepted it until the header expressions were repaired.    *)
(***************************************************************************)
EXTENDS Naturals, Sequences, FiniteSets, TLC

(***************************************************************************)
(* Path order: "lexicographically ordered by their UTF-encoded derivation  *)
(* path" (docs/attestation.md, powHSM attestation contents).               *)
(***************************************************************************)
RECURSIVE LexLess(_, _)
LexLess(a, b) == IF b = <<>> THEN FALSE
                 ELSE IF a = <<>> THEN TRUE
                 ELSE IF Head(a) < Head(b) THEN TRUE
                 ELSE IF Head(a) > Head(b) THEN FALSE
                 ELSE LexLess(Tail(a), Tail(b))

PathsOf(f) == {f.ents[i].path : i \in DOMAIN f.ents}
KeyAt(f, p) == f.ents[CHOOSE i \in DOMAIN f.ents : f.ents[i].path = p].key
RECURSIVE SortPaths(_)
SortPaths(S) == IF S = {} THEN <<>>
                ELSE LET m == CHOOSE x \in S : \A y \in S \ {x} : LexLess(x, y)
                     IN <<m>> \o SortPaths(S \ {m})
KeysInPathOrder(f) == LET sp == SortPaths(PathsOf(f)) IN [i \in 1..Len(sp) |-> KeyAt(f, sp[i])]
KeysInFileOrder(f) == [i \in 1..Len(f.ents) |-> f.ents[i].key]

\* SHA-256 over the operator's public keys, uncompressed, in path order
OperatorHash(f) == [enc |-> "unc", pre |-> KeysInPathOrder(f)]

(***************************************************************************)
(* The conjunction of the property text.                                   *)
(***************************************************************************)
\* something to verify and something to verify it against was handed over
Given(inp) == inp.args = "ok" /\ inp.certfile = "ok" /\ inp.file.kind = "ok"
\* "the certificate chain is valid for the chosen root of trust"
ChainValid(inp, t) == inp.root = "right" /\ t.exists = "t" /\ t.chain = "intact"
\* "the public-keys hash inside it equals SHA-256 of the operator's public keys
\*  (uncompressed, in path order)"
HashOk(inp) == inp.file.kind = "ok" /\ inp.file.ents # <<>> /\ inp.mh = OperatorHash(inp.file)
\* "on Ledger, the UI-attested BTC key equals the operator's"
UiKeyOk(inp) == inp.file.kind = "ok" /\ inp.btc \in PathsOf(inp.file) /\ KeyAt(inp.file, inp.btc) = inp.ui.key

\* Every signed message must be exactly as long as documented.  (For the UI message the command did not
\* check this until "fix: refuse Ledger UI attestation messages that are not exactly the documented
\* length": it printed an iteration / signer hash made up from a truncated message.)
\* the message begins with the header h and is exactly as long as documented
\* (bytes put in FRONT of a message displace its header: never acceptable)
OkLedger(inp) == /\ Given(inp)
                /\ ChainValid(inp, inp.ui) /\ ChainValid(inp, inp.pow)
                /\ inp.ui.hdr = "ok" /\ inp.ui.at # "prefix"        \* expected headers
                /\ inp.pow.hdr \in {"current", "legacy"} /\ inp.pow.at # "prefix"
                /\ inp.pow.len = "exact"                   \* exactly the documented length
                /\ inp.ui.len = "exact"
                /\ HashOk(inp)
                /\ UiKeyOk(inp)
OkSgx(inp)    == /\ Given(inp)
                /\ ChainValid(inp, inp.pow)
                /\ inp.pow.hdr = "current" /\ inp.pow.at # "prefix"
                /\ inp.pow.len = "exact"
                /\ HashOk(inp)
OkCondition(inp) == IF inp.plat = "ledger" THEN OkLedger(inp) ELSE OkSgx(inp)

(***************************************************************************)
(* Whatever else the file lists as a target does not matter: only the      *)
(* chains of the REQUIRED targets (ui and signer; quote) count above.      *)
(***************************************************************************)
Range(q) == {q[i] : i \in DOMAIN q}
LedgerOrder == <<"device", "attestation", "ui", "signer">>
SgxOrder    == <<"ca", "mid", "qe", "att", "quote">>
PathOf(inp, n) ==
    IF inp.plat = "ledger"
    THEN CASE n = "device"      -> {"device"}
           [] n = "attestation" -> {"device", "attestation"}
           [] n = "ui"          -> {"device", "attestation", "ui"}
           [] n = "signer"      -> {"device", "attestation", "signer"}
           [] OTHER             -> {}
    ELSE CASE n = "ca"    -> {"ca"}
           [] n = "mid"   -> {"ca", "mid"}
           [] n = "qe"    -> {"ca", "mid", "qe"}
           [] n = "att"   -> {"ca", "mid", "qe", "att"}
           [] n = "quote" -> {"ca", "mid", "qe", "att", "quote"}
           [] OTHER       -> {}
TargetValid(inp, n) == /\ inp.root = "right" /\ PathOf(inp, n) # {}
                       /\ PathOf(inp, n) \cap Range(inp.brk) = {}
\* The SGX command ends with an internal error (NotImplementedError out of validate_and_get_values:
\* an X.509 / attestation-key element "can't provide a value") when a VALID element other than the
\* quote is listed as a target.  Nothing is let through by that; the verdict of such inputs is left
\* open in the refusing direction (Return still implies OkCondition).
SgxExtraTargetOpen(inp) ==
    /\ inp.plat = "sgx"
    /\ \E i \in DOMAIN inp.targets : inp.targets[i] # "quote" /\ TargetValid(inp, inp.targets[i])

\* outcome: "return" | "error"
ReturnIffOkP(inp, outcome) == IF SgxExtraTargetOpen(inp) THEN (outcome = "return") => OkCondition(inp)
                              ELSE (outcome = "return") <=> OkCondition(inp)

(***************************************************************************)
(* Documented layouts (docs/attestation.md), 0-based offset / length.      *)
(*   UI message      `HSM:UI:5.4`(10) ud(32) pubkey(33) signer hash(32)    *)
(*                   signer iteration(2)                                   *)
(*   powHSM message  `POWHSM:5.4::`(12) platform(3) ud(32) keys hash(32)   *)
(*                   best block(32) last signed tx(8) timestamp(8, BE)     *)
(*   legacy signer   `HSM:SIGNER:X.Y`(14) keys hash(32)                    *)
(*   sgx_quote_t     header(48) then sgx_report_body_t: mrenclave at 64,   *)
(*                   mrsigner at 128 (32 each)                             *)
(***************************************************************************)
Slice(m, off, n) == IF Len(m) >= off + n THEN SubSeq(m, off + 1, off + n) ELSE <<>>

UiHdrLen  == 10
PowHdrLen == 12
LegHdrLen == 14
PowLen    == PowHdrLen + 3 + 32 + 32 + 32 + 8 + 8       \* 127
LegLen    == LegHdrLen + 32                              \* 46
UiLen     == UiHdrLen + 32 + 33 + 32 + 2                 \* 109
QuoteLen  == 48 + 384

UiUd(m)       == Slice(m, 10, 32)
UiKey(m)      == Slice(m, 42, 33)
UiSHash(m)    == Slice(m, 75, 32)
UiIter(m)     == Slice(m, 107, 2)
PowPlat(m)    == Slice(m, 12, 3)
PowUd(m)      == Slice(m, 15, 32)
PowKeys(m)    == Slice(m, 47, 32)
PowBest(m)    == Slice(m, 79, 32)
PowTx(m)      == Slice(m, 111, 8)
PowTs(m)      == Slice(m, 119, 8)
LegKeys(m)    == Slice(m, 14, 32)
QMrEnclave(m) == Slice(m, 48 + 64, 32)
QMrSigner(m)  == Slice(m, 48 + 128, 32)

(***************************************************************************)
(* What a successful run must have printed.  `signed`: the messages that   *)
(* were signed (from the builder's structured input), the tweaks under     *)
(* which the ui / signer signatures verify (the installed application      *)
(* hashes), the quote.  `printed`: the values read off the command's       *)
(* output, as bytes (integers re-encoded big-endian at the documented      *)
(* width); <<>> = not printed.                                             *)
(***************************************************************************)
NoBytes == <<>>
LegacyFmt(inp) == inp.pow.hdr \in {"legacy", "sepleg"}
ExpectedPrinted(inp, s) ==
    IF inp.plat = "ledger" THEN
        [ui_ud |-> UiUd(s.ui), ui_shash |-> UiSHash(s.ui), ui_iter |-> UiIter(s.ui),
         ui_hash |-> s.uitweak, app_hash |-> s.powtweak,
         keys_hash |-> IF LegacyFmt(inp) THEN LegKeys(s.pow) ELSE PowKeys(s.pow),
         ud |-> IF LegacyFmt(inp) THEN NoBytes ELSE PowUd(s.pow),
         best_block |-> IF LegacyFmt(inp) THEN NoBytes ELSE PowBest(s.pow),
         last_tx |-> IF LegacyFmt(inp) THEN NoBytes ELSE PowTx(s.pow),
         timestamp |-> IF LegacyFmt(inp) THEN NoBytes ELSE PowTs(s.pow),
         mrenclave |-> NoBytes, mrsigner |-> NoBytes]
    ELSE
        [ui_ud |-> NoBytes, ui_shash |-> NoBytes, ui_iter |-> NoBytes, ui_hash |-> NoBytes,
         app_hash |-> NoBytes,
         keys_hash |-> PowKeys(s.pow), ud |-> PowUd(s.pow), best_block |-> PowBest(s.pow),
         last_tx |-> PowTx(s.pow), timestamp |-> PowTs(s.pow),
         mrenclave |-> QMrEnclave(s.quote), mrsigner |-> QMrSigner(s.quote)]

PrintedFields == {"ui_ud", "ui_shash", "ui_iter", "ui_hash", "app_hash", "keys_hash", "ud",
                  "best_block", "last_tx", "timestamp", "mrenclave", "mrsigner"}
NothingPrinted == [f \in PrintedFields |-> NoBytes]

WrongFields(inp, printed, s) == {f \in PrintedFields : printed[f] # ExpectedPrinted(inp, s)[f]}
PrintedSignedP(inp, outcome, printed, s) == (outcome = "return") => WrongFields(inp, printed, s) = {}

(***************************************************************************)
(* Consistency of an abstract input with the bytes it stands for (used by  *)
(* TraceVerify to refuse a mislabelled trace, and by the model as a sanity *)
(* invariant of its own message constructor).                              *)
(***************************************************************************)
IsDigit(b) == b \in 48..57
UiPrefix  == <<72, 83, 77, 58, 85, 73, 58>>                       \* HSM:UI:
PowPrefix == <<80, 79, 87, 72, 83, 77, 58>>                       \* POWHSM:
LegPrefix == <<72, 83, 77, 58, 83, 73, 71, 78, 69, 82, 58>>       \* HSM:SIGNER:
Dot == 46
Colon == 58

\* header shape up to the separator: prefix, digit, any, digit (, "::")
UiShape(m)  == Len(m) >= 10 /\ SubSeq(m, 1, 7) = UiPrefix /\ IsDigit(m[8]) /\ IsDigit(m[10])
PowShape(m) == Len(m) >= 12 /\ SubSeq(m, 1, 7) = PowPrefix /\ IsDigit(m[8]) /\ IsDigit(m[10])
                            /\ m[11] = Colon /\ m[12] = Colon
LegShape(m) == Len(m) >= 14 /\ SubSeq(m, 1, 11) = LegPrefix /\ IsDigit(m[12]) /\ IsDigit(m[14])

UiHdrIs(c, m)  == CASE c = "ok"      -> UiShape(m) /\ m[9] = Dot
                    [] c = "sep"     -> UiShape(m) /\ m[9] # Dot
                    [] c = "foreign" -> ~UiShape(m)
                    [] OTHER         -> FALSE
PowHdrIs(c, m) == CASE c = "current" -> PowShape(m) /\ m[9] = Dot
                    [] c = "sep"     -> PowShape(m) /\ m[9] # Dot
                    [] c = "legacy"  -> LegShape(m) /\ m[13] = Dot
                    [] c = "sepleg"  -> LegShape(m) /\ m[13] # Dot
                    [] c = "foreign" -> ~PowShape(m) /\ ~LegShape(m)
                    [] OTHER         -> FALSE
(***************************************************************************)
(* Boundary members: byte strings on which acceptance might depend.        *)
(***************************************************************************)
ExtTable == [lf |-> <<10>>, cr |-> <<13>>, crlf |-> <<13, 10>>, lflf |-> <<10, 10>>, nul |-> <<0>>,
             sp |-> <<32>>, tab |-> <<9>>, vt |-> <<11>>, ff |-> <<12>>, fs |-> <<28>>,
             nel |-> <<133>>, nbsp |-> <<160>>]
SepTable == [x |-> <<120>>, colon |-> <<58>>, dash |-> <<45>>, under |-> <<95>>, comma |-> <<44>>,
             slash |-> <<47>>, zero |-> <<48>>, lf |-> <<10>>, cr |-> <<13>>, nul |-> <<0>>,
             sp |-> <<32>>, tab |-> <<9>>, nel |-> <<133>>]
BoundaryBytes == {10, 13, 0, 32, 9, 11, 12, 28, 133, 160}
IsExt(m) == m \in DOMAIN ExtTable
LastN(s, n) == SubSeq(s, Len(s) - n + 1, Len(s))

\* the message without what was put in front of / after it
Core(t, msg) == CASE t.at = "prefix" -> SubSeq(msg, t.n + 1, Len(msg))
                  [] t.at = "suffix" -> SubSeq(msg, 1, Len(msg) - t.n)
                  [] OTHER           -> msg
Added(t, msg) == IF t.at = "prefix" THEN SubSeq(msg, 1, t.n) ELSE LastN(msg, t.n)
\* the declared deviation of the length is what the bytes show; L = documented length (0: unknown)
ExtIs(t, msg, L) ==
    /\ t.len \in {"exact", "short", "long"} /\ t.at \in {"none", "cut", "suffix", "prefix"}
    /\ t.at = "none" => t.len = "exact" /\ t.n = 0 /\ (L > 0 => Len(msg) = L)
    /\ t.at = "cut"  => t.len = "short" /\ t.n >= 1 /\ (L > 0 => Len(msg) = L - t.n)
    /\ t.at \in {"suffix", "prefix"} =>
          /\ t.len = "long" /\ t.n >= 1 /\ Len(msg) > t.n /\ (L > 0 => Len(msg) = L + t.n)
          /\ IsExt(t.m) => Added(t, msg) = ExtTable[t.m]
          /\ t.m = "rand1" => t.n = 1 /\ Added(t, msg)[1] \notin BoundaryBytes
          /\ t.m = "randn" => t.n >= 2
          /\ IsExt(t.m) \/ t.m \in {"rand1", "randn"}
    /\ t.tail # "any" => /\ t.at = "none" /\ IsExt(t.tail) /\ Len(msg) >= Len(ExtTable[t.tail])
                         /\ LastN(msg, Len(ExtTable[t.tail])) = ExtTable[t.tail]
SepIs(c, b) == IF c = "dot" THEN b = Dot ELSE c \in DOMAIN SepTable /\ SepTable[c] = <<b>> /\ b # Dot

PowFormatLen(hdr) == IF hdr \in {"legacy", "sepleg"} THEN LegLen
                     ELSE IF hdr \in {"current", "sep"} THEN PowLen ELSE 0
\* k33: key identity -> the 33 bytes of its compressed encoding
Listed(inp, n) == IF n \in Range(inp.targets) THEN "t" ELSE "f"
ChainOf(inp, n) == IF PathOf(inp, n) \cap Range(inp.brk) = {} THEN "intact" ELSE "broken"
Consistent(inp, s, k33) ==
    /\ inp.plat \in {"ledger", "sgx"}
    /\ Range(inp.targets) \cup Range(inp.brk) \subseteq Range(IF inp.plat = "ledger" THEN LedgerOrder ELSE SgxOrder)
    /\ inp.plat = "ledger" => /\ inp.ui.exists = Listed(inp, "ui") /\ inp.pow.exists = Listed(inp, "signer")
                              /\ inp.ui.chain = ChainOf(inp, "ui") /\ inp.pow.chain = ChainOf(inp, "signer")
    /\ inp.plat = "sgx" => inp.pow.exists = Listed(inp, "quote") /\ inp.pow.chain = ChainOf(inp, "quote")
    /\ inp.plat = "sgx" => inp.plen >= (IF "mid" \in Range(inp.targets) \cup Range(inp.brk) THEN 5 ELSE 3)
    /\ inp.plat = "ledger" => inp.plen >= 0
    /\ inp.embed \in {"none", "chainroot", "chosenroot"} /\ inp.ename \in {"na", "sgx_root", "near"}
    /\ (inp.embed = "none") <=> (inp.ename = "na")
    /\ inp.plat = "ledger" => inp.embed = "none"
    /\ inp.pow.hdr \in {"current", "legacy", "foreign", "sep", "sepleg"}
    /\ ExtIs(inp.pow, s.pow, PowFormatLen(inp.pow.hdr))
    /\ LET c == Core(inp.pow, s.pow) IN
          /\ PowHdrIs(inp.pow.hdr, c)
          /\ inp.pow.hdr \in {"current", "sep"} => SepIs(inp.pow.sepc, c[9])
          /\ inp.pow.hdr \in {"legacy", "sepleg"} => SepIs(inp.pow.sepc, c[13])
    /\ inp.plat = "ledger" =>
          /\ ExtIs(inp.ui, s.ui, UiLen)
          /\ LET c == Core(inp.ui, s.ui) IN
                /\ UiHdrIs(inp.ui.hdr, c)
                /\ inp.ui.hdr \in {"ok", "sep"} => SepIs(inp.ui.sepc, c[9])
                /\ inp.ui.key \in DOMAIN k33
                /\ Len(c) >= 75 => UiKey(c) = k33[inp.ui.key]
    /\ inp.plat = "sgx" => Len(s.quote) = QuoteLen
=============================================================================
