--------------------------- MODULE PinStoreProps ---------------------------
(***************************************************************************)
(* C10 on observables.  A history is a sequence of events over one or      *)
(* several manager lifetimes; every event carries the *durable* state      *)
(* after it: `file` (the PIN file) and `dev` (the PIN the device holds).   *)
(* PINs are small naturals (0 = the configured default); the projection    *)
(* from bytes is the harness's (first appearance order).  `Recoverable`    *)
(* is a predicate on durable state only, evaluated after every event —     *)
(* "if the process died now, could the device still be opened".            *)
(***************************************************************************)
EXTENDS Naturals, Sequences, TLC

Default == 0
Absent  == 100      \* no PIN file
Empty   == 101      \* zero-length file
Garbage == 102      \* present, not a valid PIN
NoPin   == 99

IsPinVal(f) == f < 90
\* the PIN a restarted manager would use: the file's if it has a valid one, the default if absent
PinOf(f) == IF IsPinVal(f) THEN f ELSE IF f = Absent THEN Default ELSE NoPin
RecoverableP(file, dev) == dev = Default \/ (IsPinVal(file) /\ dev = file)

\* 8 characters, all ASCII alphanumerics, at least one letter
IsDigit(c)  == c >= 48 /\ c <= 57
IsLetter(c) == (c >= 65 /\ c <= 90) \/ (c >= 97 /\ c <= 122)
ValidPinBytes(p) == /\ Len(p) = 8
                    /\ \A i \in 1..Len(p) : IsDigit(p[i]) \/ IsLetter(p[i])
                    /\ \E i \in 1..Len(p) : IsLetter(p[i])

InitObs(file, dev) ==
    [file |-> file, dev |-> dev,    \* last durable snapshot
     startfile |-> file, startdev |-> dev,
     attempted |-> FALSE,           \* a new PIN was sent to the device in this lifetime
     acked |-> FALSE,               \* ... and the device acknowledged it
     failed |-> FALSE,              \* ... or refused / errored
     newp |-> NoPin,
     loaded |-> NoPin,              \* the PIN this lifetime loaded (the PIN in use until a change commits)
     fsfail |-> FALSE,              \* a file operation of the commit failed in this lifetime
     win |-> FALSE,                 \* the known window (ack .. durable commit) was observed
     winfile |-> NoPin, windev |-> NoPin]

\* event kinds: start(force) load(ok, pin) unlock(ok) newpin(pin, ok) fs(op, ok) end(outcome, mem)
Observe(o, e) ==
    LET o1 == IF e.k = "start"
              THEN [o EXCEPT !.startfile = e.file, !.startdev = e.dev, !.attempted = FALSE,
                             !.acked = FALSE, !.failed = FALSE, !.newp = NoPin, !.loaded = NoPin,
                             !.fsfail = FALSE]
              ELSE IF e.k = "load" /\ e.ok = "t" THEN [o EXCEPT !.loaded = e.pin]
              ELSE IF e.k = "fs" /\ e.ok = "f" THEN [o EXCEPT !.fsfail = TRUE]
              ELSE IF e.k = "newpin"
              THEN [o EXCEPT !.attempted = TRUE, !.newp = e.pin,
                             !.acked = (e.ok = "t"), !.failed = (e.ok # "t")]
              ELSE o
        inwin == \/ (o1.acked /\ e.dev = o1.newp /\ e.file # o1.newp)
                 \/ (o1.win /\ e.file = o1.winfile /\ e.dev = o1.windev)
    IN [o1 EXCEPT !.file = e.file, !.dev = e.dev,
                  !.win = @ \/ (inwin /\ ~RecoverableP(e.file, e.dev)),
                  !.winfile = IF inwin /\ ~RecoverableP(e.file, e.dev) THEN e.file ELSE @,
                  !.windev = IF inwin /\ ~RecoverableP(e.file, e.dev) THEN e.dev ELSE @]

\* o: before, n: after, e: the event.  The window is excluded here and reported separately.
InWindow(n, e) == \/ (n.acked /\ e.dev = n.newp /\ e.file # n.newp)
                  \/ (n.win /\ e.file = n.winfile /\ e.dev = n.windev)
Clauses(o, n, e) == <<
    <<"FileChangedWithoutAck", (e.file # o.file) => (n.acked \/ e.k = "start")>>,
    <<"FileNotTheAckedPin",    (e.file # o.file /\ n.acked /\ e.k # "start")
                                  => (e.file = n.newp \/ InWindow(n, e))>>,
    <<"FileChangedBetweenLifetimes", (e.k = "start") => TRUE>>,
    <<"DevicePinChangedWithoutAck", (e.dev # o.dev) => (e.k = "newpin" /\ e.ok = "t" /\ e.dev = e.pin)>>,
    <<"FailedChangeTouchedFile", (n.failed /\ e.k # "start") => e.file = n.startfile>>,
    <<"FailedChangeTouchedDevicePin", (n.failed /\ e.k # "start") => e.dev = n.startdev>>,
    \* the PIN in use (what get_pin() answers when the bring-up ends) after a change that did not go through
    <<"FailedChangeTouchedPinInUse", (e.k = "end" /\ e.outcome # "crash" /\ e.mem # NoPin /\ (n.failed \/ n.fsfail))
                                        => e.mem = n.loaded>>,
    \* the PIN a lifetime works with is the one the file holds (the default only when there is no file)
    <<"LoadedPinNotTheFilesPin", (e.k = "load") => (IF PinOf(e.file) = NoPin THEN e.ok = "f"
                                                   ELSE (e.ok = "t" /\ e.pin = PinOf(e.file)))>>,
    \* the device is only ever asked to unlock with the PIN this lifetime loaded
    <<"UnlockWithOtherThanTheLoadedPin", (e.k = "unlock" /\ e.pin # NoPin) => e.pin = n.loaded>>,
    <<"ServedAfterChangeAttempt", (e.k = "end" /\ e.outcome = "serve") => ~n.attempted>>,
    <<"NewPinWithoutUnlock", TRUE>>,
    <<"Recoverable", RecoverableP(e.file, e.dev) \/ InWindow(n, e)>> >>

RECURSIVE FirstFailP(_)
FirstFailP(cs) == IF cs = <<>> THEN ""
                  ELSE IF ~Head(cs)[2] THEN Head(cs)[1] ELSE FirstFailP(Tail(cs))
=============================================================================
