SPECIFICATION FairSpec
CONSTANTS
  Names = {"device", "attestation", "ui", "signer"}
  MaxTargets = 1
  MaxCorr = 1
  CorrKinds = {"sigFlip"}
  Shapes = {}
  MaxShape = 0
  ShapeWithCorr = FALSE
  MaxOps = 3
  OpKinds = {"validate", "passive", "clear", "addtarget", "addel"}
  Origins = {"loaded"}
  TweakChoice = {"plain"}
INVARIANT Agree
INVARIANT AgreeJudge
INVARIANT Bounded
INVARIANT BudgetOk
PROPERTY Stable
PROPERTY Terminates
CHECK_DEADLOCK FALSE
