------------------------------ MODULE Verify ------------------------------
(***************************************************************************)
(* C08.  Env: an (attestation file, public-keys file, root of trust)       *)
(* triple, described abstractly (VerifyProps), obtained from a genuine one *)
(* by at most MaxDev deviations.  Sys: the two `do_verify_attestation`     *)
(* procedures (admin/verify_ledger_attestation.py, verify_sgx_attestation  *)
(* .py), one action per check, i.e. per `raise AdminError` site; `site`    *)
(* names the site that ended the run.  The procedures work on the BYTES of *)
(* the signed messages (SignedOf), slicing them with the constants of the  *)
(* code; the properties slice with the documented offsets (VerifyProps).   *)
(***************************************************************************)
EXTENDS VerifyProps

CONSTANTS Platforms,    \* subset of {"ledger", "sgx"}
          MaxDev,       \* dimensions that may deviate from a genuine triple
          MaxFileMut,   \* of which at most this many mutations of the public-keys file
          Sep,          \* BOOLEAN: include headers with a foreign version separator
          FullExt,      \* inputs with more deviations than this use only the representative
                        \* members of the content classes (extension bytes, separators, tails)
          Wildcard      \* BOOLEAN: model the header expressions with an unescaped '.' (the defect
                        \* repaired by "fix: match the literal dot in attestation message header
                        \* versions"); TRUE only in the negative configuration Neg2_Verify

VARIABLES inp, ndev, nfile, pc, outcome, site, printed, sys
vars == <<inp, ndev, nfile, pc, outcome, site, printed, sys>>

(***************************************************************************)
(* Abstract universe                                                       *)
(***************************************************************************)
Btc   == <<1>>            \* the UI derivation path
P2    == <<2>>
P3    == <<3>>
Below == <<0>>            \* sorts before every path of the genuine file
Ext   == <<1, 0>>         \* an extension of Btc: sorts between Btc and P2
Above == <<4>>
NewPaths == {Below, Ext, Above}
Stranger == 4             \* a key the device does not hold

E(p, k) == [path |-> p, key |-> k]
BaseFile == [kind |-> "ok", ents |-> <<E(Btc, 1), E(P2, 2), E(P3, 3)>>]
BaseHash == OperatorHash(BaseFile)
NaUi == [exists |-> "na", chain |-> "na", hdr |-> "na", sepc |-> "na", key |-> 0,
         len |-> "na", at |-> "na", m |-> "na", n |-> 0, tail |-> "na"]

\* content classes: every member is an explicit choice of the environment
ExtMembers   == DOMAIN ExtTable \cup {"rand1", "randn"}
SepMembers   == DOMAIN SepTable
TailMembers  == DOMAIN ExtTable
TailMembers1 == {m \in DOMAIN ExtTable : Len(ExtTable[m]) = 1}   \* a hash can be ground to end in one byte
RepExt  == {"lf", "rand1"}
RepSep  == {"x", "lf"}
RepTail == {"lf"}
ModelBytes(m) == IF m \in DOMAIN ExtTable THEN ExtTable[m]
                 ELSE IF m = "rand1" THEN <<7>> ELSE <<7, 77, 177>>

\* length of the certification path (sgx) / number of unrelated extra elements (ledger): the shape of
\* a production file, and files at scale
BaseLen(plat) == IF plat = "ledger" THEN 0 ELSE 5
ScaleLens(plat) == IF plat = "ledger" THEN {250, 300} ELSE {255, 256, 257, 258, 300, 400}

Good(plat, fmt) ==
    [plat |-> plat, args |-> "ok", root |-> "right", certfile |-> "ok", file |-> BaseFile,
     btc |-> Btc, mh |-> BaseHash,
     targets |-> IF plat = "ledger" THEN <<"ui", "signer">> ELSE <<"quote">>, brk |-> <<>>,
     plen |-> BaseLen(plat), embed |-> "none", ename |-> "na",
     ui |-> IF plat = "ledger"
            THEN [exists |-> "t", chain |-> "intact", hdr |-> "ok", sepc |-> "dot", key |-> 1,
                  len |-> "exact", at |-> "none", m |-> "na", n |-> 0, tail |-> "any"]
            ELSE NaUi,
     pow |-> [exists |-> "t", chain |-> "intact", hdr |-> fmt, sepc |-> "dot",
              len |-> "exact", at |-> "none", m |-> "na", n |-> 0, tail |-> "any"]]

(***************************************************************************)
(* Mutations of the public-keys file                                       *)
(***************************************************************************)
RemoveAt(s, i) == SubSeq(s, 1, i - 1) \o SubSeq(s, i + 1, Len(s))
SwapAt(s, i, j) == [s EXCEPT ![i] = s[j], ![j] = s[i]]
Reverse(s) == [i \in 1..Len(s) |-> s[Len(s) + 1 - i]]
WithEnts(f, es) == [f EXCEPT !.ents = es]

FileMuts(f) ==
    IF f.kind # "ok" THEN {}
    ELSE LET es == f.ents  n == Len(f.ents)  free == NewPaths \ PathsOf(f) IN
         \* same path -> key mapping, other order in the file
         {WithEnts(f, SwapAt(es, i, i + 1)) : i \in 1..(n - 1)}
         \cup (IF n > 2 THEN {WithEnts(f, Reverse(es))} ELSE {})
         \* one key differs (a stranger's, or a duplicate of the next one)
         \cup {WithEnts(f, [es EXCEPT ![i].key = Stranger]) : i \in 1..n}
         \cup {WithEnts(f, [es EXCEPT ![i].key = es[(i % n) + 1].key]) : i \in {j \in 1..n : n > 1}}
         \* one key missing / extra
         \cup {WithEnts(f, RemoveAt(es, i)) : i \in 1..n}
         \cup {WithEnts(f, Append(es, E(p, Stranger))) : p \in free}
         \cup {WithEnts(f, <<E(p, Stranger)>> \o es) : p \in free}
         \* same keys under other path names
         \cup {WithEnts(f, [es EXCEPT ![i].key = es[j].key, ![j].key = es[i].key]) :
                  <<i, j>> \in {<<a, b>> \in (1..n) \X (1..n) : a < b}}
         \cup {WithEnts(f, [es EXCEPT ![i].path = p]) : <<i, p>> \in (1..n) \X free}
         \* empty, malformed
         \cup {WithEnts(f, <<>>), [kind |-> "malformed", ents |-> <<>>]}

\* what else the keys-hash field of the message may be the hash of
HashVariants(f) ==
    {[enc |-> "none", pre |-> <<>>]}
    \cup IF f.kind = "ok" /\ f.ents # <<>>
         THEN {[enc |-> "comp", pre |-> KeysInPathOrder(f)],
               [enc |-> "unc", pre |-> KeysInFileOrder(f)],
               [enc |-> "unc", pre |-> KeysInPathOrder(f)]}
         ELSE {[enc |-> "comp", pre |-> BaseHash.pre]}

(***************************************************************************)
(* Env: deviations, then start                                             *)
(***************************************************************************)
Init == /\ \E plat \in Platforms :
              \E fmt \in (IF plat = "ledger" THEN {"current", "legacy"} ELSE {"current"}) :
                  inp = Good(plat, fmt)
        /\ ndev = 0 /\ nfile = 0 /\ pc = "env" /\ outcome = "none" /\ site = "none"
        /\ printed = NothingPrinted /\ sys = [pkhash |-> <<>>, ui |-> "none", pow |-> "none"]

IsL == inp.plat = "ledger"
Dev(new) == /\ pc = "env" /\ ndev < MaxDev /\ inp' = new /\ ndev' = ndev + 1
            /\ UNCHANGED <<nfile, pc, outcome, site, printed, sys>>

DevArgs  == inp.args = "ok" /\ \E v \in {"nocert", "nopub"} : Dev([inp EXCEPT !.args = v])
DevRoot  == inp.root = "right" /\ \E v \in {"wrong", "malformed", "malformed2"} :
                Dev([inp EXCEPT !.root = v])
DevCert  == inp.certfile = "ok" /\ Dev([inp EXCEPT !.certfile = "bad"])
DevFile  == /\ nfile < MaxFileMut /\ pc = "env" /\ ndev < MaxDev
            /\ \E f \in FileMuts(inp.file) : inp' = [inp EXCEPT !.file = f]
            /\ ndev' = ndev + 1 /\ nfile' = nfile + 1
            /\ UNCHANGED <<pc, outcome, site, printed, sys>>
DevHash  == inp.mh = BaseHash /\ \E h \in HashVariants(inp.file) \ {BaseHash} :
                Dev([inp EXCEPT !.mh = h])
\* the `targets` list of the attestation file: a required target is not listed ...
Sync(i) == IF i.plat = "ledger"
           THEN [i EXCEPT !.ui.exists = Listed(i, "ui"), !.pow.exists = Listed(i, "signer"),
                          !.ui.chain = ChainOf(i, "ui"), !.pow.chain = ChainOf(i, "signer")]
           ELSE [i EXCEPT !.pow.exists = Listed(i, "quote"), !.pow.chain = ChainOf(i, "quote")]
Unlist(i, n) == Sync([i EXCEPT !.targets = SelectSeq(i.targets, LAMBDA x : x # n)])
\* ... or the list is not the documented one: other order, ancestors listed before / between / after
\* the required targets, duplicates
DocTargets(plat) == IF plat = "ledger" THEN <<"ui", "signer">> ELSE <<"quote">>
TargetLists(plat) ==
    IF plat = "ledger"
    THEN {<<"signer", "ui">>}
         \cup UNION {{<<a, "ui", "signer">>, <<"ui", "signer", a>>, <<"ui", a, "signer">>} :
                        a \in {"device", "attestation"}}
         \cup {<<"device", "attestation", "ui", "signer">>, <<"attestation", "device", "ui", "signer">>,
               <<"ui", "signer", "device", "attestation">>}
         \cup {<<"ui", "ui", "signer">>, <<"ui", "signer", "signer">>, <<"ui", "signer", "ui">>,
               <<"device", "device", "ui", "signer">>}
    ELSE UNION {{<<a, "quote">>, <<"quote", a>>} : a \in {"ca", "mid", "qe", "att"}}
         \cup {<<"ca", "qe", "att", "quote">>, <<"att", "qe", "ca", "quote">>, <<"quote", "ca", "qe", "att">>}
         \cup {<<"quote", "quote">>, <<"ca", "ca", "quote">>, <<"ca", "quote", "quote">>}
DevTargets == /\ inp.targets = DocTargets(inp.plat)
              /\ \E l \in TargetLists(inp.plat) : Dev(Sync([inp EXCEPT !.targets = l]))
\* the file embeds a self-signed CA as an element of its own (sgx)
DevEmbed == /\ ~IsL /\ inp.embed = "none"
            /\ \E e \in {"chainroot", "chosenroot"}, n \in {"sgx_root", "near"} :
                   Dev([inp EXCEPT !.embed = e, !.ename = n])
\* the file is long
DevLen   == /\ inp.plen = BaseLen(inp.plat)
            /\ \E n \in ScaleLens(inp.plat) : Dev([inp EXCEPT !.plen = n])
\* ... which is combined with the deviations that concern the chain only
ChainDevs == Len(inp.brk) + (IF inp.root = "wrong" THEN 1 ELSE 0) + (IF inp.embed # "none" THEN 1 ELSE 0)
             + (IF inp.targets # DocTargets(inp.plat) THEN 1 ELSE 0)
\* one more element does not verify under its certifier
ElemOrder == IF IsL THEN LedgerOrder ELSE SgxOrder
DevBrk   == \E e \in Range(ElemOrder) \ Range(inp.brk) :
                Dev(Sync([inp EXCEPT !.brk = SelectSeq(ElemOrder, LAMBDA x : x = e \/ x \in Range(inp.brk))]))

\* the length of a message deviates: n bytes cut at the end, or a member put after / before it
LenDevs(t, cuts) ==
    {[t EXCEPT !.len = "short", !.at = "cut", !.n = c] : c \in cuts}
    \cup {[t EXCEPT !.len = "long", !.at = a, !.m = m, !.n = Len(ModelBytes(m))] :
              <<a, m>> \in {"suffix", "prefix"} \X ExtMembers}
Plain(t) == t.len = "exact" /\ t.tail = "any"
LegFmt(h) == h \in {"legacy", "sepleg"}
DevUi    == /\ IsL
            /\ \/ inp.ui.exists = "t" /\ Dev(Unlist(inp, "ui"))
               \/ inp.ui.hdr = "ok" /\ Dev([inp EXCEPT !.ui.hdr = "foreign", !.ui.sepc = "na"])
               \/ inp.ui.hdr = "ok" /\ Sep /\ \E c \in SepMembers :
                      Dev([inp EXCEPT !.ui.hdr = "sep", !.ui.sepc = c])
               \/ inp.ui.key = 1 /\ \E k \in {2, Stranger} : Dev([inp EXCEPT !.ui.key = k])
               \/ Plain(inp.ui) /\ \E t \in LenDevs(inp.ui, {1, 3, 99}) : Dev([inp EXCEPT !.ui = t])
               \/ Plain(inp.ui) /\ \E m \in TailMembers : Dev([inp EXCEPT !.ui.tail = m])
DevPow   == \/ inp.pow.exists = "t" /\ Dev(Unlist(inp, IF IsL THEN "signer" ELSE "quote"))
            \/ inp.pow.hdr \in {"current", "legacy"} /\ (IsL \/ inp.pow.hdr = "current") /\
                  Dev([inp EXCEPT !.pow.hdr = "foreign", !.pow.sepc = "na"])
            \/ inp.pow.hdr = "current" /\ ~IsL /\ inp.pow.n <= 32 /\ inp.pow.tail \in TailMembers1 \cup {"any"} /\
                  Dev([inp EXCEPT !.pow.hdr = "legacy"])
            \/ inp.pow.hdr \in {"current", "legacy"} /\ (IsL \/ inp.pow.hdr = "current") /\ Sep /\
                  \E c \in SepMembers :
                      Dev([inp EXCEPT !.pow.hdr = IF inp.pow.hdr = "legacy" THEN "sepleg" ELSE "sep",
                                      !.pow.sepc = c])
            \/ Plain(inp.pow) /\
                  \E t \in LenDevs(inp.pow, {1, 8, 32} \cup (IF LegFmt(inp.pow.hdr) THEN {} ELSE {115})) :
                      Dev([inp EXCEPT !.pow = t])
            \/ Plain(inp.pow) /\
                  \E m \in (IF LegFmt(inp.pow.hdr) THEN TailMembers1 ELSE TailMembers) :
                      Dev([inp EXCEPT !.pow.tail = m])
\* only the representative members once more than FullExt dimensions deviate
NonRep(t) == \/ t.at \in {"suffix", "prefix"} /\ t.m \notin RepExt
             \/ t.hdr \in {"sep", "sepleg"} /\ t.sepc \notin RepSep
             \/ t.tail \notin RepTail \cup {"any", "na"}
Start    == /\ pc = "env" /\ pc' = (IF IsL THEN "l1" ELSE "s1")
            /\ ndev <= FullExt \/ ~(NonRep(inp.pow) \/ (IsL /\ NonRep(inp.ui)))
            /\ inp.plen = BaseLen(inp.plat) \/ ndev = 1 + ChainDevs
            /\ UNCHANGED <<inp, ndev, nfile, outcome, site, printed, sys>>

(***************************************************************************)
(* The bytes the abstract input stands for (the model's own concretiser).  *)
(* Every body byte is position-coded, so a wrong offset shows.             *)
(***************************************************************************)
Fill(n, base) == [i \in 1..n |-> (base + i) % 256]
SepByte(c) == IF c \in DOMAIN SepTable THEN SepTable[c][1] ELSE Dot
UiHdrBytes(t) == IF t.hdr \in {"ok", "sep"} THEN UiPrefix \o <<53, SepByte(t.sepc), 52>>     \* HSM:UI:5.4
                 ELSE <<72, 83, 77, 58, 85, 74, 58, 53, 46, 52>>                               \* HSM:UJ:5.4
PowHdrBytes(t) == CASE t.hdr \in {"current", "sep"}   -> PowPrefix \o <<53, SepByte(t.sepc), 52, 58, 58>>
                    [] t.hdr \in {"legacy", "sepleg"} -> LegPrefix \o <<53, SepByte(t.sepc), 51>>
                    [] OTHER -> <<80, 48, 87, 72, 83, 77, 58, 53, 46, 52, 58, 58>>             \* P0WHSM:5.4::
Key33(k) == <<2, k>> \o [i \in 1..31 |-> 0]
K33 == [k \in 1..6 |-> Key33(k)]
HashBytes(h) == [i \in 1..32 |-> IF i = 1 THEN (CASE h.enc = "unc" -> 1 [] h.enc = "comp" -> 2 [] OTHER -> 3)
                                 ELSE IF i - 1 <= Len(h.pre) THEN h.pre[i - 1] ELSE 0]
\* "the hash of a legacy message happens to end in byte b": then SHA-256 does, for everybody
HB(h, i) == IF LegFmt(i.pow.hdr) /\ i.pow.tail \in DOMAIN ExtTable
            THEN [HashBytes(h) EXCEPT ![32] = ExtTable[i.pow.tail][1]] ELSE HashBytes(h)
WithTail(m, t) == IF t.tail \in DOMAIN ExtTable
                  THEN SubSeq(m, 1, Len(m) - Len(ExtTable[t.tail])) \o ExtTable[t.tail] ELSE m
ApplyExt(m, t) == CASE t.at = "cut"    -> SubSeq(m, 1, Len(m) - t.n)
                    [] t.at = "suffix" -> m \o ModelBytes(t.m)
                    [] t.at = "prefix" -> ModelBytes(t.m) \o m
                    [] OTHER           -> m
Plat3(p) == IF p = "ledger" THEN <<108, 101, 100>> ELSE <<115, 103, 120>>
PowMsg(i) == ApplyExt(WithTail(IF LegFmt(i.pow.hdr)
                               THEN PowHdrBytes(i.pow) \o HB(i.mh, i)
                               ELSE PowHdrBytes(i.pow) \o Plat3(i.plat) \o Fill(32, 20) \o HB(i.mh, i)
                                    \o Fill(32, 60) \o Fill(8, 100) \o Fill(8, 110),
                               i.pow), i.pow)
UiMsg(i) == ApplyExt(WithTail(UiHdrBytes(i.ui) \o Fill(32, 130) \o Key33(i.ui.key) \o Fill(32, 170)
                              \o <<0, 9>>, i.ui), i.ui)
SignedOf(i) == [ui |-> IF i.plat = "ledger" THEN UiMsg(i) ELSE <<>>,
                uitweak |-> IF i.plat = "ledger" THEN Fill(32, 200) ELSE <<>>,
                pow |-> PowMsg(i),
                powtweak |-> IF i.plat = "ledger" THEN Fill(32, 220) ELSE <<>>,
                quote |-> IF i.plat = "sgx" THEN Fill(432, 0) ELSE <<>>]
S == SignedOf(inp)

(***************************************************************************)
(* Sys: the code.  Helpers mirror Python semantics.                        *)
(***************************************************************************)
PySlice(m, a, b) == SubSeq(m, a + 1, IF b < Len(m) THEN b ELSE Len(m))      \* m[a:b]
PyFrom(m, a) == SubSeq(m, a + 1, Len(m))                                     \* m[a:]
\* re.match of the three header expressions
SepOk(b)    == Wildcard \/ b = Dot
MatchUi(m)  == UiShape(m) /\ m[8] \in 50..53 /\ SepOk(m[9])      \* ^HSM:UI:([2345]\.[0-9])
MatchLeg(m) == LegShape(m) /\ m[12] \in 50..53 /\ SepOk(m[13])   \* ^HSM:SIGNER:([2345]\.[0-9])
MatchPow(m) == PowShape(m) /\ m[8] = 53 /\ SepOk(m[9])           \* ^POWHSM:(5\.[0-9])::
UD == 32  PK == 33  SH == 32  IT == 2  KH == 32         \* *_LENGTH constants
StructLen == 3 + 32 + 32 + 32 + 8 + 8                   \* PowHsmAttestationMessage.get_bytelength()

Err(s) == /\ pc' = "done" /\ outcome' = "error" /\ site' = s
          /\ UNCHANGED <<inp, ndev, nfile, printed, sys>>
Go(p)  == pc' = p /\ UNCHANGED <<inp, ndev, nfile, outcome, site, printed, sys>>
GoSys(p, s2) == pc' = p /\ sys' = s2 /\ UNCHANGED <<inp, ndev, nfile, outcome, site, printed>>
Chk(at, bad, s, next) == pc = at /\ IF bad THEN Err(s) ELSE Go(next)

FileHash(f) == HB([enc |-> "unc", pre |-> KeysInPathOrder(f)], inp)   \* sorted(keys), uncompressed
Verdict(t) == IF t.exists # "t" THEN "absent"
              ELSE IF inp.root = "right" /\ t.chain = "intact" THEN "valid" ELSE "invalid"

\* ---- Ledger: verify_ledger_attestation.do_verify_attestation
L_NoCert     == Chk("l1", inp.args = "nocert", "NoCert", "l2")
L_NoPub      == Chk("l2", inp.args = "nopub", "NoPub", "l3")
L_RootHex    == Chk("l3", inp.root = "malformed", "RootHex", "l4")
L_RootParse  == Chk("l4", inp.root = "malformed2", "RootParse", "l5")
L_LoadKeys   == Chk("l5", inp.file.kind # "ok", "LoadPubkeys", "l6")
L_HashKeys   == pc = "l6" /\ IF inp.file.ents = <<>> THEN Err("EmptyKeys")
                             ELSE GoSys("l7", [sys EXCEPT !.pkhash = FileHash(inp.file)])
L_BtcKey     == Chk("l7", Btc \notin PathsOf(inp.file), "NoBtcKey", "l8")
L_LoadCert   == Chk("l8", inp.certfile # "ok", "LoadCert", "l9")
L_Validate   == pc = "l9" /\ GoSys("l10", [sys EXCEPT !.ui = Verdict(inp.ui), !.pow = Verdict(inp.pow)])
L_NoUi       == Chk("l10", sys.ui = "absent", "NoUi", "l11")
L_UiInvalid  == Chk("l11", sys.ui = "invalid", "UiInvalid", "l12")
L_UiHeader   == Chk("l12", ~MatchUi(S.ui), "UiHeader", "l12b")
L_UiLength   == Chk("l12b", Len(S.ui) # 10 + UD + PK + SH + IT, "UiLength", "l13")
L_UiKey      == Chk("l13", PySlice(S.ui, 10 + UD, 10 + UD + PK) # Key33(KeyAt(inp.file, Btc)),
                    "UiKey", "l14")
L_UiPrint    == /\ pc = "l14" /\ pc' = "l15"
                /\ printed' = [printed EXCEPT
                      !.ui_ud = PySlice(S.ui, 10, 10 + UD),
                      !.ui_shash = PySlice(S.ui, 10 + UD + PK, 10 + UD + PK + SH),
                      !.ui_iter = PySlice(S.ui, 10 + UD + PK + SH, 10 + UD + PK + SH + IT),
                      !.ui_hash = S.uitweak]
                /\ UNCHANGED <<inp, ndev, nfile, outcome, site, sys>>
L_NoSigner   == Chk("l15", sys.pow = "absent", "NoSigner", "l16")
L_SgInvalid  == Chk("l16", sys.pow = "invalid", "SignerInvalid", "l17")
L_SgHeader   == Chk("l17", ~MatchLeg(S.pow) /\ ~MatchPow(S.pow), "SignerHeader", "l18")
L_SgLength   == pc = "l18" /\ IF MatchLeg(S.pow)
                              THEN (IF PyFrom(S.pow, 14 + KH) # <<>> THEN Err("LegacyLong") ELSE Go("l19"))
                              ELSE (IF Len(S.pow) # 12 + StructLen THEN Err("PowLength") ELSE Go("l19"))
Reported     == IF MatchLeg(S.pow) THEN PyFrom(S.pow, 14) ELSE PySlice(S.pow, 12 + 3 + 32, 12 + 3 + 32 + 32)
L_SgHash     == Chk("l19", Reported # sys.pkhash, "HashMismatch", "l20")
PowPrinted(p, m) == [p EXCEPT !.ud = PySlice(m, 15, 47), !.best_block = PySlice(m, 79, 111),
                              !.last_tx = PySlice(m, 111, 119), !.timestamp = PySlice(m, 119, 127)]
L_Return     == /\ pc = "l20" /\ pc' = "done" /\ outcome' = "return" /\ site' = "Return"
                /\ printed' = LET p == [printed EXCEPT !.keys_hash = sys.pkhash, !.app_hash = S.powtweak]
                              IN IF MatchLeg(S.pow) THEN p ELSE PowPrinted(p, S.pow)
                /\ UNCHANGED <<inp, ndev, nfile, sys>>

\* ---- SGX: verify_sgx_attestation.do_verify_attestation
S_NoCert     == Chk("s1", inp.args = "nocert", "NoCert", "s2")
S_NoPub      == Chk("s2", inp.args = "nopub", "NoPub", "s3")
S_RootLoad   == Chk("s3", inp.root = "malformed", "RootLoad", "s4")
S_RootSelf   == Chk("s4", inp.root = "malformed2", "RootSelf", "s5")
S_Keys       == pc = "s5" /\ IF inp.file.kind # "ok" \/ inp.file.ents = <<>> THEN Err("Pubkeys")
                             ELSE GoSys("s6", [sys EXCEPT !.pkhash = FileHash(inp.file)])
S_LoadCert   == Chk("s6", inp.certfile # "ok", "LoadCert", "s7")
\* validate_and_get_values asks every VALID target for its value; only a quote has one
S_Validate   == pc = "s7" /\ IF SgxExtraTargetOpen(inp) THEN Err("TargetValue")
                             ELSE GoSys("s8", [sys EXCEPT !.pow = Verdict(inp.pow)])
S_NoQuote    == Chk("s8", sys.pow = "absent", "NoQuote", "s9")
S_QInvalid   == Chk("s9", sys.pow = "invalid", "QuoteInvalid", "s10")
S_Header     == Chk("s10", ~MatchPow(S.pow), "PowHeader", "s11")
S_Length     == Chk("s11", Len(S.pow) # 12 + StructLen, "PowLength", "s12")
S_Hash       == Chk("s12", PySlice(S.pow, 47, 79) # sys.pkhash, "HashMismatch", "s13")
S_Return     == /\ pc = "s13" /\ pc' = "done" /\ outcome' = "return" /\ site' = "Return"
                /\ printed' = PowPrinted([printed EXCEPT !.keys_hash = sys.pkhash,
                                             !.mrenclave = PySlice(S.quote, 112, 144),
                                             !.mrsigner = PySlice(S.quote, 176, 208)], S.pow)
                /\ UNCHANGED <<inp, ndev, nfile, sys>>

EnvNext == DevArgs \/ DevRoot \/ DevCert \/ DevFile \/ DevHash \/ DevUi \/ DevPow \/ DevTargets \/ DevBrk \/ DevLen \/ DevEmbed \/ Start
SysNext == \/ L_NoCert \/ L_NoPub \/ L_RootHex \/ L_RootParse \/ L_LoadKeys \/ L_HashKeys \/ L_BtcKey
           \/ L_LoadCert \/ L_Validate \/ L_NoUi \/ L_UiInvalid \/ L_UiHeader \/ L_UiLength \/ L_UiKey \/ L_UiPrint
           \/ L_NoSigner \/ L_SgInvalid \/ L_SgHeader \/ L_SgLength \/ L_SgHash \/ L_Return
           \/ S_NoCert \/ S_NoPub \/ S_RootLoad \/ S_RootSelf \/ S_Keys \/ S_LoadCert \/ S_Validate
           \/ S_NoQuote \/ S_QInvalid \/ S_Header \/ S_Length \/ S_Hash \/ S_Return
Next == EnvNext \/ SysNext
Spec == Init /\ [][Next]_vars

(***************************************************************************)
(* Properties                                                              *)
(***************************************************************************)
Terminal == pc = "done"
ReturnIffOk       == Terminal => ReturnIffOkP(inp, outcome)
PrintedSigned     == Terminal => PrintedSignedP(inp, outcome, printed, S)
ModelConsistent   == Consistent(inp, S, K33)
\* vacuity guards: must be violated
NeverReturns      == outcome # "return"
NeverPrints       == ~(Terminal /\ outcome = "return" /\ printed.timestamp # <<>>)
=============================================================================
