------------------------------ MODULE Verify ------------------------------
(***************************************************************************)
(* C08.  Env: an (attestation file, public-keys file, root of trust)       *)
(* triple, described abstractly (VerifyProps), obtained from a genuine one *)
(* by at most MaxDev deviations.  Sys: the two `do_verify_attestation`     *)
(* procedures (admin/verify_ledger_attestation.py, verify_sgx_attestation  *)
(* .py), one action per check, i.e. per `raise AdminError` site; `site`    *)
(* names the site that ended the run.  The procedures work on the BYTES of *)
(* the signed messages (SignedOf), slicing them with the constants of the  *)
(* code; the properties slice with the documented offsets (VerifyProps).   *)
(***************************************************************************)
EXTENDS VerifyProps

CONSTANTS Platforms,    \* subset of {"ledger", "sgx"}
          MaxDev,       \* dimensions that may deviate from a genuine triple
          MaxFileMut,   \* of which at most this many mutations of the public-keys file
          Sep,          \* BOOLEAN: include headers with a foreign version separator
          Wildcard      \* BOOLEAN: model the header expressions with an unescaped '.' (the defect
                        \* repaired by "fix: match the literal dot in attestation message header
                        \* versions"); TRUE only in the negative configuration Neg2_Verify

VARIABLES inp, ndev, nfile, pc, outcome, site, printed, sys
vars == <<inp, ndev, nfile, pc, outcome, site, printed, sys>>

(***************************************************************************)
(* Abstract universe                                                       *)
(***************************************************************************)
Btc   == <<1>>            \* the UI derivation path
P2    == <<2>>
P3    == <<3>>
Below == <<0>>            \* sorts before every path of the genuine file
Ext   == <<1, 0>>         \* an extension of Btc: sorts between Btc and P2
Above == <<4>>
NewPaths == {Below, Ext, Above}
Stranger == 4             \* a key the device does not hold

E(p, k) == [path |-> p, key |-> k]
BaseFile == [kind |-> "ok", ents |-> <<E(Btc, 1), E(P2, 2), E(P3, 3)>>]
BaseHash == OperatorHash(BaseFile)
NaUi == [exists |-> "na", chain |-> "na", hdr |-> "na", key |-> 0]

Good(plat, fmt) ==
    [plat |-> plat, args |-> "ok", root |-> "right", certfile |-> "ok", file |-> BaseFile,
     btc |-> Btc, mh |-> BaseHash,
     ui |-> IF plat = "ledger" THEN [exists |-> "t", chain |-> "intact", hdr |-> "ok", key |-> 1]
            ELSE NaUi,
     pow |-> [exists |-> "t", chain |-> "intact", hdr |-> fmt, len |-> "exact"]]

(***************************************************************************)
(* Mutations of the public-keys file                                       *)
(***************************************************************************)
RemoveAt(s, i) == SubSeq(s, 1, i - 1) \o SubSeq(s, i + 1, Len(s))
SwapAt(s, i, j) == [s EXCEPT ![i] = s[j], ![j] = s[i]]
Reverse(s) == [i \in 1..Len(s) |-> s[Len(s) + 1 - i]]
WithEnts(f, es) == [f EXCEPT !.ents = es]

FileMuts(f) ==
    IF f.kind # "ok" THEN {}
    ELSE LET es == f.ents  n == Len(f.ents)  free == NewPaths \ PathsOf(f) IN
         \* same path -> key mapping, other order in the file
         {WithEnts(f, SwapAt(es, i, i + 1)) : i \in 1..(n - 1)}
         \cup (IF n > 2 THEN {WithEnts(f, Reverse(es))} ELSE {})
         \* one key differs (a stranger's, or a duplicate of the next one)
         \cup {WithEnts(f, [es EXCEPT ![i].key = Stranger]) : i \in 1..n}
         \cup {WithEnts(f, [es EXCEPT ![i].key = es[(i % n) + 1].key]) : i \in {j \in 1..n : n > 1}}
         \* one key missing / extra
         \cup {WithEnts(f, RemoveAt(es, i)) : i \in 1..n}
         \cup {WithEnts(f, Append(es, E(p, Stranger))) : p \in free}
         \cup {WithEnts(f, <<E(p, Stranger)>> \o es) : p \in free}
         \* same keys under other path names
         \cup {WithEnts(f, [es EXCEPT ![i].key = es[j].key, ![j].key = es[i].key]) :
                  <<i, j>> \in {<<a, b>> \in (1..n) \X (1..n) : a < b}}
         \cup {WithEnts(f, [es EXCEPT ![i].path = p]) : <<i, p>> \in (1..n) \X free}
         \* empty, malformed
         \cup {WithEnts(f, <<>>), [kind |-> "malformed", ents |-> <<>>]}

\* what else the keys-hash field of the message may be the hash of
HashVariants(f) ==
    {[enc |-> "none", pre |-> <<>>]}
    \cup IF f.kind = "ok" /\ f.ents # <<>>
         THEN {[enc |-> "comp", pre |-> KeysInPathOrder(f)],
               [enc |-> "unc", pre |-> KeysInFileOrder(f)],
               [enc |-> "unc", pre |-> KeysInPathOrder(f)]}
         ELSE {[enc |-> "comp", pre |-> BaseHash.pre]}

(***************************************************************************)
(* Env: deviations, then start                                             *)
(***************************************************************************)
Init == /\ \E plat \in Platforms :
              \E fmt \in (IF plat = "ledger" THEN {"current", "legacy"} ELSE {"current"}) :
                  inp = Good(plat, fmt)
        /\ ndev = 0 /\ nfile = 0 /\ pc = "env" /\ outcome = "none" /\ site = "none"
        /\ printed = NothingPrinted /\ sys = [pkhash |-> <<>>, ui |-> "none", pow |-> "none"]

IsL == inp.plat = "ledger"
Dev(new) == /\ pc = "env" /\ ndev < MaxDev /\ inp' = new /\ ndev' = ndev + 1
            /\ UNCHANGED <<nfile, pc, outcome, site, printed, sys>>

DevArgs  == inp.args = "ok" /\ \E v \in {"nocert", "nopub"} : Dev([inp EXCEPT !.args = v])
DevRoot  == inp.root = "right" /\ \E v \in {"wrong", "malformed", "malformed2"} :
                Dev([inp EXCEPT !.root = v])
DevCert  == inp.certfile = "ok" /\ Dev([inp EXCEPT !.certfile = "bad"])
DevFile  == /\ nfile < MaxFileMut /\ pc = "env" /\ ndev < MaxDev
            /\ \E f \in FileMuts(inp.file) : inp' = [inp EXCEPT !.file = f]
            /\ ndev' = ndev + 1 /\ nfile' = nfile + 1
            /\ UNCHANGED <<pc, outcome, site, printed, sys>>
DevHash  == inp.mh = BaseHash /\ \E h \in HashVariants(inp.file) \ {BaseHash} :
                Dev([inp EXCEPT !.mh = h])
DevUi    == /\ IsL
            /\ \/ inp.ui.exists = "t" /\ Dev([inp EXCEPT !.ui.exists = "f"])
               \/ inp.ui.chain = "intact" /\ Dev([inp EXCEPT !.ui.chain = "broken"])
               \/ inp.ui.hdr = "ok" /\ \E v \in {"foreign"} \cup (IF Sep THEN {"sep"} ELSE {}) :
                      Dev([inp EXCEPT !.ui.hdr = v])
               \/ inp.ui.key = 1 /\ \E k \in {2, Stranger} : Dev([inp EXCEPT !.ui.key = k])
DevPow   == \/ inp.pow.exists = "t" /\ Dev([inp EXCEPT !.pow.exists = "f"])
            \/ inp.pow.chain = "intact" /\ Dev([inp EXCEPT !.pow.chain = "broken"])
            \/ inp.pow.hdr = "current" /\
                  \E v \in {"foreign"} \cup (IF Sep THEN {"sep"} ELSE {})
                           \cup (IF IsL THEN {} ELSE {"legacy"}) :
                      Dev([inp EXCEPT !.pow.hdr = v])
            \/ inp.pow.hdr = "legacy" /\ IsL /\
                  \E v \in {"foreign"} \cup (IF Sep THEN {"sepleg"} ELSE {}) :
                      Dev([inp EXCEPT !.pow.hdr = v])
            \/ inp.pow.len = "exact" /\ \E v \in {"short", "long"} : Dev([inp EXCEPT !.pow.len = v])
Start    == /\ pc = "env" /\ pc' = (IF IsL THEN "l1" ELSE "s1")
            /\ UNCHANGED <<inp, ndev, nfile, outcome, site, printed, sys>>

(***************************************************************************)
(* The bytes the abstract input stands for (the model's own concretiser).  *)
(* Every body byte is position-coded, so a wrong offset shows.             *)
(***************************************************************************)
Fill(n, base) == [i \in 1..n |-> (base + i) % 256]
Ver54 == <<53, 46, 52>>        \* 5.4
Ver53 == <<53, 46, 51>>        \* 5.3
Ver5x4 == <<53, 120, 52>>      \* 5x4
Ver5x3 == <<53, 120, 51>>
UiHdrBytes(c) == CASE c = "ok"  -> UiPrefix \o Ver54
                   [] c = "sep" -> UiPrefix \o Ver5x4
                   [] OTHER     -> <<72, 83, 77, 58, 85, 74, 58>> \o Ver54           \* HSM:UJ:5.4
PowHdrBytes(c) == CASE c = "current" -> PowPrefix \o Ver54 \o <<58, 58>>
                    [] c = "sep"     -> PowPrefix \o Ver5x4 \o <<58, 58>>
                    [] c = "legacy"  -> LegPrefix \o Ver53
                    [] c = "sepleg"  -> LegPrefix \o Ver5x3
                    [] OTHER         -> <<80, 48, 87, 72, 83, 77, 58>> \o Ver54 \o <<58, 58>>  \* P0WHSM:5.4::
Key33(k) == <<2, k>> \o [i \in 1..31 |-> 0]
K33 == [k \in 1..6 |-> Key33(k)]
HashBytes(h) == [i \in 1..32 |-> IF i = 1 THEN (CASE h.enc = "unc" -> 1 [] h.enc = "comp" -> 2 [] OTHER -> 3)
                                 ELSE IF i - 1 <= Len(h.pre) THEN h.pre[i - 1] ELSE 0]
Adjust(m, c) == CASE c = "short" -> SubSeq(m, 1, Len(m) - 1)
                  [] c = "long"  -> Append(m, 7)
                  [] OTHER       -> m
Plat3(p) == IF p = "ledger" THEN <<108, 101, 100>> ELSE <<115, 103, 120>>
PowMsg(i) == Adjust(IF i.pow.hdr \in {"legacy", "sepleg"}
                    THEN PowHdrBytes(i.pow.hdr) \o HashBytes(i.mh)
                    ELSE PowHdrBytes(i.pow.hdr) \o Plat3(i.plat) \o Fill(32, 20) \o HashBytes(i.mh)
                         \o Fill(32, 60) \o Fill(8, 100) \o Fill(8, 110),
                    i.pow.len)
UiMsg(i) == UiHdrBytes(i.ui.hdr) \o Fill(32, 130) \o Key33(i.ui.key) \o Fill(32, 170) \o <<0, 9>>
SignedOf(i) == [ui |-> IF i.plat = "ledger" THEN UiMsg(i) ELSE <<>>,
                uitweak |-> IF i.plat = "ledger" THEN Fill(32, 200) ELSE <<>>,
                pow |-> PowMsg(i),
                powtweak |-> IF i.plat = "ledger" THEN Fill(32, 220) ELSE <<>>,
                quote |-> IF i.plat = "sgx" THEN Fill(432, 0) ELSE <<>>]
S == SignedOf(inp)

(***************************************************************************)
(* Sys: the code.  Helpers mirror Python semantics.                        *)
(***************************************************************************)
PySlice(m, a, b) == SubSeq(m, a + 1, IF b < Len(m) THEN b ELSE Len(m))      \* m[a:b]
PyFrom(m, a) == SubSeq(m, a + 1, Len(m))                                     \* m[a:]
\* re.match of the three header expressions
SepOk(b)    == Wildcard \/ b = Dot
MatchUi(m)  == UiShape(m) /\ m[8] \in 50..53 /\ SepOk(m[9])      \* ^HSM:UI:([2345]\.[0-9])
MatchLeg(m) == LegShape(m) /\ m[12] \in 50..53 /\ SepOk(m[13])   \* ^HSM:SIGNER:([2345]\.[0-9])
MatchPow(m) == PowShape(m) /\ m[8] = 53 /\ SepOk(m[9])           \* ^POWHSM:(5\.[0-9])::
UD == 32  PK == 33  SH == 32  IT == 2  KH == 32         \* *_LENGTH constants
StructLen == 3 + 32 + 32 + 32 + 8 + 8                   \* PowHsmAttestationMessage.get_bytelength()

Err(s) == /\ pc' = "done" /\ outcome' = "error" /\ site' = s
          /\ UNCHANGED <<inp, ndev, nfile, printed, sys>>
Go(p)  == pc' = p /\ UNCHANGED <<inp, ndev, nfile, outcome, site, printed, sys>>
GoSys(p, s2) == pc' = p /\ sys' = s2 /\ UNCHANGED <<inp, ndev, nfile, outcome, site, printed>>
Chk(at, bad, s, next) == pc = at /\ IF bad THEN Err(s) ELSE Go(next)

FileHash(f) == HashBytes([enc |-> "unc", pre |-> KeysInPathOrder(f)])   \* sorted(keys), uncompressed
Verdict(t) == IF t.exists # "t" THEN "absent"
              ELSE IF inp.root = "right" /\ t.chain = "intact" THEN "valid" ELSE "invalid"

\* ---- Ledger: verify_ledger_attestation.do_verify_attestation
L_NoCert     == Chk("l1", inp.args = "nocert", "NoCert", "l2")
L_NoPub      == Chk("l2", inp.args = "nopub", "NoPub", "l3")
L_RootHex    == Chk("l3", inp.root = "malformed", "RootHex", "l4")
L_RootParse  == Chk("l4", inp.root = "malformed2", "RootParse", "l5")
L_LoadKeys   == Chk("l5", inp.file.kind # "ok", "LoadPubkeys", "l6")
L_HashKeys   == pc = "l6" /\ IF inp.file.ents = <<>> THEN Err("EmptyKeys")
                             ELSE GoSys("l7", [sys EXCEPT !.pkhash = FileHash(inp.file)])
L_BtcKey     == Chk("l7", Btc \notin PathsOf(inp.file), "NoBtcKey", "l8")
L_LoadCert   == Chk("l8", inp.certfile # "ok", "LoadCert", "l9")
L_Validate   == pc = "l9" /\ GoSys("l10", [sys EXCEPT !.ui = Verdict(inp.ui), !.pow = Verdict(inp.pow)])
L_NoUi       == Chk("l10", sys.ui = "absent", "NoUi", "l11")
L_UiInvalid  == Chk("l11", sys.ui = "invalid", "UiInvalid", "l12")
L_UiHeader   == Chk("l12", ~MatchUi(S.ui), "UiHeader", "l13")
L_UiKey      == Chk("l13", PySlice(S.ui, 10 + UD, 10 + UD + PK) # Key33(KeyAt(inp.file, Btc)),
                    "UiKey", "l14")
L_UiPrint    == /\ pc = "l14" /\ pc' = "l15"
                /\ printed' = [printed EXCEPT
                      !.ui_ud = PySlice(S.ui, 10, 10 + UD),
                      !.ui_shash = PySlice(S.ui, 10 + UD + PK, 10 + UD + PK + SH),
                      !.ui_iter = PySlice(S.ui, 10 + UD + PK + SH, 10 + UD + PK + SH + IT),
                      !.ui_hash = S.uitweak]
                /\ UNCHANGED <<inp, ndev, nfile, outcome, site, sys>>
L_NoSigner   == Chk("l15", sys.pow = "absent", "NoSigner", "l16")
L_SgInvalid  == Chk("l16", sys.pow = "invalid", "SignerInvalid", "l17")
L_SgHeader   == Chk("l17", ~MatchLeg(S.pow) /\ ~MatchPow(S.pow), "SignerHeader", "l18")
L_SgLength   == pc = "l18" /\ IF MatchLeg(S.pow)
                              THEN (IF PyFrom(S.pow, 14 + KH) # <<>> THEN Err("LegacyLong") ELSE Go("l19"))
                              ELSE (IF Len(S.pow) # 12 + StructLen THEN Err("PowLength") ELSE Go("l19"))
Reported     == IF MatchLeg(S.pow) THEN PyFrom(S.pow, 14) ELSE PySlice(S.pow, 12 + 3 + 32, 12 + 3 + 32 + 32)
L_SgHash     == Chk("l19", Reported # sys.pkhash, "HashMismatch", "l20")
PowPrinted(p, m) == [p EXCEPT !.ud = PySlice(m, 15, 47), !.best_block = PySlice(m, 79, 111),
                              !.last_tx = PySlice(m, 111, 119), !.timestamp = PySlice(m, 119, 127)]
L_Return     == /\ pc = "l20" /\ pc' = "done" /\ outcome' = "return" /\ site' = "Return"
                /\ printed' = LET p == [printed EXCEPT !.keys_hash = sys.pkhash, !.app_hash = S.powtweak]
                              IN IF MatchLeg(S.pow) THEN p ELSE PowPrinted(p, S.pow)
                /\ UNCHANGED <<inp, ndev, nfile, sys>>

\* ---- SGX: verify_sgx_attestation.do_verify_attestation
S_NoCert     == Chk("s1", inp.args = "nocert", "NoCert", "s2")
S_NoPub      == Chk("s2", inp.args = "nopub", "NoPub", "s3")
S_RootLoad   == Chk("s3", inp.root = "malformed", "RootLoad", "s4")
S_RootSelf   == Chk("s4", inp.root = "malformed2", "RootSelf", "s5")
S_Keys       == pc = "s5" /\ IF inp.file.kind # "ok" \/ inp.file.ents = <<>> THEN Err("Pubkeys")
                             ELSE GoSys("s6", [sys EXCEPT !.pkhash = FileHash(inp.file)])
S_LoadCert   == Chk("s6", inp.certfile # "ok", "LoadCert", "s7")
S_Validate   == pc = "s7" /\ GoSys("s8", [sys EXCEPT !.pow = Verdict(inp.pow)])
S_NoQuote    == Chk("s8", sys.pow = "absent", "NoQuote", "s9")
S_QInvalid   == Chk("s9", sys.pow = "invalid", "QuoteInvalid", "s10")
S_Header     == Chk("s10", ~MatchPow(S.pow), "PowHeader", "s11")
S_Length     == Chk("s11", Len(S.pow) # 12 + StructLen, "PowLength", "s12")
S_Hash       == Chk("s12", PySlice(S.pow, 47, 79) # sys.pkhash, "HashMismatch", "s13")
S_Return     == /\ pc = "s13" /\ pc' = "done" /\ outcome' = "return" /\ site' = "Return"
                /\ printed' = PowPrinted([printed EXCEPT !.keys_hash = sys.pkhash,
                                             !.mrenclave = PySlice(S.quote, 112, 144),
                                             !.mrsigner = PySlice(S.quote, 176, 208)], S.pow)
                /\ UNCHANGED <<inp, ndev, nfile, sys>>

EnvNext == DevArgs \/ DevRoot \/ DevCert \/ DevFile \/ DevHash \/ DevUi \/ DevPow \/ Start
SysNext == \/ L_NoCert \/ L_NoPub \/ L_RootHex \/ L_RootParse \/ L_LoadKeys \/ L_HashKeys \/ L_BtcKey
           \/ L_LoadCert \/ L_Validate \/ L_NoUi \/ L_UiInvalid \/ L_UiHeader \/ L_UiKey \/ L_UiPrint
           \/ L_NoSigner \/ L_SgInvalid \/ L_SgHeader \/ L_SgLength \/ L_SgHash \/ L_Return
           \/ S_NoCert \/ S_NoPub \/ S_RootLoad \/ S_RootSelf \/ S_Keys \/ S_LoadCert \/ S_Validate
           \/ S_NoQuote \/ S_QInvalid \/ S_Header \/ S_Length \/ S_Hash \/ S_Return
Next == EnvNext \/ SysNext
Spec == Init /\ [][Next]_vars

(***************************************************************************)
(* Properties                                                              *)
(***************************************************************************)
Terminal == pc = "done"
ReturnIffOk       == Terminal => ReturnIffOkP(inp, outcome)
PrintedSigned     == Terminal => PrintedSignedP(inp, outcome, printed, S)
ModelConsistent   == Consistent(inp, S, K33)
\* vacuity guards: must be violated
NeverReturns      == outcome # "return"
NeverPrints       == ~(Terminal /\ outcome = "return" /\ printed.timestamp # <<>>)
=============================================================================
