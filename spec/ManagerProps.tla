---------------------------- MODULE ManagerProps ----------------------------
(***************************************************************************)
(* Whole-process view of a manager lifetime (mgr/runner.py ManagerRunner   *)
(* .run: load PIN, create dongle, bring-up, TCP server loop, termination), *)
(* composed from the per-property clauses: it adds nothing the listed      *)
(* properties do not state, it checks them *together* on one process.      *)
(*                                                                         *)
(* Events of one lifetime:                                                 *)
(*   start(should)     the process started against a device for which      *)
(*                     C09's ShouldServe is `should` (ground truth)        *)
(*   listening         the TCP port accepts connections                    *)
(*   conn(cause, connected, onereply, hascode, code, stopreq)              *)
(*       cause: what the environment did during this request               *)
(*         client     only the client misbehaved / nothing special  (C03)  *)
(*         inrange    device answered a status in its own range     (C04)  *)
(*         linkfault  write / read error on the link                (C11)  *)
(*         timeout    exchange timed out                            (C11)  *)
(*         outrange   device answered a status outside its range    (C04: may stop)*)
(*         unsafe     the device is no longer in a state to serve from     *)
(*                    (found by the repair bring-up)           (C09: may stop)*)
(*   exit(code)        the process ended                                   *)
(***************************************************************************)
EXTENDS Integers, Sequences, TLC

MustSurvive == {"client", "inrange", "linkfault", "timeout"}
DeviceError(v1) == IF v1 THEN -2 ELSE -905

InitObs == [phase |-> "new",      \* new | started | listening | stopping | exited
            should |-> FALSE, stopcause |-> "none"]

Observe(o, e) ==
    IF e.k = "start" THEN [o EXCEPT !.phase = "started", !.should = e.should]
    ELSE IF e.k = "listening" THEN [o EXCEPT !.phase = "listening"]
    ELSE IF e.k = "conn" THEN
        IF e.stopreq THEN [o EXCEPT !.phase = "stopping", !.stopcause = e.cause] ELSE o
    ELSE IF e.k = "exit" THEN [o EXCEPT !.phase = "exited"]
    ELSE o

Clauses(o, n, e, v1) == <<
    \* C09: serves exactly when it should
    <<"ListeningFromUnsafeState", (e.k = "listening") => o.should>>,
    <<"ExitedWithoutServingThoughSafe", (e.k = "exit" /\ o.phase = "started") => ~o.should>>,
    \* C03 / C04 / C11: these never stop the manager and always get exactly one reply with an errorcode
    <<"StoppedForSurvivableCause", (e.k = "conn" /\ e.stopreq) => e.cause \notin MustSurvive>>,
    <<"NotAccepting", (e.k = "conn" /\ o.phase = "listening") => e.connected>>,
    <<"NoSingleReply", (e.k = "conn" /\ e.connected) => e.onereply>>,
    <<"ReplyWithoutErrorCode", (e.k = "conn" /\ e.connected /\ e.cause \in MustSurvive) => e.hascode>>,
    \* C11 / C04: the documented code for link faults and time-outs
    <<"LinkFaultCode", (e.k = "conn" /\ e.connected /\ e.cause \in {"linkfault", "timeout"})
                         => (e.hascode /\ e.code = DeviceError(v1))>>,
    \* C09: no command succeeds on a device that is not one to serve from (ground truth when the request ends)
    <<"SuccessFromUnsafeDevice", (e.k = "conn" /\ e.connected /\ e.unsafe) => ~(e.hascode /\ e.code >= 0)>>,
    \* once it decided to stop it really stops: no further request is served
    <<"ServedAfterStop", (e.k = "conn" /\ o.phase \in {"stopping", "exited"}) => ~e.connected>> >>

RECURSIVE FirstFailM(_)
FirstFailM(cs) == IF cs = <<>> THEN ""
                  ELSE IF ~Head(cs)[2] THEN Head(cs)[1] ELSE FirstFailM(Tail(cs))
=============================================================================
