----------------------------- MODULE ServeProps -----------------------------
(***************************************************************************)
(* C03 on observables.  One event per client connection, as seen by the    *)
(* client over the socket:                                                 *)
(*   conn(cls, connected, nlines, isobj, hascode, shutdown)                *)
(*     connected  the TCP connection was accepted                          *)
(*     nlines     complete lines received before the server closed         *)
(*     isobj      the (single) line is a JSON object                       *)
(*     hascode    ... holding an integer "errorcode"                       *)
(*     shutdown   the manager asked its server to shut down while handling *)
(*                this request (observed inside the manager process)       *)
(***************************************************************************)
EXTENDS Naturals, Sequences, TLC

Clauses(e) == <<
    <<"ManagerNotAccepting", e.connected>>,
    <<"NoReply",             e.connected => e.nlines >= 1>>,
    <<"MoreThanOneReply",    e.connected => e.nlines <= 1>>,
    <<"ReplyNotAnObject",    (e.connected /\ e.nlines = 1) => e.isobj>>,
    <<"ReplyWithoutErrorCode", (e.connected /\ e.nlines = 1 /\ e.isobj) => e.hascode>>,
    <<"ManagerShutsDown",    ~e.shutdown>> >>

RECURSIVE FirstFailV(_)
FirstFailV(cs) == IF cs = <<>> THEN ""
                  ELSE IF ~Head(cs)[2] THEN Head(cs)[1] ELSE FirstFailV(Tail(cs))
=============================================================================
