SPECIFICATION Spec
CONSTANTS
  MaxSigs = 4
  MaxSteps = 3
  MaxOps = 3
  Tools = {"none", "key", "eth", "manual_ok", "manual_bad", "manual_spell", "message", "eth_pub"}
INVARIANT RefusesMalformed
INVARIANT AcceptsWellFormed
INVARIANT MessageText
INVARIANT Eip191Wrap
INVARIANT Keccak256Digest
INVARIANT SignatureVerifies
INVARIANT RoundTripP
INVARIANT SelectedPathUsed
INVARIANT ExchangeShape
INVARIANT AuthorizedIff
INVARIANT FileNamesItsVersion
INVARIANT ObjectUnchanged
INVARIANT DocumentedFailure
INVARIANT AuthorizedIffK
INVARIANT Holds
PROPERTY StopsAtSuccess
PROPERTY OneAtATime
VIEW View
CHECK_DEADLOCK FALSE
