------------------------------ MODULE SignerAuth ------------------------------
(***************************************************************************)
(* Env (operator inputs: hash text, iteration in any JSON/argv form,       *)
(* signature texts; device: current iteration, threshold) || Sys (what     *)
(* admin/signer_authorization.py, signapp.py and                           *)
(* HSM2Dongle.authorize_signer do, one action per externally visible       *)
(* step).  Every step is an *event* of SignerAuthProps; `obs` is the fold  *)
(* of the events and `verdict` the first clause of C17 an event broke.     *)
(* The model works on real text, with 2-byte hashes and 8-byte DER         *)
(* signatures so that TLC can enumerate it; the trace specification        *)
(* applies the same definitions to 32-byte hashes of real executions.      *)
(***************************************************************************)
EXTENDS SignerAuthProps

CONSTANTS MaxSigs,      \* signatures in a file (<= 4)
          MaxSteps,     \* signapp invocations on the same -o path (<= 3)
          MaxOps,       \* operations on one loaded SignerAuthorization object (<= 3)
          Tools         \* subset of {"none", "key", "eth", "eth_pub", "manual_ok", "manual_bad", "manual_spell", "message"}

HL == 2
NEVER == 99
KECCAK256 == 1          \* tag of the named hash function: Keccak256(x) = <<1>> \o x
K256(x) == <<KECCAK256>> \o x

---------------------------------------------------------------------------
(* Env: input classes as concrete small texts                             *)
Txt(cls, s) == [cls |-> cls, kind |-> "str", s |-> s]
GoodHashes == { Txt("lower", <<97, 49, 98, 50>>),          \* a1b2
                Txt("upper", <<65, 49, 66, 50>>),          \* A1B2
                Txt("mixed", <<97, 49, 66, 50>>) }         \* a1B2
BadHashes  == { Txt("short", <<97, 49>>),                  \* one byte less
                Txt("odd", <<97, 49, 98>>),                \* a nibble less
                Txt("long", <<97, 49, 98, 50, 99, 51>>),
                Txt("nonhex", <<97, 49, 98, 103>>),        \* a1bg
                Txt("prefixed", <<48, 120, 97, 49, 98, 50>>),  \* 0xa1b2
                Txt("prefixed_samelen", <<48, 120, 98, 50>>),  \* 0xb2
                Txt("empty", <<>>),
                Txt("spaced", <<97, 49, 32, 98, 50>>),       \* "a1 b2": blank-separated bytes
                \* spellings of the right 2 bytes that are not the plain 4 hex digits (all refused:
                \* is_hex_string_of_length and len(hash) == 64)
                Txt("prefixed_upper", <<48, 88, 97, 49, 98, 50>>),     \* 0Xa1b2
                Txt("lead_ws", <<32, 97, 49, 98, 50>>),
                Txt("trail_ws", <<97, 49, 98, 50, 32>>),
                Txt("trail_nl", <<97, 49, 98, 50, 10>>),
                Txt("odd_extra0", <<97, 49, 98, 50, 48>>),
                Txt("nonascii", <<97, 1633, 98, 50>>),                 \* ARABIC-INDIC DIGIT ONE for '1'
                [cls |-> "other", kind |-> "other", s |-> <<>>] }

It(cls, form, val, s) == [cls |-> cls, form |-> form, val |-> val, s |-> s]
GoodIters == { It("int_0", "int", 0, <<>>), It("int_1", "int", 1, <<>>),
               It("int_mid", "int", 258, <<>>), It("int_max", "int", 65535, <<>>),
               It("dec_0", "str", 0, <<48>>), It("dec_mid", "str", 0, <<50, 53, 56>>),
               It("dec_max", "str", 0, <<54, 53, 53, 51, 53>>),
               It("dec_lead0", "str", 0, <<48, 48, 50, 53, 56>>),               \* 00258
               It("dec_lead0_max", "str", 0, <<48, 54, 53, 53, 51, 53>>),       \* 065535
               It("hex_pad", "str", 0, <<48, 120, 48, 49, 48, 50>>),            \* 0x0102
               It("hex_mid", "str", 0, <<48, 120, 49, 48, 50>>),              \* 0x102
               It("hex_max", "str", 0, <<48, 120, 102, 102, 102, 102>>),      \* 0xffff
               It("hex_max_upper", "str", 0, <<48, 120, 70, 70, 70, 70>>),    \* 0xFFFF
               It("hex_mixedcase", "str", 0, <<48, 120, 49, 65, 98>>) }       \* 0x1Ab
BadIters  == { It("int_neg", "int", -1, <<>>), It("int_over", "int", 65536, <<>>),
               It("dec_neg", "str", 0, <<45, 49>>),
               It("dec_over", "str", 0, <<54, 53, 53, 51, 54>>),
               It("hex_over", "str", 0, <<48, 120, 49, 48, 48, 48, 48>>),      \* 0x10000
               It("bin", "str", 0, <<48, 98, 49, 48, 49>>),                     \* 0b101
               It("oct", "str", 0, <<48, 111, 49, 55>>),                        \* 0o17
               It("hex_upper_prefix", "str", 0, <<48, 88, 49, 70>>),            \* 0X1F
               It("float", "float", 1, <<>>), It("bool", "bool", 1, <<>>),
               It("none", "none", 0, <<>>),
               It("junk_alpha", "str", 0, <<97, 98, 99>>),                      \* abc
               It("junk_point", "str", 0, <<49, 46, 53>>),                      \* 1.5
               It("junk_empty", "str", 0, <<>>) }

\* spellings of an iteration text the property leaves open; what the unchanged code (Python's int()
\* after hex_or_decimal_string_to_int) does with each is modelled by PyInt below:
\*   accepted as 258 (0 for "-0"): sp_lead_ws sp_trail_ws sp_trail_nl sp_plus sp_underscore
\*                                 sp_nonascii sp_neg_zero sp_hex_trail_ws sp_hex_underscore
\*   refused: sp_inner_ws sp_hex_lead_ws
FreeIters == { It("sp_lead_ws", "str", 0, <<32, 50, 53, 56>>),
               It("sp_trail_ws", "str", 0, <<50, 53, 56, 32>>),
               It("sp_trail_nl", "str", 0, <<50, 53, 56, 10>>),
               It("sp_inner_ws", "str", 0, <<50, 32, 53, 56>>),
               It("sp_plus", "str", 0, <<43, 50, 53, 56>>),
               It("sp_underscore", "str", 0, <<50, 95, 53, 56>>),
               It("sp_nonascii", "str", 0, <<1634, 1637, 1640>>),                \* ARABIC-INDIC 258
               It("sp_neg_zero", "str", 0, <<45, 48>>),
               It("sp_hex_trail_ws", "str", 0, <<48, 120, 49, 48, 50, 32>>),
               It("sp_hex_lead_ws", "str", 0, <<32, 48, 120, 49, 48, 50>>),
               It("sp_hex_underscore", "str", 0, <<48, 120, 49, 95, 48, 50>>) }

\* signatures: 8-byte DER  30 06 02 01 id 02 01 id  as hex text, and malformed variants of it
Der(id) == <<48, 6, 2, 1, id, 2, 1, id>>
GoodSig(id) == ToHex(Der(id))
SigKinds == {"trail", "seqtag", "inttag", "trunc", "seqlen", "zerolen", "empty", "nonhex", "oddlen"}
BadSig(id, kind) ==
    LET d == Der(id) IN
    CASE kind = "trail"   -> ToHex(d \o <<0>>)
      [] kind = "seqtag"  -> ToHex([d EXCEPT ![1] = 49])
      [] kind = "inttag"  -> ToHex([d EXCEPT ![6] = 3])
      [] kind = "trunc"   -> ToHex(SubSeq(d, 1, 7))
      [] kind = "seqlen"  -> ToHex([d EXCEPT ![2] = 7])
      [] kind = "zerolen" -> ToHex(<<48, 5, 2, 0, 2, 1, id>>)
      [] kind = "empty"   -> <<>>
      [] kind = "nonhex"  -> [GoodSig(id) EXCEPT ![3] = 122]          \* 'z'
      [] kind = "oddlen"  -> SubSeq(GoodSig(id), 1, 15)

\* spellings of a *valid* DER signature's hex text (id >= 26 so that the text has letters).  The
\* unchanged code validates and later sends bytes.fromhex(text) of the text it stores verbatim:
\*   accepted, stored as given: upper mixed lead_ws trail_ws inner_ws trail_nl
\*   refused: p0x p0X split_pair odd0 nonascii
SigSpells == {"upper", "mixed", "p0x", "p0X", "lead_ws", "trail_ws", "inner_ws", "trail_nl",
              "split_pair", "odd0", "nonascii"}
UpperC(c) == IF c >= 97 /\ c <= 122 THEN c - 32 ELSE c
SpellSig(id, sp) ==
    LET g == GoodSig(id) IN
    CASE sp = "upper"      -> [i \in 1..Len(g) |-> UpperC(g[i])]
      [] sp = "mixed"      -> [g EXCEPT ![10] = UpperC(g[10])]
      [] sp = "p0x"        -> <<48, 120>> \o g
      [] sp = "p0X"        -> <<48, 88>> \o g
      [] sp = "lead_ws"    -> <<32>> \o g
      [] sp = "trail_ws"   -> g \o <<9>>
      [] sp = "inner_ws"   -> SubSeq(g, 1, 4) \o <<32>> \o SubSeq(g, 5, Len(g))
      [] sp = "trail_nl"   -> g \o <<10>>
      [] sp = "split_pair" -> SubSeq(g, 1, 3) \o <<32>> \o SubSeq(g, 4, Len(g))
      [] sp = "odd0"       -> g \o <<48>>
      [] sp = "nonascii"   -> [g EXCEPT ![1] = 1635]                  \* ARABIC-INDIC DIGIT THREE

---------------------------------------------------------------------------
(* Sys: the code's own parsing, as read from the Python sources            *)
Fail == <<-1>>
RECURSIVE PyFromHex(_)      \* bytes.fromhex: blanks between bytes are skipped
PyFromHex(s) ==
    IF s = <<>> THEN <<>>
    ELSE IF IsSpace(s[1]) THEN PyFromHex(Tail(s))
    ELSE IF Len(s) >= 2 /\ IsHex(s[1]) /\ IsHex(s[2])
         THEN LET r == PyFromHex(SubSeq(s, 3, Len(s))) IN
              IF r = Fail THEN Fail ELSE <<16 * HexVal(s[1]) + HexVal(s[2])>> \o r
         ELSE Fail
\* is_hex_string_of_length(hash, 32) and len(hash) == 64
SysHashOK(h) == h.kind = "str" /\ PyFromHex(h.s) # Fail /\ Len(PyFromHex(h.s)) = HL /\ Len(h.s) = 2 * HL
\* hex_or_decimal_string_to_int on the plain texts above (sign, digits); -2 = ValueError
PyInt(s, hex) ==
    LET neg == s # <<>> /\ s[1] = 45
        body == IF neg THEN Tail(s) ELSE s IN
    IF hex THEN (IF Len(s) > 2 /\ AllHex(SubSeq(s, 3, Len(s))) THEN HexNum(SubSeq(s, 3, Len(s))) ELSE -2)
    ELSE IF body # <<>> /\ AllDigits(body) THEN (IF neg THEN 0 - DecVal(body) ELSE DecVal(body))
    ELSE -2
\* ... and on the unusual spellings (FreeIters): what Python's int(text, 16 if text.startswith("0x")
\* else 10) does with each member -- blanks stripped at both ends, optional sign, digits of any
\* Unicode decimal script, single underscores between digits; " 0x102" is parsed in base 10
SpelledIter(cls) ==
    CASE cls \in {"sp_lead_ws", "sp_trail_ws", "sp_trail_nl", "sp_plus", "sp_underscore", "sp_nonascii",
                  "sp_hex_trail_ws", "sp_hex_underscore"} -> 258
      [] cls = "sp_neg_zero" -> 0
      [] cls \in {"sp_inner_ws", "sp_hex_lead_ws"} -> -2
SysIter(it) ==      \* the int the constructor ends up with, or -2 when it raises
    LET v == IF it \in FreeIters THEN SpelledIter(it.cls)
             ELSE IF it.form = "str"
             THEN PyInt(it.s, Len(it.s) >= 2 /\ it.s[1] = 48 /\ it.s[2] = 120)
             ELSE IF it.form = "int" THEN it.val ELSE -2 IN
    IF v < 0 \/ v >= 65536 THEN -2 ELSE v
\* secp256k1_ecdsa_signature_parse_der, short-form lengths
SecpInt(b, a) == IF a + 1 > Len(b) \/ b[a] # 2 \/ b[a + 1] = 0 \/ b[a + 1] >= 128
                    \/ a + 1 + b[a + 1] > Len(b) THEN 0 ELSE a + 2 + b[a + 1]   \* next index, 0 = fail
SecpParse(b) == /\ Len(b) >= 2 /\ b[1] = 48 /\ b[2] < 128 /\ b[2] = Len(b) - 2
                /\ SecpInt(b, 3) # 0 /\ SecpInt(b, SecpInt(b, 3)) = Len(b) + 1
SysSigOK(s) == PyFromHex(s) # Fail /\ SecpParse(PyFromHex(s))
SysMsg(hs, n)  == P1 \o Lower(hs) \o P2 \o Dec(n)          \* f"RSK_powHSM_signer_{hash}_iteration_{n}"
SysWrap(m)     == ETH \o Dec(Len(m)) \o m                   \* encode_eth_message
SysDigest(m)   == K256(SysWrap(m))                          \* keccak_256

---------------------------------------------------------------------------
VARIABLES pc, env, hash, iter, sigs,     \* env: record of Env choices (for generation)
          fx,                            \* the authorization file at -o exists (hash, iter, sigs = its content)
          obs, verdict, hist
vars == <<pc, env, hash, iter, sigs, fx, obs, verdict, hist>>

Env0 == [hcls |-> "?", icls |-> "?", m |-> 0, mut |-> "none", at |-> 0, kind |-> "?", tool |-> "?",
         steps |-> <<>>, style |-> "?", mode |-> "single", ops |-> <<>>, cur |-> "?", k |-> 0]
NoHash == [cls |-> "?", kind |-> "other", s |-> <<>>]
NoIter == It("?", "none", 0, <<>>)

Init == /\ pc = "build" /\ env = Env0 /\ hash = NoHash /\ iter = NoIter /\ sigs = <<>> /\ fx = FALSE
        /\ obs = InitObs /\ verdict = "" /\ hist = <<>>

Emit2(e1, e2) ==
    LET o1 == Observe(obs, e1, HL)
        v1 == IF verdict # "" THEN verdict ELSE Judge(obs, e1, HL) IN
    /\ obs' = Observe(o1, e2, HL)
    /\ verdict' = IF v1 # "" THEN v1 ELSE Judge(o1, e2, HL)
    /\ hist' = hist \o <<e1.k, e2.k>>
Emit(e) == /\ obs' = Observe(obs, e, HL)
           /\ verdict' = IF verdict # "" THEN verdict ELSE Judge(obs, e, HL)
           /\ hist' = Append(hist, e.k)

BuildEvent(h, it, ss) ==
    LET ok == SysHashOK(h) /\ SysIter(it) # -2 /\ \A i \in 1..Len(ss) : SysSigOK(ss[i])
        n  == SysIter(it)
        m  == SysMsg(h.s, n)
        hb == PyFromHex(h.s) IN
    IF ok THEN [k |-> "build", hash |-> [kind |-> h.kind, s |-> h.s],
                iter |-> [form |-> it.form, val |-> it.val, s |-> it.s], sigs |-> ss, ok |-> "t",
                o_hash |-> Lower(h.s), o_iter |-> n, o_msg |-> m, o_wrap |-> SysWrap(m),
                o_digest |-> SysDigest(m), o_sigs |-> ss,
                orc_of |-> AuthMsg(hb, n), orc_is |-> K256(AuthMsg(hb, n))]
    ELSE [k |-> "build", hash |-> [kind |-> h.kind, s |-> h.s],
          iter |-> [form |-> it.form, val |-> it.val, s |-> it.s], sigs |-> ss, ok |-> "f",
          o_hash |-> <<>>, o_iter |-> 0, o_msg |-> <<>>, o_wrap |-> <<>>, o_digest |-> <<>>,
          o_sigs |-> <<>>, orc_of |-> <<>>, orc_is |-> <<>>]

\* a well-formed base (hash x iteration x m signatures) with at most one malformed part; the
\* dimensions a refusal does not depend on are not multiplied out
H0 == Txt("lower", <<97, 49, 98, 50>>)
I0 == It("int_mid", "int", 258, <<>>)
DoBuild(h, it, m, mut, p, kind) ==
    LET ss == [i \in 1..m |-> IF mut = "sig" /\ i = p THEN BadSig(16 + i, kind)
                              ELSE IF mut = "sigspell" /\ i = p THEN SpellSig(26 + i, kind)
                              ELSE GoodSig(16 + i)]
        e  == BuildEvent(h, it, ss) IN
    /\ hash' = h /\ iter' = it /\ sigs' = ss /\ fx' = (e.ok = "t")
    /\ env' = [env EXCEPT !.hcls = h.cls, !.icls = it.cls, !.m = m, !.mut = mut, !.at = p,
                          !.kind = kind]
    /\ Emit(e)
    \* a behaviour whose build already breaks a clause is complete (it is replayed as such)
    /\ pc' = IF Judge(obs, e, HL) # "" THEN "done" ELSE IF e.ok = "t" THEN "tool" ELSE "refused"
BuildGood    == \E h \in GoodHashes, it \in GoodIters, m \in 0..MaxSigs : DoBuild(h, it, m, "none", 0, "?")
BuildBadHash == \E h \in BadHashes, it \in GoodIters, m \in {0, 1} : DoBuild(h, it, m, "hash", 0, "?")
BuildBadIter == \E h \in GoodHashes, it \in BadIters, m \in {0, 1} : DoBuild(h, it, m, "iter", 0, "?")
BuildBadSig  == \E m \in 1..MaxSigs, kind \in SigKinds : \E p \in 1..m, h \in {H0, Txt("upper", <<65, 49, 66, 50>>)} :
                   DoBuild(h, I0, m, "sig", p, kind)
\* one signature of the file / the iteration text in an unusual spelling
BuildSpelledSig  == \E m \in 1..MaxSigs, sp \in SigSpells : \E p \in 1..m : DoBuild(H0, I0, m, "sigspell", p, sp)
BuildSpelledIter == \E it \in FreeIters, m \in {0, 1} : DoBuild(H0, it, m, "iterspell", 0, "?")
\* no authorization file yet: the signapp steps start from nothing
StartAbsent == /\ pc' = "tool" /\ env' = [env EXCEPT !.mut = "absent", !.hcls = "lower", !.icls = "dec_mid"]
               /\ UNCHANGED <<hash, iter, sigs, fx, obs, verdict, hist>>
Build == pc = "build" /\ (StartAbsent \/ BuildGood \/ BuildBadHash \/ BuildBadIter \/ BuildBadSig
                          \/ BuildSpelledSig \/ BuildSpelledIter)

\* authorize with a file the loader refuses: nothing is sent, the command fails
RefusedAuthorize ==
    /\ pc = "refused" /\ Emit([k |-> "outcome", authorized |-> "f", exc |-> "ValueError", fresh |-> "f"])
    /\ pc' = "done" /\ UNCHANGED <<env, hash, iter, sigs, fx>>

File(ss) == [hash |-> Lower(hash.s), iter |-> SysIter(iter), sigs |-> ss]
FileOf(h, it, ss) == [hash |-> Lower(h.s), iter |-> SysIter(it), sigs |-> ss]
NoFile == [hash |-> <<>>, iter |-> 0, sigs |-> <<>>]

(***************************************************************************)
(* signapp steps on the same -o path.  Env chooses, per step, the          *)
(* operation and the shape of the -a / -i arguments relative to what the   *)
(* file holds (or, with no file, to app A / iteration 258):                *)
(*   none | same | other_iter | other_app | respelled (0x..) | bad_iter    *)
(* What the unchanged signapp does (modelled as it is):                    *)
(*   key / eth, file exists : -a / -i are IGNORED (not even validated);    *)
(*                            signs the digest of the file's own version   *)
(*   key / eth, no file     : version from -a / -i (both needed, valid),   *)
(*                            new file with that version + the signature   *)
(*   message -o             : never reads the file; version from -a / -i;  *)
(*                            (over)writes a file with NO signatures       *)
(*   manual                 : needs the file; -a / -i never looked at      *)
(***************************************************************************)
ArgShapes == {"none", "same", "other_iter", "other_app", "respelled", "bad_iter"}
HB == Txt("lower", <<99, 51, 100, 52>>)          \* c3d4: sha256 of the other app
RECURSIVE HexT(_)
HexT(n) == IF n < 16 THEN <<HexChar(n)>> ELSE Append(HexT(n \div 16), HexChar(n % 16))
CurH == IF fx THEN Txt("lower", Lower(hash.s)) ELSE H0
CurN == IF fx THEN SysIter(iter) ELSE 258
ArgsOf(a) ==
    LET other == IF CurN >= 65535 THEN CurN - 1 ELSE CurN + 1 IN
    [n |-> IF a = "bad_iter" THEN 65536 ELSE IF a = "other_iter" THEN other ELSE CurN,
     given |-> IF a = "none" THEN "f" ELSE "t",
     h  |-> IF a = "other_app" THEN (IF CurH.s = HB.s THEN H0 ELSE HB) ELSE CurH,
     it |-> It("arg", "str", 0,
               CASE a = "other_iter" -> Dec(other)
                 [] a = "respelled"  -> <<48, 120>> \o HexT(CurN)
                 [] a = "bad_iter"   -> <<54, 53, 53, 51, 54>>
                 [] OTHER            -> Dec(CurN))]
\* sessions (several steps / arguments / no initial file) run on the canonical base only
Canon == env.mut = "absent" \/ (env.mut = "none" /\ hash = H0 /\ iter = I0 /\ env.m <= 1)
Manual(t) == t \in {"manual_ok", "manual_bad", "manual_spell"}

(***************************************************************************)
(* Invocation shape.  `signapp eth` / `eth -b` talk to an Ethereum app     *)
(* that has one key PER derivation path; the operator selects the path     *)
(* with -p / --path, or leaves it out (the documented default              *)
(* m/44'/60'/0'/0/0).  The unchanged tool uses the selected path for the   *)
(* public key it retrieves, prints, saves (-b) and checks the signature    *)
(* against, and for the signing request.  The style of the command line    *)
(* (short / long option names, operation first / last) never matters.      *)
(***************************************************************************)
PathChoices == {"absent", "default", "other_a", "other_b"}
Styles == {"short_first", "long_first", "short_last", "long_last"}
PathSeq(p) == CASE p = "other_a" -> <<44, 60, 0, 0, 1>>
                [] p = "other_b" -> <<44, 137, 1, 0, 0>>
                [] OTHER         -> <<44, 60, 0, 0, 0>>         \* absent = the default, spelled or not
SysPath(p) == PathSeq(p)                                       \* options.path or DEFAULT_ETH_PATH
PubOf(path) == <<4>> \o path                                   \* the app's public key for a path

DoStep(t, a, sp, pth, sty) ==
    LET ar   == ArgsOf(a)
        nst  == Len(env.steps)
        via  == IF Manual(t) THEN "manual" ELSE t
        gsig == IF t = "manual_ok" THEN GoodSig(96 + Len(sigs))
                ELSE IF t = "manual_spell" THEN SpellSig(96 + 11 + Len(sigs), sp)
                ELSE IF t = "manual_bad" THEN BadSig(96 + Len(sigs), "trail") ELSE <<>>
        tsig == GoodSig(64 + 8 * nst + Len(sigs))
        same == [ok |-> FALSE, h |-> hash, it |-> iter, ss |-> sigs, fx |-> fx, sig |-> <<>>]
        res  == IF Manual(t) THEN
                    IF fx /\ SysSigOK(gsig)
                    THEN [same EXCEPT !.ok = TRUE, !.ss = Append(sigs, gsig), !.sig = gsig] ELSE same
                ELSE IF t = "eth_pub" THEN [same EXCEPT !.ok = TRUE]        \* writes the key to its own -o
                ELSE IF t \in {"key", "eth"} /\ fx THEN
                    [same EXCEPT !.ok = TRUE, !.ss = Append(sigs, tsig), !.sig = tsig]
                ELSE IF ar.given = "f" \/ SysIter(ar.it) = -2 THEN same
                ELSE [ok |-> TRUE, h |-> ar.h, it |-> ar.it, fx |-> TRUE,
                      ss |-> IF t = "message" THEN <<>> ELSE <<tsig>>,
                      sig |-> IF t = "message" THEN <<>> ELSE tsig]
        text == IF res.fx THEN AuthMsg(PyFromHex(res.h.s), SysIter(res.it)) ELSE <<>>
        \* key / eth sign keccak_256(encode_eth_message(msg)) of the version they hold: the loaded
        \* file's, else the one built from the arguments -- in both cases the one the file names
        signed == SysDigest(SysMsg(res.h.s, SysIter(res.it))) IN
    /\ hash' = res.h /\ iter' = res.it /\ sigs' = res.ss /\ fx' = res.fx
    /\ env' = [env EXCEPT !.tool = IF nst = 0 THEN t ELSE @,
                          !.kind = IF t = "manual_spell" THEN sp ELSE @,
                          !.steps = Append(@, [op |-> t, args |-> a, sp |-> IF t = "manual_spell" THEN sp ELSE "?",
                                               file |-> IF fx THEN "exists" ELSE "absent",
                                               \* for the concretiser: which app / iteration the arguments
                                               \* name (258 = the base iteration), did the step succeed
                                               ah |-> IF ar.h.s = HB.s THEN "B" ELSE "A", an |-> ar.n,
                                               ok |-> res.ok, pth |-> pth]),
                          !.style = IF nst = 0 THEN sty ELSE @]
    /\ IF t = "eth_pub"
       THEN Emit([k |-> "pubkey", ok |-> "t", saved |-> PubOf(SysPath(pth)), printed |-> PubOf(SysPath(pth)),
                  want |-> PubOf(PathSeq(pth)), paths |-> <<SysPath(pth)>>, want_path |-> PathSeq(pth)])
       ELSE
       Emit([k |-> "sign", via |-> via,
             args |-> [given |-> ar.given, hash |-> ar.h.s,
                       iter |-> [form |-> "str", val |-> 0, s |-> ar.it.s]],
             given |-> gsig, ok |-> IF res.ok THEN "t" ELSE "f", sig |-> res.sig,
             exists |-> IF res.fx THEN "t" ELSE "f",
             file |-> IF res.fx THEN FileOf(res.h, res.it, res.ss) ELSE NoFile,
             \* eth: the signature is by the key of the path the tool sent, checked under the key of
             \* the path the operator selected
             verifies |-> IF res.ok /\ t \in {"key", "eth"}
                          THEN (IF signed = K256(text) /\ (t = "eth" => SysPath(pth) = PathSeq(pth))
                                THEN "t" ELSE "f") ELSE "na",
             ver_of |-> text,
             paths |-> IF t = "eth" THEN (IF res.ok THEN <<SysPath(pth), SysPath(pth)>> ELSE <<SysPath(pth)>>)
                       ELSE <<>>,
             want_path |-> IF t = "eth" THEN PathSeq(pth) ELSE <<>>])
    /\ UNCHANGED pc

Step ==
    /\ pc = "tool" /\ Len(env.steps) < MaxSteps
    /\ \E t \in Tools \ {"none"}, a \in ArgShapes, sp \in SigSpells, pth \in PathChoices, sty \in Styles :
         /\ Len(sigs) < MaxSigs
         \* the path is the operator's choice for eth / eth -b (with other arguments in a first step
         \* only); the style of the command line for one-step sessions (longer ones: the concretiser
         \* cycles through the styles)
         /\ (pth # "absent") => (t \in {"eth", "eth_pub"} /\ Len(env.steps) = 0)
         /\ (t = "eth_pub") => (a = "none" /\ Canon /\ Len(env.steps) = 0)
         /\ (Len(env.steps) = 2) => (env.steps[1].pth = "absent" /\ env.steps[1].op # "eth_pub")
         /\ (Len(env.steps) >= 1) => (env.style = "short_first" /\ sty = "short_first")
         /\ ~Canon => sty = "short_first"
         \* other bases and spelled files: one plain step, as before
         /\ ~Canon => (a = "none" /\ Len(env.steps) = 0 /\ t # "message")
         /\ (env.mut \notin {"none", "absent"}) => t = "key"
         /\ (t = "manual_spell") => (fx /\ hash = H0 /\ iter = I0 /\ a = "none" /\ Len(env.steps) = 0)
         /\ (t # "manual_spell") => sp = CHOOSE x \in SigSpells : TRUE
         \* operations that never look at the arguments get fewer shapes
         /\ (t = "manual_ok") => a \in {"none", "other_iter"}
         /\ (t = "manual_bad") => a = "none"
         /\ (t = "eth") => a \in {"none", "other_iter", "other_app"}
         /\ (Len(env.steps) = 2) => (t = "key" /\ a \in {"none", "other_iter"})
         /\ DoStep(t, a, sp, pth, sty)

\* no (more) steps; with no file the authorize command has nothing to load
StepsDone ==
    /\ pc = "tool"
    /\ env' = [env EXCEPT !.tool = IF Len(env.steps) = 0 THEN "none" ELSE @]
    /\ pc' = IF fx THEN "roundtrip" ELSE "refused"
    /\ UNCHANGED <<hash, iter, sigs, fx, obs, verdict, hist>>
Tool == Step \/ StepsDone

FileBytes(ss) == Lower(hash.s) \o <<58>> \o Dec(SysIter(iter))     \* stands for the JSON text
RoundTrip ==
    /\ pc = "roundtrip"
    /\ Emit([k |-> "roundtrip", ok |-> "t", after |-> File(sigs), f1 |-> FileBytes(sigs),
             f2 |-> FileBytes(sigs)])
    /\ pc' = "sigver" /\ UNCHANGED <<env, hash, iter, sigs, fx>>

Session == env.mut = "absent" \/ Len(env.steps) >= 2
           \/ \E i \in DOMAIN env.steps : env.steps[i].args # "none"
Answer(op, res) == <<CLA, SIGNER_AUTH, op, res>>
\* device: the iteration must be above the current one (0 never is); threshold reached at the
\* k-th signature of the file, or never
SigVer ==
    /\ pc = "sigver"
    /\ \E cur \in {"below", "notbelow"}, k \in (1..MaxSigs) \cup {NEVER} :
         /\ (SysIter(iter) = 0) => cur = "notbelow"
         /\ (k # NEVER) => k <= Len(sigs)
         /\ (cur = "notbelow") => k = NEVER
         \* after a session only: threshold at the last signature, or never
         /\ Session => (cur = "below" /\ k \in {Len(sigs), NEVER})
         /\ (Len(env.steps) = 3) => k = (IF Len(sigs) = 0 THEN NEVER ELSE Len(sigs))
         /\ env' = [env EXCEPT !.cur = cur, !.k = k]
         /\ LET a == <<CLA, SIGNER_AUTH, 1>> \o PyFromHex(hash.s) \o
                     <<SysIter(iter) \div 256, SysIter(iter) % 256>> IN     \* to_bytes(2, 'big')
            IF cur = "below"
            THEN /\ Emit([k |-> "apdu", apdu |-> a, sw |-> SW_OK, resp |-> <<CLA, SIGNER_AUTH, 1>>])
                 /\ pc' = "sign"
            ELSE /\ Emit([k |-> "apdu", apdu |-> a, sw |-> 27139, resp |-> <<>>])     \* 0x6A03
                 /\ pc' = "finish"
    /\ UNCHANGED <<hash, iter, sigs, fx>>

SendSig ==
    /\ pc = "sign"
    /\ LET i == obs.sent IN       \* obs.sent = 1 + signatures sent
       IF i > Len(sigs) THEN pc' = "finish" /\ UNCHANGED <<obs, verdict, hist>>
       ELSE /\ Emit([k |-> "apdu", apdu |-> <<CLA, SIGNER_AUTH, 2>> \o PyFromHex(sigs[i]),
                     sw |-> SW_OK, resp |-> Answer(2, IF i = env.k THEN 2 ELSE 1)])
            /\ pc' = IF i = env.k THEN "finish" ELSE "sign"
    /\ UNCHANGED <<env, hash, iter, sigs, fx>>

SigVerApduSys == <<CLA, SIGNER_AUTH, 1>> \o PyFromHex(hash.s) \o
                 <<SysIter(iter) \div 256, SysIter(iter) % 256>>
Finish ==
    /\ pc = "finish"
    \* "Not enough signatures" is an HSM2DongleError; a device status word an HSM2DongleErrorResult.
    \* `fresh`: what the same operation gives on a freshly loaded copy of the same content -- the
    \* code keeps no state between operations, so the same
    /\ Emit([k |-> "outcome", authorized |-> IF obs.done THEN "t" ELSE "f",
             exc |-> IF obs.done THEN "none"
                     ELSE IF obs.sigver = "err" THEN "HSM2DongleErrorResult" ELSE "HSM2DongleError",
             fresh |-> IF obs.done THEN "t" ELSE "f"])
    /\ pc' = "authdone" /\ UNCHANGED <<env, hash, iter, sigs, fx>>
AfterAuth ==
    /\ pc = "authdone" /\ pc' = IF env.mode = "history" THEN "hist" ELSE "done"
    /\ UNCHANGED <<env, hash, iter, sigs, fx, obs, verdict, hist>>

(***************************************************************************)
(* Histories on ONE loaded SignerAuthorization object: 2..MaxOps           *)
(* operations out of                                                       *)
(*   auth_new   HSM2Dongle.authorize_signer(obj) against a new device      *)
(*              (current iteration below / not below, threshold at k /     *)
(*              never)                                                     *)
(*   auth_same  ... against the device of the previous operation: it       *)
(*              answers SIGVER with an error (iteration no longer above    *)
(*              the current one after a success, protocol error after an   *)
(*              unfinished attempt)                                        *)
(*   dict save sigs ver   to_dict() / save_to_jsonfile + reload /          *)
(*              .signatures / .signer_version: the object's content        *)
(*   add add_bad          add_signature(good / malformed)                  *)
(* The unchanged code keeps the object's content across authorize (the     *)
(* exchange reads a copy of the list), so Sys's `sigs` only changes by add.*)
(***************************************************************************)
HistOps == {"auth_new", "auth_same", "dict", "save", "sigs", "ver", "add", "add_bad"}
Content == [hash |-> Lower(hash.s), iter |-> SysIter(iter), sigs |-> sigs]
StartHistory ==
    /\ pc = "sigver" /\ env.mut = "none" /\ hash = H0 /\ iter = I0 /\ env.steps = <<>>
    /\ env' = [env EXCEPT !.mode = "history"] /\ pc' = "hist"
    /\ UNCHANGED <<hash, iter, sigs, fx, obs, verdict, hist>>
HOp ==
    /\ pc = "hist" /\ Len(env.ops) < MaxOps
    /\ \E op \in HistOps, k \in (1..MaxSigs) \cup {NEVER}, cur \in {"below", "notbelow"} :
         LET nops == Len(env.ops)
             auth == op \in {"auth_new", "auth_same"}
             s    == IF op = "add" THEN GoodSig(112 + Len(sigs)) ELSE BadSig(112 + Len(sigs), "trail")
             okadd == op = "add" /\ SysSigOK(s) IN
         /\ (op = "auth_new") => /\ (k # NEVER => k \in {1, Len(sigs)} /\ k <= Len(sigs))
                                  /\ (cur = "notbelow" => k = NEVER)
         /\ (op = "auth_same") => (nops = 1 /\ env.ops[1].op = "auth_new" /\ k = NEVER /\ cur = "notbelow")
         /\ ~auth => (k = NEVER /\ cur = "below")
         /\ (op \in {"add", "add_bad"}) => Len(sigs) < MaxSigs
         \* the last of three operations: authorize against a new device, or save
         /\ (nops = 2) => \/ op = "save"
                           \/ (op = "auth_new" /\ cur = "below"
                               /\ k = IF Len(sigs) = 0 THEN NEVER ELSE Len(sigs))
         /\ env' = [env EXCEPT !.ops = Append(@, [op |-> op, k |-> k, cur |-> cur]), !.k = k, !.cur = cur]
         /\ IF auth THEN
                /\ Emit2([k |-> "begin"],
                         IF cur = "below"
                         THEN [k |-> "apdu", apdu |-> SigVerApduSys, sw |-> SW_OK, resp |-> <<CLA, SIGNER_AUTH, 1>>]
                         ELSE [k |-> "apdu", apdu |-> SigVerApduSys,
                               sw |-> IF op = "auth_same" THEN 27137 ELSE 27139, resp |-> <<>>])
                /\ pc' = IF cur = "below" THEN "sign" ELSE "finish"
                /\ UNCHANGED sigs
            ELSE IF op \in {"add", "add_bad"} THEN
                /\ sigs' = IF okadd THEN Append(sigs, s) ELSE sigs
                /\ Emit([k |-> "add", given |-> s, ok |-> IF okadd THEN "t" ELSE "f",
                         after |-> [Content EXCEPT !.sigs = IF okadd THEN Append(sigs, s) ELSE sigs]])
                /\ UNCHANGED pc
            ELSE /\ LET c(via) == [k |-> "content", via |-> via, hash |-> Content.hash,
                                    iter |-> Content.iter, sigs |-> Content.sigs] IN
                    IF op = "save" THEN Emit2(c("disk"), c("reload")) ELSE Emit(c(op))
                 /\ UNCHANGED <<pc, sigs>>
    /\ UNCHANGED <<hash, iter, fx>>
HistDone == /\ pc = "hist" /\ Len(env.ops) >= 2 /\ pc' = "done"
            /\ UNCHANGED <<env, hash, iter, sigs, fx, obs, verdict, hist>>

Next == Build \/ RefusedAuthorize \/ Tool \/ RoundTrip \/ SigVer \/ SendSig \/ Finish \/ AfterAuth
        \/ StartHistory \/ HOp \/ HistDone
Spec == Init /\ [][Next]_vars

Terminal == pc = "done"
Holds == verdict = ""
\* the named clauses, one invariant each (so that TLC names the broken one)
Clause(c) == verdict # c
RefusesMalformed    == Clause("RefusesMalformed")
AcceptsWellFormed   == Clause("AcceptsWellFormed")
MessageText         == Clause("MessageText") /\ Clause("IterationKept") /\ Clause("HashKept")
Eip191Wrap          == Clause("Eip191Wrap")
Keccak256Digest     == Clause("Keccak256Digest") /\ Clause("OracleText")
SignatureVerifies   == Clause("SignatureVerifies") /\ Clause("SignatureAdded")
                       /\ Clause("SignatureWellFormed") /\ Clause("SignaturesKept")
RoundTripP          == Clause("RoundTrip") /\ Clause("RoundTripStable")
SelectedPathUsed    == Clause("SelectedPathUsed") /\ Clause("PublicKeyOfSelectedPath")
ExchangeShape       == Clause("SigVerFirst") /\ Clause("SignaturesInOrder")
                       /\ Clause("NothingAfterSuccess") /\ Clause("SentWithoutAuthorization")
FileNamesItsVersion == Clause("FileNamesItsVersion")
AuthorizedIff       == Clause("AuthorizedIff") /\ Clause("AllSentBeforeFailing")
DocumentedFailure   == Clause("DocumentedFailure")
\* model-level restatement of the exchange clause on Env's own k (not through obs)
ObjectUnchanged == Clause("ObjectUnchanged") /\ Clause("SameAsFreshLoad")
AuthorizedIffK == pc = "authdone" /\ obs.st = "built" /\ env.cur = "below"
                    => (obs.done <=> env.k <= Len(sigs)) /\ (obs.done => obs.sent = 1 + env.k)
                       /\ (~obs.done => obs.sent = 1 + Len(sigs))
\* action properties: the exchange only ever moves forward by one, and not at all once authorised
\* (a new operation of a history starts its own exchange)
StopsAtSuccess == [][obs.done => (obs'.sent = obs.sent \/ pc = "hist")]_vars
OneAtATime     == [][obs'.sent \in {obs.sent, obs.sent + 1} \/ pc \in {"build", "hist"}]_vars
\* vacuity guards: must be *violated* (negative configurations)
NeverAuthorized == ~obs.done
NeverRefused    == obs.st # "refused"
NeverFailsShort == ~(Terminal /\ obs.st = "built" /\ ~obs.done /\ obs.sigver = "ok")

View == <<pc, env, hash, iter, sigs, fx, obs, verdict>>
=============================================================================
