SPECIFICATION Spec
INVARIANT NeverOk
CHECK_DEADLOCK FALSE
