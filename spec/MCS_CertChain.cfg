SPECIFICATION Spec
CONSTANTS
  Names = {"device", "attestation", "ui", "signer"}
  MaxTargets = 1
  MaxCorr = 1
  CorrKinds = {"sigOtherKey", "sigFlip", "sigSwap", "msgFlipKey", "msgFlipOther", "keySubst", "tweakFlip", "tweakRemove", "tweakAdd", "reparent", "wrongRoot"}
  Shapes = {"comp", "longTail", "longHead", "short", "sliced"}
  MaxShape = 2
  ShapeWithCorr = TRUE
  MaxOps = 0
  OpKinds = {}
  Origins = {"loaded"}
  TweakChoice = {"plain", "tweaked"}
INVARIANT Agree
INVARIANT AgreeJudge
INVARIANT LoadIffWellFormed
INVARIANT Bounded
INVARIANT BudgetOk
PROPERTY Stable
CHECK_DEADLOCK FALSE
