SPECIFICATION TSpec
INVARIANT Monitor
CHECK_DEADLOCK FALSE
