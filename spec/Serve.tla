-------------------------------- MODULE Serve --------------------------------
(***************************************************************************)
(* Env || Sys model of comm/server.py for C03: one connection at a time    *)
(* (socketserver.TCPServer is single threaded), per connection             *)
(*   Accept -> Read -> Decode -> Parse -> Dispatch -> Reply -> Close        *)
(* with every exception class the code distinguishes as an action and its  *)
(* (reply?, keep running?) outcome, and the shutdown thread.               *)
(* Env: request-line classes in any order over one manager lifetime; the   *)
(* device keeps to its protocol.  `Outcome(cls)` says what handling a line *)
(* of that class ends in; for every client-producible class it must be     *)
(* "result" — the POISON class stands for "some input makes               *)
(* handle_request raise" and exists only in the negative configuration.    *)
(***************************************************************************)
EXTENDS ServeProps

CONSTANTS Classes, MaxConns, WithPoison

Outcome(c) == CASE c = "invalid_utf8" -> "unicode_error"
                [] c \in {"empty", "not_json", "deep_nesting", "huge_integer"} -> "json_error"
                [] c = "POISON" -> "other_exception"
                [] OTHER -> "result"

VARIABLES srv, pc, cls, conns, wrote, shutreq, obs, bad, hist
vars == <<srv, pc, cls, conns, wrote, shutreq, obs, bad, hist>>

Init == /\ srv = "listening" /\ pc = "idle" /\ cls = "none" /\ conns = 0 /\ wrote = <<>>
        /\ shutreq = FALSE /\ obs = <<>> /\ bad = "" /\ hist = <<>>

AllClasses == Classes \cup (IF WithPoison THEN {"POISON"} ELSE {})

\* a client connects and sends one line
Accept == /\ pc = "idle" /\ srv = "listening" /\ conns < MaxConns
          /\ \E c \in AllClasses : cls' = c /\ hist' = Append(hist, c)
          /\ conns' = conns + 1 /\ pc' = "decode" /\ wrote' = <<>> /\ shutreq' = FALSE
          /\ UNCHANGED <<srv, obs, bad>>
\* the listening socket is gone: the client cannot connect
Refused == /\ pc = "idle" /\ srv = "down" /\ conns < MaxConns
           /\ conns' = conns + 1
           /\ LET e == [connected |-> FALSE, nlines |-> 0, isobj |-> FALSE, hascode |-> FALSE,
                        shutdown |-> FALSE] IN
              /\ obs' = Append(obs, e)
              /\ bad' = IF bad # "" THEN bad ELSE FirstFailV(Clauses(e))
           /\ hist' = Append(hist, "refused")
           /\ UNCHANGED <<srv, pc, cls, wrote, shutreq>>

Decode == /\ pc = "decode"
          /\ IF Outcome(cls) = "unicode_error"
             THEN wrote' = Append(wrote, "errcode") /\ pc' = "close"      \* format_error(), return
             ELSE pc' = "parse" /\ UNCHANGED wrote
          /\ UNCHANGED <<srv, cls, conns, shutreq, obs, bad, hist>>
Parse == /\ pc = "parse"
         /\ IF Outcome(cls) = "json_error"
            THEN wrote' = Append(wrote, "errcode") /\ pc' = "close"       \* format_error() + finally
            ELSE pc' = "dispatch" /\ UNCHANGED wrote
         /\ UNCHANGED <<srv, cls, conns, shutreq, obs, bad, hist>>
\* protocol.handle_request and the except clauses of _RequestHandler.handle, then `finally: reply`
Dispatch == /\ pc = "dispatch"
            /\ CASE Outcome(cls) = "result" ->
                      wrote' = Append(wrote, "errcode") /\ UNCHANGED shutreq
                 [] Outcome(cls) = "not_implemented" ->
                      wrote' = Append(wrote, "empty_object") /\ UNCHANGED shutreq
                 [] Outcome(cls) = "protocol_error" ->                    \* unknown_error(), then shutdown
                      wrote' = Append(wrote, "errcode") /\ shutreq' = TRUE
                 [] Outcome(cls) \in {"interrupt", "other_exception"} ->  \* response stays {}
                      wrote' = Append(wrote, "empty_object") /\ shutreq' = TRUE
            /\ pc' = "close" /\ UNCHANGED <<srv, cls, conns, obs, bad, hist>>
Close == /\ pc = "close"
         /\ LET e == [connected |-> TRUE, nlines |-> Len(wrote),
                      isobj |-> (Len(wrote) = 1),
                      hascode |-> (Len(wrote) = 1 /\ wrote[1] = "errcode"),
                      shutdown |-> shutreq] IN
            /\ obs' = Append(obs, e)
            /\ bad' = IF bad # "" THEN bad ELSE FirstFailV(Clauses(e))
         /\ pc' = "idle"
         /\ srv' = IF shutreq THEN "down" ELSE srv          \* the shutdown thread stops serve_forever
         /\ UNCHANGED <<cls, conns, wrote, shutreq, hist>>

Next == Accept \/ Refused \/ Decode \/ Parse \/ Dispatch \/ Close
Spec == Init /\ [][Next]_vars
FairSpec == Spec /\ WF_vars(Decode \/ Parse \/ Dispatch \/ Close)

NoViolation == bad = ""
NeverDown   == srv # "down"
\* every accepted connection is eventually closed with the server listening again
Progress == (pc # "idle") ~> (pc = "idle" /\ srv = "listening")
View == <<srv, pc, cls, conns, wrote, shutreq, bad>>
=============================================================================
