SPECIFICATION Spec
CONSTANTS
  Names = {"device", "attestation", "ui", "signer"}
  MaxTargets = 2
  MaxCorr = 2
  CorrKinds = {"sigOtherKey", "sigFlip", "keySubst", "sigSwap", "tweakRemove", "wrongRoot"}
  Shapes = {"longTail"}
  MaxShape = 0
  ShapeWithCorr = FALSE
  MaxOps = 0
  OpKinds = {}
  Origins = {"loaded"}
  TweakChoice = {"plain", "tweaked"}
INVARIANT Agree
INVARIANT EmitB
CHECK_DEADLOCK FALSE
