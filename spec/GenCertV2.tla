----------------------------- MODULE GenCertV2 -----------------------------
(* Generation configuration of CertV2: prints every certificate Env can     *)
(* assemble (one line per terminal state) with the model's verdict.         *)
EXTENDS CertV2, Json
GenSpec == Init /\ [][Next]_vars
EmitB == Done => PrintT("B " \o ToJson([cert |-> cert, rot |-> rot, ndef |-> ndef, nren |-> nren, outcome |-> outcome,
                                         failing |-> failing, valid |-> SpecValid(cert, rot, Target)]))
=============================================================================
