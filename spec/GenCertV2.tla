----------------------------- MODULE GenCertV2 -----------------------------
(* Generation configuration of CertV2: prints every certificate Env can     *)
(* assemble (one line per terminal state) with the model's verdict.         *)
EXTENDS CertV2, Json
GenSpec == Init /\ [][Next]_vars
\* one line per complete history: the last validation of a certificate whose verdict may depend on
\* the clock (MaxRounds validations), or the only validation otherwise
Complete == Done /\ (Len(clks) = MaxRounds \/ ~TimeSensitive \/ outcome = "loaderror")
EmitB == Complete => PrintT("B " \o ToJson([cert |-> cert, rot |-> rot, ndef |-> ndef, nren |-> nren, outcome |-> outcome, clks |-> clks, scale |-> scale, tz |-> tz, len |-> len, outs |-> Append(outs, outcome),
                                         failing |-> failing, valid |-> SpecValid(cert, rot, Target)]))
=============================================================================
