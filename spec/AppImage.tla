------------------------------ MODULE AppImage ------------------------------
(***************************************************************************)
(* C19.  Two machines share this module (mode chosen in Init, so their     *)
(* state spaces add up instead of multiplying):                            *)
(*                                                                         *)
(* mode "image"  Env = somebody producing an Intel-HEX file for an image:  *)
(*    every cut of every area into data records of 1..R bytes (never over  *)
(*    a 64 KiB boundary), the records written in ANY order, a type-04      *)
(*    record whenever the zone changes (plus up to ExtraEla redundant      *)
(*    ones), type 01 at the end.  Sys = the ledgerblue parser fed one      *)
(*    record at a time (a left fold, so the interleaving is faithful) and  *)
(*    compute_app_hash reading its area list.                              *)
(*                                                                         *)
(* mode "sign"   signonetime as a protocol, MaxRuns runs in one directory: *)
(*    StartRun(imgs, pub) ; GenKey ; WritePub ;                            *)
(*    (Hash_i ; Sign_i ; WriteSig_i)* ; Exit                               *)
(*    Env picks the -a list and the -p path of every run and hands out a   *)
(*    fresh key at every generation (perfect randomness: an assumption).   *)
(*    By the invariant of mode "image" the hash of a file is a function of *)
(*    the image's bytes only, so here a hash is the content class.         *)
(*                                                                         *)
(* mode "auth"   `signapp message` invoked MaxSteps times: Env picks the   *)
(*    image, the iteration and where the message goes (0 = printed, n =    *)
(*    the n-th -o path), and what the -o paths hold before the first       *)
(*    invocation (nothing / an authorization for some other image).  Sys   *)
(*    computes the hash of the image given and writes a new authorization  *)
(*    over whatever is there.                                              *)
(*                                                                         *)
(* Size classes (all modes): Env also picks a size class -- when the file  *)
(*    is complete in mode "image", at the start in the other modes.  In    *)
(*    the model a byte of an area is a unit; UnitLens[class][unit] is its  *)
(*    real length (1 for "small"; areas of 4096 / 8192 / 12288 bytes for   *)
(*    "page-multiple", 65536 for "zone-multiple", one less / one more for  *)
(*    "one-below" / "one-above").  The replay writes the image with those  *)
(*    lengths; HashedLength states the size-sensitive part of the property.*)
(*                                                                         *)
(* Scale (mode "image"): the size of the file as text is an Env dimension  *)
(*    too.  For a file written coarsely (one abstract record per area) Env *)
(*    may pick the size class "scaled" together with a scale [thr, side,   *)
(*    rlen, eol]: the replay then gives the areas the lengths that put the *)
(*    HEX text just below / just above thr characters when every area is   *)
(*    written in order with data records of rlen bytes and that line end   *)
(*    (UnitLens.scaled only fixes the proportions).                        *)
(*                                                                         *)
(* Invocation shapes (modes "sign" and "auth"): how a tool is invoked is    *)
(*    part of the environment.  Env picks a setup [size, dirs, form]:      *)
(*    dirs = how the image files are named and placed                      *)
(*       "flat"      distinct names in one directory                       *)
(*       "samename"  the same file name in a directory per image           *)
(*       "mixed"     images 1 and 2 share a name in two directories, the   *)
(*                   others have names of their own                        *)
(*       "blanks"    distinct names with blanks / non-ASCII characters     *)
(*    form = index into Forms, [addr, cwd, pub, spell, opt]: opt = the      *)
(*       tool's optional flag (-v / --verbose) present or absent; paths    *)
(*       relative / absolute / "./x" / mixed within one list; the working  *)
(*       directory is the images' directory or another one; the public     *)
(*       key (-p) or authorization (-o) path relative, absolute, or in     *)
(*       another directory; spell = how the paths are written (plain, or   *)
(*       not in normal form: `d/..`, `link/..` with or without another     *)
(*       image where the spelling collapses to, through links, `//`, `/./`)*)
(*       Every other invocation of a session uses      *)
(*       AltForm[form] (so the same files are also named the other way).   *)
(*    Setups / AuthSetups are covering sets (every pair of values occurs). *)
(*    Sys identifies an image by its path: NameOf is only used by the      *)
(*    defective variant "byname" (a hash table keyed by file name).        *)
(*                                                                         *)
(* Variant # "ok" swaps in a defective Sys; used only by the negative      *)
(* configurations (each invariant must be violated by its variant).        *)
(***************************************************************************)
EXTENDS AppImageProps, SequencesExt

CONSTANTS Images,      \* set of images; an image is a set of areas [z, o, d]
          R,           \* maximal data-record length
          ExtraEla,    \* redundant type-04 records allowed per file
          Contents,    \* sign mode: Contents[i] = content class of image i
          ImgLists,    \* sign mode: the -a lists Env may choose
          PubPaths,    \* sign mode: the -p paths Env may choose (numbers)
          MaxRuns,
          Modes,       \* subset of {"image", "sign", "auth"}
          Iters,       \* auth mode: iterations Env may ask for
          OutPaths,    \* auth mode: 0 = print, n > 0 = the n-th -o path
          MaxSteps,    \* auth mode: invocations in a row
          SizeClasses, \* subset of DOMAIN UnitLens
          Scales,      \* image mode: set of [thr, side, rlen, eol]
          Setups,      \* sign mode: set of [size, dirs, form]
          AuthSetups,  \* auth mode: set of [size, dirs, form]
          Forms,       \* sequence of [addr, cwd, pub]
          AltForm,     \* form index -> the form of every other invocation
          UnitLens,    \* size class -> sequence: unit id -> real length in bytes
          Variant      \* "ok" | "reuse" | "leak" | "signpath" | "twopubs" | "fileorder" | "stale" | "tailtwice" | "byname" | "readcap" | "normpath" | "verbose"

VARIABLES mode,
          size,        \* the size class Env picked ("none": not yet)
          setup,       \* [dirs, form] Env picked (modes "sign" and "auth")
          scale,       \* [thr, side, rlen, eol] Env picked with the size class "scaled"
          \* ---- image mode
          img,         \* the image being written
          pending,     \* data records [z, a, d] not yet in the file
          file,        \* the file so far
          wzone,       \* zone selected by the last type-04 record written
          extra,       \* redundant type-04 records still allowed
          p,           \* parser state after reading `file`
          done,
          \* ---- sign mode
          pc, run, plan, cur, sk, fresh, gens, fs, idx, h, sig, outleak, obs,
          \* ---- auth mode
          afs,         \* -o path -> the authorization it holds ([found, hash, gotiter])
          apre,        \* afs before the first invocation
          astep,       \* invocations so far
          alast,       \* the observable record of the last invocation
          aplan        \* what Env asked for so far
ivars == <<img, pending, file, wzone, extra, p, done>>
svars == <<pc, run, plan, cur, sk, fresh, gens, fs, idx, h, sig, outleak, obs>>
avars == <<afs, apre, astep, alast, aplan>>
vars  == <<mode, size, setup, scale, ivars, svars, avars>>

(***************************************************************************)
(* image mode                                                              *)
(***************************************************************************)
Least(a, b) == IF a < b THEN a ELSE b

\* all ways to cut `data` starting at (z, o) into consecutive records of 1..R bytes inside one zone
RECURSIVE Cuts(_, _, _)
Cuts(z, o, data) ==
    IF data = <<>> THEN {{}}
    ELSE UNION { { {[z |-> z, a |-> o, d |-> SubSeq(data, 1, n)]} \cup rest :
                     rest \in Cuts(IF o + n = ZoneSize THEN z + 1 ELSE z,
                                   IF o + n = ZoneSize THEN 0 ELSE o + n,
                                   SubSeq(data, n + 1, Len(data))) }
               : n \in 1..Least(Least(R, Len(data)), ZoneSize - o) }

RECURSIVE AllCuts(_)
AllCuts(as) == IF as = <<>> THEN {{}}
               ELSE { c \cup rest : c \in Cuts(as[1].z, as[1].o, as[1].d), rest \in AllCuts(Tail(as)) }

NoSetup == [dirs |-> "none", form |-> 0]
\* the form of the k-th invocation of a session
FormOf(k) == IF k % 2 = 1 THEN setup.form ELSE AltForm[setup.form]
\* file name (a number) of image i under a directory layout
NameOf(i) == IF setup.dirs = "samename" THEN 1
             ELSE IF setup.dirs = "mixed" THEN (IF i <= 2 THEN 1 ELSE i)
             ELSE i
NoPlan == <<>>
SignInit == /\ pc = "idle" /\ run = 0 /\ plan = NoPlan /\ cur = [imgs |-> <<>>, pub |-> PubPath(0)]
            /\ sk = 0 /\ fresh = 1 /\ gens = <<>> /\ fs = {} /\ idx = 0 /\ h = 0
            /\ sig = [by |-> 0, over |-> 0] /\ outleak = FALSE /\ obs = InitObs
ImageIdle == /\ img = {} /\ pending = {} /\ file = <<>> /\ wzone = NoA /\ extra = 0
             /\ p = PInit /\ done = FALSE

APaths == OutPaths \ {0}
\* what an -o path may hold beforehand: an authorization for an image that is none of ours
OtherAuth == [found |-> TRUE, hash |-> 99, gotiter |-> 7]
NoStep == [img |-> 0, iter |-> 0, out |-> 0, exit |-> 0, found |-> FALSE, hash |-> 0, gotiter |-> 0]
AuthIdle == /\ afs = [o \in APaths |-> NoAuth] /\ apre = afs /\ astep = 0 /\ alast = NoStep
            /\ aplan = <<>>

Init == /\ mode \in Modes /\ scale = [thr |-> 0, side |-> "none", rlen |-> 0, eol |-> "none"]
        /\ IF mode = "image" THEN size = "none" /\ setup = NoSetup
           ELSE \E su \in (IF mode = "sign" THEN Setups ELSE AuthSetups) :
                   /\ su.size \in SizeClasses
                   /\ size = su.size /\ setup = [dirs |-> su.dirs, form |-> su.form]
        /\ IF mode = "image"
           THEN /\ img \in Images
                /\ pending \in AllCuts(SetToSeq(img))
                /\ file = <<>> /\ wzone = NoA /\ extra = ExtraEla /\ p = PInit /\ done = FALSE
                /\ SignInit /\ AuthIdle
           ELSE IF mode = "sign"
           THEN /\ ImageIdle /\ SignInit /\ AuthIdle
           ELSE /\ ImageIdle /\ SignInit
                /\ afs \in [APaths -> {NoAuth, OtherAuth}] /\ apre = afs
                /\ astep = 0 /\ alast = NoStep /\ aplan = <<>>

Put(r) == /\ file' = Append(file, r) /\ p' = PStep(p, r)

\* a type-04 record is free when it is needed (another zone, and the previous record is not itself a
\* type-04 record); any other one -- the same zone again, or two in a row -- comes out of the budget
SelectZone == /\ mode = "image" /\ ~done
              /\ \E z \in {r.z : r \in pending} :
                    LET needed == IF z = wzone THEN FALSE
                                  ELSE IF file = <<>> THEN TRUE ELSE file[Len(file)].t = "data" IN
                    /\ IF needed THEN TRUE ELSE extra > 0
                    /\ extra' = IF needed THEN extra ELSE extra - 1
                    /\ wzone' = z /\ Put(Ela(z))
              /\ UNCHANGED <<mode, size, setup, scale, img, pending, done, svars, avars>>

WriteData == /\ mode = "image" /\ ~done
             /\ \E r \in pending :
                   /\ r.z = wzone
                   /\ pending' = pending \ {r} /\ Put(Data(r.a, r.d))
             /\ UNCHANGED <<mode, size, setup, scale, img, wzone, extra, done, svars, avars>>

NoScale == [thr |-> 0, side |-> "none", rlen |-> 0, eol |-> "none"]
\* one abstract data record per area
Coarse == Cardinality({k \in DOMAIN file : file[k].t = "data"}) = Cardinality(img)
WriteEof == /\ mode = "image" /\ ~done /\ pending = {}
            /\ Put(Eof) /\ done' = TRUE
            /\ \E sz \in SizeClasses \cup (IF Coarse THEN {"scaled"} ELSE {}) :
                  /\ size' = sz
                  /\ scale' \in (IF sz = "scaled" THEN Scales ELSE {NoScale})
            /\ UNCHANGED <<mode, setup, img, pending, wzone, extra, svars, avars>>

\* what compute_app_hash feeds to SHA-256 once the file is complete
\* "tailtwice": block-wise hashing whose remainder step takes the whole area when the area is an
\* exact number of 4096-byte blocks
RECURSIVE TailTwice(_)
TailTwice(as) == IF as = <<>> THEN <<>>
                 ELSE (IF WLen(Head(as).d, UnitLens[size]) % 4096 = 0
                       THEN Head(as).d \o Head(as).d ELSE Head(as).d) \o TailTwice(Tail(as))
HashInput == IF Variant = "fileorder" THEN FileOrderInput(file)
             ELSE IF Variant = "tailtwice" THEN TailTwice(PAreas(p))
             \* "readcap": reading stops at a cap on the text; what lies beyond never reaches the parser
             ELSE IF Variant = "readcap" /\ scale.side = "above"
             THEN HashInputOf(SubSeq(file, 1, Len(file) - 2))
             ELSE HashInputP(p)

(***************************************************************************)
(* sign mode                                                               *)
(***************************************************************************)
FileRec(path, kind, key, by, over, leak) ==
    [path |-> path, kind |-> kind, key |-> key, by |-> by, over |-> over, leak |-> leak, w |-> TRUE]
Write(files, f) == {g \in files : g.path # f.path} \cup {f}

\* the image files are in the directory from the start and are never written
ImgFiles == {[path |-> ImgPath(i), kind |-> "image", key |-> 0, by |-> 0, over |-> 0,
              leak |-> FALSE, w |-> FALSE] : i \in DOMAIN Contents}

\* the observable record of the current run (AppImageProps, section 2)
RunRec == [imgs |-> cur.imgs, pub |-> cur.pub, gens |-> gens, exit |-> 0, files |-> fs,
           outleak |-> outleak]

StartRun == /\ mode = "sign" /\ pc \in {"idle", "exited"} /\ run < MaxRuns
            /\ \E l \in ImgLists, pp \in PubPaths :
                  /\ cur' = [imgs |-> l, pub |-> PubPath(pp)]
                  /\ plan' = Append(plan, [imgs |-> l, pub |-> pp, form |-> FormOf(run + 1)])
            /\ run' = run + 1 /\ pc' = "gen" /\ gens' = <<>> /\ idx' = 1 /\ outleak' = FALSE
            /\ fs' = {[f EXCEPT !.w = FALSE] : f \in (IF run = 0 THEN ImgFiles ELSE fs)}
            /\ obs' = IF pc = "exited" THEN ObserveRun(obs, RunRec) ELSE obs
            /\ UNCHANGED <<mode, size, setup, scale, avars, ivars, sk, fresh, h, sig>>

GenKey == /\ mode = "sign" /\ pc = "gen"
          /\ IF Variant = "reuse" /\ sk # 0
             THEN UNCHANGED <<sk, fresh, gens>>          \* a module-level key survives the run
             ELSE sk' = fresh /\ fresh' = fresh + 1 /\ gens' = Append(gens, fresh)
          /\ pc' = "wpub"
          /\ UNCHANGED <<mode, size, setup, scale, avars, ivars, run, plan, cur, fs, idx, h, sig, outleak, obs>>

WritePub == /\ mode = "sign" /\ pc = "wpub"
            /\ LET f1 == Write(fs, FileRec(cur.pub, "pub", sk, 0, 0, FALSE))
                   f2 == IF Variant = "leak"
                         THEN Write(f1, FileRec([k |-> "other", n |-> 1], "other", 0, 0, 0, TRUE))
                         ELSE IF Variant = "twopubs"
                         THEN Write(f1, FileRec([k |-> "other", n |-> 1], "pub", sk, 0, 0, FALSE))
                         ELSE f1
               IN fs' = f2
            /\ pc' = "hash"
            /\ UNCHANGED <<mode, size, setup, scale, avars, ivars, run, plan, cur, sk, fresh, gens, idx, h, sig, outleak, obs>>

\* compute_app_hash(image) -- by HashInputOk (image mode) a function of the content only
HashI == /\ mode = "sign" /\ pc = "hash"
         /\ h' = Contents[cur.imgs[idx]] /\ pc' = "sign"
         /\ UNCHANGED <<mode, size, setup, scale, avars, ivars, run, plan, cur, sk, fresh, gens, fs, idx, sig, outleak, obs>>

\* "byname": the hashes were put in a table keyed by file name; the last image with a name wins
LastNamed(n) == LET ks == {k \in DOMAIN cur.imgs : NameOf(cur.imgs[k]) = n}
                IN  cur.imgs[CHOOSE k \in ks : \A j \in ks : j <= k]
SignI == /\ mode = "sign" /\ pc = "sign"
         /\ sig' = [by |-> sk, over |-> IF Variant = "signpath" THEN 0
                                       \* "normpath": the path is tidied lexically first; `link/..` then
                                       \* names the other image lying where the spelling collapses to
                                       ELSE IF Variant = "normpath"
                                               /\ Forms[FormOf(run)].spell = "dotdot-link-decoy"
                                       THEN 99
                                       \* "verbose": the optional flag switches on a code path that
                                       \* disturbs what gets hashed
                                       ELSE IF Variant = "verbose" /\ Forms[FormOf(run)].opt # "none"
                                       THEN 98
                                       ELSE IF Variant = "byname"
                                       THEN Contents[LastNamed(NameOf(cur.imgs[idx]))]
                                       ELSE h]
         /\ pc' = "wsig"
         /\ UNCHANGED <<mode, size, setup, scale, avars, ivars, run, plan, cur, sk, fresh, gens, fs, idx, h, outleak, obs>>

WriteSigI == /\ mode = "sign" /\ pc = "wsig"
             /\ fs' = Write(fs, FileRec(SigPath(cur.imgs[idx]), "sig", 0, sig.by, sig.over, FALSE))
             /\ idx' = idx + 1
             /\ pc' = IF idx = Len(cur.imgs) THEN "exit" ELSE "hash"
             /\ UNCHANGED <<mode, size, setup, scale, avars, ivars, run, plan, cur, sk, fresh, gens, h, sig, outleak, obs>>

Exit == /\ mode = "sign" /\ pc = "exit" /\ pc' = "exited"
        /\ UNCHANGED <<mode, size, setup, scale, avars, ivars, run, plan, cur, sk, fresh, gens, fs, idx, h, sig, outleak, obs>>

(***************************************************************************)
(* auth mode                                                               *)
(***************************************************************************)
\* `signapp message -a img -i it [-o path]`: hash the image given, build the authorization for
\* (hash, it), print it or write it over whatever the path holds
Message == /\ mode = "auth" /\ astep < MaxSteps
           /\ \E i \in DOMAIN Contents, it \in Iters, o \in OutPaths :
                LET new   == [found |-> TRUE, hash |-> Contents[i], gotiter |-> it]
                    stale == IF o = 0 THEN FALSE ELSE (Variant = "stale" /\ afs[o].found)
                    wr    == IF stale THEN afs[o] ELSE new          \* stale: keeps what is there
                IN /\ afs' = IF o = 0 THEN afs ELSE [afs EXCEPT ![o] = wr]
                   /\ alast' = [img |-> i, iter |-> it, out |-> o, exit |-> 0, found |-> TRUE,
                                hash |-> wr.hash, gotiter |-> wr.gotiter]
                   /\ aplan' = Append(aplan, [img |-> i, iter |-> it, out |-> o,
                                                form |-> FormOf(astep + 1)])
           /\ astep' = astep + 1
           /\ UNCHANGED <<mode, size, setup, scale, ivars, svars, apre>>

Next == Message \/ SelectZone \/ WriteData \/ WriteEof
        \/ StartRun \/ GenKey \/ WritePub \/ HashI \/ SignI \/ WriteSigI \/ Exit
Spec == Init /\ [][Next]_vars

(***************************************************************************)
(* Properties -- the predicates of AppImageProps on this model's observables*)
(***************************************************************************)
Exited == mode = "sign" /\ pc = "exited"

HashInputOk    == done => (~p.err /\ HashInputOkP(img, HashInput))
HashedLength   == done => HashedLengthP(ImageLen(img, UnitLens[size]), WLen(HashInput, UnitLens[size]))
SinglePub      == Exited => SinglePubP(RunRec)
SigVerifies    == Exited => AllSigsVerifyP(RunRec, Contents)
PrivNotWritten == (mode = "sign") => PrivNotWrittenP(RunRec)
KeyFreshPerRun == Exited => KeyFreshPerRunP(obs, RunRec)

AuthBinds      == (mode = "auth" /\ astep > 0) => AuthBindsP(alast, Contents[alast.img])
\* every -o path holds what the last invocation aimed at it asked for (or what it held before)
AuthFiles      == (mode = "auth") =>
                     \A o \in APaths :
                        LET hits == {k \in DOMAIN aplan : aplan[k].out = o} IN
                        IF hits = {} THEN afs[o] = apre[o]
                        ELSE LET k == CHOOSE x \in hits : \A y \in hits : y <= x IN
                             afs[o] = [found |-> TRUE, hash |-> Contents[aplan[k].img],
                                       gotiter |-> aplan[k].iter]

\* vacuity guards (negative configurations: each of these must be violated)
NeverDone      == ~done
NeverSecondRun == ~(Exited /\ run = 2)
OrderIrrelevant == done => FileOrderInput(file) = ConcatSorted(img)   \* false: files are out of order

\* a run naming two images of different contents by one file name (in two directories)
NeverNameClash == ~(Exited /\ \E a, b \in DOMAIN cur.imgs :
                        /\ NameOf(cur.imgs[a]) = NameOf(cur.imgs[b])
                        /\ Contents[cur.imgs[a]] # Contents[cur.imgs[b]])
NeverReusesPath == ~(mode = "auth" /\ astep >= 2 /\ aplan[1].out # 0 /\ aplan[2].out = aplan[1].out
                      /\ aplan[1].img # aplan[2].img)
AuthTerminal  == mode = "auth" /\ astep = MaxSteps
ImageTerminal == mode = "image" /\ done
SignTerminal  == Exited /\ run = MaxRuns
=============================================================================
