SPECIFICATION Spec
CONSTANTS
  Pool = {"a", "b", "c"}
  MaxItems = 3
  MaxTargets = 1
  MaxOdd = 0
  Stretching = TRUE
INVARIANT EmitB
INVARIANT RoundTrip
CHECK_DEADLOCK FALSE
